"""C11 - primitive codecs agree with the specification on their whole bounded domain.

Explorer L; every cell of every sub-lattice is executed against the compiled
extension built from the working tree; the oracle is specpq's big-integer
implementation; canary bytes around every output buffer.
"""
import itertools

ID = "C11"
LEVEL = "exploration"
FLAVOUR = "plain"
RULE = ("complete Cartesian products per primitive (see DESIGN.md C11 table): one pool task = one "
        "(primitive, width/itemsize/...) cell that loops over counts x patterns x output capacities "
        "(capacity 0 = empty output included); hybrid streams additionally in an 'embedded' layout (input "
        "entered at offset 3 and followed by a decoy run, output entered at offset 2 items, final input "
        "position compared) and with a fixed list of long-run programs (run headers of 2, 3 and 4 bytes); "
        "delta blocks for geometries 128/4, 256/8, 128/1, 256/2, 256/4, 384/4, value count 0, series with "
        "|min_delta| >= 2^31 at small miniblock widths and first values at the type bounds; "
        "write_bitpacked1 against LSB-first packing; "
        "'evaluations' counts cells, counts.calls counts primitive calls; a cell is non-trivial when at "
        "least one call decoded/encoded >= 1 value and was compared with the specification model")
ASSUMPTIONS = ["specpq big-integer codecs are the specification", "numpy, CPython trusted",
               "compiled from the generated cencoding.c/speedups.c present in the working tree"]

CANARY = 0xA5
TABLE = [0x9E3779B97F4A7C15 * (i + 1) & 0xFFFFFFFFFFFFFFFF for i in range(4096)]   # fixed table, no RNG


def pattern(name, n, width):
    m = (1 << width) - 1 if width else 0
    if name == "zeros":
        return [0] * n
    if name == "ones":
        return [m] * n
    if name == "alt":
        return [m if i % 2 else 0 for i in range(n)]
    if name == "ramp":
        return [i & m for i in range(n)]
    if name == "table":
        return [(TABLE[i % 4096] >> 7) & m for i in range(n)]
    if name == "hibit":
        return [(1 << (width - 1)) if width else 0 for i in range(n)]
    raise ValueError(name)


PATTERNS = ["zeros", "ones", "alt", "ramp", "table", "hibit"]
DELTA_SERIES = ("const", "ramp", "down", "extremes", "table", "bigstep", "edgefirst")
DELTA_GEOM_WIDTHS = (1, 7, 8, 9, 28)
DELTA_CAP0_WIDTHS = (0, 1, 9, 28)
DELTA_CAP0_WIDTHS_THOROUGH = (0, 1, 2, 7, 8, 9, 16, 17, 28)
DELTA_GEOMS = ((128, 4), (256, 8), (128, 1), (256, 2), (256, 4), (384, 4))


def points(tier):
    pts = []
    pts.append({"prim": "varint"})
    pts.append({"prim": "zigzag_thrift"})
    for itemsize in (4, 1):
        for w in range(0, 33 if itemsize == 4 else 9):
            pts.append({"prim": "read_bitpacked", "width": w, "itemsize": itemsize})
            pts.append({"prim": "read_rle", "width": w, "itemsize": itemsize})
            pts.append({"prim": "hybrid", "width": w, "itemsize": itemsize})
    pts.append({"prim": "bool"})
    pts.append({"prim": "write_bitpacked1"})
    for w in range(0, 33):
        pts.append({"prim": "encoders", "width": w})
    pts.append({"prim": "writer_encoders"})
    pts.append({"prim": "byte_array"})
    for longval in (0, 1):
        for w in range(0, 65 if longval else 33):
            for count in (1, 2, 31, 32, 33, 34, 128, 129, 257):
                pts.append({"prim": "delta", "width": w, "longval": longval, "count": count})
    for longval in (0, 1):
        # a header announcing zero values (all-null page): no miniblock exists, so one width suffices
        pts.append({"prim": "delta", "width": 0, "longval": longval, "count": 0})
        # empty output (every value of the page is null): own points, a defect here kills the worker
        for w in DELTA_CAP0_WIDTHS if tier != "thorough" else DELTA_CAP0_WIDTHS_THOROUGH:
            for count in (0, 1, 2, 33, 129):
                pts.append({"prim": "delta_cap0", "width": w, "longval": longval, "count": count})
        # the width lattice at 64 values per miniblock (block 256 / 4 miniblocks), widths around byte borders
        for w in DELTA_GEOM_WIDTHS if tier != "thorough" else range(0, 29):
            for count in (2, 64, 65, 66, 129, 257):
                pts.append({"prim": "delta", "width": w, "longval": longval, "count": count, "geom": [256, 4]})
    counts = [1, 2, 3, 31, 32, 33, 63, 64, 65, 127, 128, 129, 130, 255, 256, 257]
    if tier == "thorough":
        counts += [511, 512, 513, 1000, 4097]
    for longval in (0, 1):
        for series in DELTA_SERIES:
            for n in ([0] if series == "const" else []) + counts:
                pts.append({"prim": "delta_shapes", "longval": longval, "series": series, "count": n})
    return pts


TIMEOUT = 40


def explore(run, tier):
    run.lattice("primitives", points(tier), "run")


def crash_sig(point, res):
    s = {"codec": point["prim"], "symptom": res["outcome"]}
    for k in ("width", "itemsize", "longval", "series"):
        if k in point:
            s[k] = point[k]
    s["width_or_series"] = point.get("width", point.get("series"))
    if point["prim"] == "delta_cap0":
        s["count"] = point["count"]
    return s


# ---------------------------------------------------------------------------
class Cell:
    def __init__(self, point):
        self.point = point
        self.calls = 0
        self.compared = 0
        self.sigs = {}
        self.detail = ""

    def bad(self, symptom, detail, **extra):
        s = {"codec": self.point["prim"], "symptom": symptom}
        for k in ("width", "itemsize", "longval", "series"):
            if k in self.point:
                s[k] = self.point[k]
        s.update(extra)
        key = repr(sorted(s.items()))
        if key not in self.sigs:
            self.sigs[key] = s
            if not self.detail:
                self.detail = detail

    def result(self):
        ok = not self.sigs
        return {"ok": ok, "outcome": "agree" if ok else "disagree",
                "nontrivial": self.compared > 0,
                "counts": {"calls": self.calls, "compared_values": self.compared},
                "sig": list(self.sigs.values()) or None, "detail": self.detail}


def _outbuf(np, nbytes):
    big = np.full(nbytes + 64, CANARY, dtype=np.uint8)
    return big, big[32:32 + nbytes]


def _canary_ok(big, nbytes):
    return bool((big[:32] == CANARY).all() and (big[32 + nbytes:] == CANARY).all())


def _inbuf(np, data):
    # exact-size heap allocation; one guard byte is NOT added on purpose
    a = np.empty(max(len(data), 1), dtype=np.uint8)
    if len(data):
        a[:len(data)] = np.frombuffer(bytes(data), dtype=np.uint8)
    return a


def run(point):
    import numpy as np
    from fastparquet import cencoding as ce
    c = Cell(point)
    globals()["run_" + point["prim"]](c, point, np, ce)
    return c.result()


def _check_out(c, np, big, out, itemsize, expect, tell, what, cap, scratch_ok=False, lead=0, **sigextra):
    """lead: bytes of the canary-framed area in front of `out` (output entered at an offset);
    sigextra: additional signature keys (only for input classes that did not exist before, e.g. count0)"""
    nb = len(out)
    cc = "lt" if cap < len(expect) else ("eq" if cap == len(expect) else "gt")
    if not _canary_ok(big, lead + nb):
        c.bad("canary_overwritten", "%s: bytes outside the output slice were written" % what, cap=cc, **sigextra)
    want_n = min(len(expect), cap)
    if tell != want_n * itemsize:
        c.bad("wrong_count", "%s: tell()=%d, expected %d values x %d" % (what, tell, want_n, itemsize), cap=cc,
              **sigextra)
    if itemsize == 4:
        got = out[:want_n * 4].view(np.uint32).tolist()
    elif itemsize == 8:
        got = out[:want_n * 8].view(np.uint64).tolist()
    else:
        got = out[:want_n].tolist()
    exp = expect[:want_n]
    c.compared += want_n
    if got != exp:
        i = [k for k in range(want_n) if got[k] != exp[k]][0]
        c.bad("wrong_value", "%s: value %d is %d, specification says %d" % (what, i, got[i], exp[i]), cap=cc,
              **sigextra)
    if not scratch_ok and out[want_n * itemsize:].tolist() != [CANARY] * (nb - want_n * itemsize):
        c.bad("wrote_past_count", "%s: output written beyond the decoded values" % what, cap=cc, **sigextra)


def run_varint(c, p, np, ce):
    from mc.specpq.thrift import uvarint
    vals = set()
    for k in range(0, 10):
        for d in (-1, 0, 1):
            v = (1 << (7 * k)) + d
            if 0 <= v < (1 << 64):
                vals.add(v)
    vals |= {0, 1, 127, 128, (1 << 63) - 1, 1 << 63, (1 << 64) - 1, (1 << 32) - 1, 1 << 32}
    for v in sorted(vals):
        enc = uvarint(v)
        buf = _inbuf(np, enc + b"\xff\xff")
        io = ce.NumpyIO(buf)
        got = ce.read_unsigned_var_int(io)
        c.calls += 1
        c.compared += 1
        if got != v or io.tell() != len(enc):
            c.bad("wrong_value", "read_unsigned_var_int(%s) = %d pos %d, expected %d pos %d" % (
                enc.hex(), got, io.tell(), v, len(enc)), fn="read_unsigned_var_int", length=len(enc))
        big, out = _outbuf(np, 12)
        o = ce.NumpyIO(out)
        ce.encode_unsigned_varint(v, o)
        c.calls += 1
        c.compared += 1
        if bytes(out[:o.tell()]) != enc or not _canary_ok(big, 12):
            c.bad("wrong_value", "encode_unsigned_varint(%d) = %s, expected %s" % (
                v, bytes(out[:o.tell()]).hex(), enc.hex()), fn="encode_unsigned_varint", length=len(enc))


def run_zigzag_thrift(c, p, np, ce):
    """zigzag through thrift integer fields (the only public route)."""
    from mc.specpq.thrift import codec
    tc = codec()
    vals = [0, 1, -1, 2, -2, 63, 64, -64, -65, (1 << 31) - 1, -(1 << 31), 1 << 31, (1 << 62), -(1 << 62),
            (1 << 63) - 1, -(1 << 63)]
    for v in vals:
        enc = tc.encode("Statistics", {"null_count": v})
        d = ce.from_buffer(_inbuf(np, enc), "Statistics")
        c.calls += 1
        c.compared += 1
        if d.null_count != v:
            c.bad("wrong_value", "zigzag decode of %d gives %r" % (v, d.null_count), fn="zigzag_decode")
        back = bytes(ce.ThriftObject.from_fields("Statistics", null_count=v).to_bytes())
        c.calls += 1
        c.compared += 1
        if back != enc:
            c.bad("wrong_value", "zigzag encode of %d gives %s, expected %s" % (v, back.hex(), enc.hex()),
                  fn="zigzag_encode")


def run_read_bitpacked(c, p, np, ce):
    from mc.specpq import codecs as C
    w, isz = p["width"], p["itemsize"]
    for groups in range(0, 6):
        n = groups * 8
        for pat in PATTERNS:
            vals = pattern(pat, n, w)
            data = C.bitpack(vals, w)
            for cap in sorted({0, 1, 7, 8, 9, n - 1, n, n + 1} & set(range(0, n + 2))) if n else [0, 1]:
                buf = _inbuf(np, data)
                fo = ce.NumpyIO(buf)
                big, out = _outbuf(np, cap * isz)
                o = ce.NumpyIO(out)   # cap 0: an empty slice inside the canary area (all-null pages do this)
                ce.read_bitpacked(fo, (groups << 1) | 1, w, o, isz)
                c.calls += 1
                _check_out(c, np, big, out, isz, vals, o.tell(), "read_bitpacked(groups=%d,pattern=%s,cap=%d)" % (
                    groups, pat, cap), cap)
                if n and w and fo.tell() != len(data):
                    c.bad("wrong_input_position", "read_bitpacked consumed %d bytes of a %d-byte run (groups=%d)" % (
                        fo.tell(), len(data), groups))


def run_read_rle(c, p, np, ce):
    w, isz = p["width"], p["itemsize"]
    m = (1 << w) - 1 if w else 0
    nb = (w + 7) // 8
    for count in (0, 1, 7, 8, 9, 1000):
        for v in sorted({0, 1 & m, m, m >> 1, (m >> 1) + 1 if w else 0}):
            data = v.to_bytes(nb, "little")
            for cap in sorted({0, 1, count - 1, count, count + 1, 3} & set(range(0, count + 2))):
                buf = _inbuf(np, data)
                fo = ce.NumpyIO(buf)
                big, out = _outbuf(np, cap * isz)
                o = ce.NumpyIO(out)
                ce.read_rle(fo, count << 1, w, o, isz)
                c.calls += 1
                _check_out(c, np, big, out, isz, [v] * count, o.tell(),
                           "read_rle(count=%d,value=%d,cap=%d)" % (count, v, cap), cap)
                if fo.tell() != nb:
                    c.bad("wrong_input_position", "read_rle consumed %d bytes, value has %d" % (fo.tell(), nb))


RUN_ALPHABET = [("rle", 1), ("rle", 9), ("bp", 8), ("bp", 16)]
# run headers of 2, 3 and 4 bytes inside a hybrid stream (the dominant real shape: one long RLE run);
# (program, capacities); None = the usual capacities around the total
LONG_PROGRAMS = [
    ([("rle", 1000)], None),
    ([("bp", 512)], None),
    ([("rle", 1000), ("bp", 8)], None),
    ([("bp", 512), ("rle", 20000)], None),
    ([("rle", 9), ("rle", 2100000)], (0, 9, 10, 1000)),
]
HYBRID_PRE = b"\x99\x81\xfe"          # bytes in front of the stream in the embedded layout
HYBRID_OUT_OFF = 2                    # items already present in the output in the embedded layout


def _hybrid_stream(prog, w):
    """-> (values, encoded bytes) of one run program; RLE values / bit-packed values from the fixed table"""
    from mc.specpq import codecs as C
    vals = []
    data = bytearray()
    for ri, (kind, n) in enumerate(prog):
        if kind == "rle":
            v = pattern("table", ri + 3, w)[ri + 2]
            vals += [v] * n
            data += C.rle_run(v, n, w)
        else:
            chunk = pattern("table", n + ri, w)[ri:]
            vals += chunk
            data += C.bp_run(chunk, w)
    return vals, bytes(data)


def _hybrid_calls(c, np, ce, w, isz, prog, vals, data, caps):
    import struct
    from mc.specpq import codecs as C
    total = len(vals)
    m = (1 << w) - 1 if w else 0
    # a run that must never be decoded: it lies behind the announced length
    decoy = C.rle_run((vals[-1] ^ m) if w else 0, 50, w)
    for cap in caps:
        for mode in ("length", "prefix"):
            stream = data if mode == "length" else struct.pack("<I", len(data)) + data
            length = len(data) if mode == "length" else 0
            for layout in ("bare", "embedded"):
                if layout == "bare":
                    # exact-size input (an over-read leaves the allocation), both cursors at 0
                    buf = _inbuf(np, stream)
                    fo = ce.NumpyIO(buf)
                    big, out = _outbuf(np, cap * isz)
                    o = ce.NumpyIO(out)
                    off = 0
                    end = len(stream)
                else:
                    # the situation inside a v1 page: bytes before and after the stream, output partly filled
                    buf = _inbuf(np, HYBRID_PRE + stream + decoy)
                    fo = ce.NumpyIO(buf)
                    fo.seek(len(HYBRID_PRE))
                    off = HYBRID_OUT_OFF * isz
                    big, full = _outbuf(np, off + cap * isz)
                    o = ce.NumpyIO(full)
                    o.seek(off)
                    out = full[off:]
                    end = len(HYBRID_PRE) + len(stream)
                ce.read_rle_bit_packed_hybrid(fo, w, length, o, isz)
                c.calls += 1
                what = "hybrid(prog=%s,cap=%d,%s,%s)" % (list(prog), cap, mode, layout)
                _check_out(c, np, big, out, isz, vals, o.tell() - off, what, cap, lead=off)
                if layout == "embedded":
                    if full[:off].tolist() != [CANARY] * off:
                        c.bad("canary_overwritten", "%s: bytes in front of the output cursor were written" % what,
                              layout=layout)
                # input position: a fully decoded stream leaves the cursor at its end (the page reader
                # continues from there); a truncated decode never passes the end
                pos = fo.tell()
                if (cap >= total and pos != end) or pos > end:
                    c.bad("wrong_input_position", "%s: input cursor at %d, stream ends at %d" % (what, pos, end),
                          cap="lt" if cap < total else ("eq" if cap == total else "gt"), layout=layout)


def run_hybrid(c, p, np, ce):
    w, isz = p["width"], p["itemsize"]
    for k in (1, 2, 3):
        for prog in itertools.product(RUN_ALPHABET, repeat=k):
            vals, data = _hybrid_stream(prog, w)
            total = len(vals)
            _hybrid_calls(c, np, ce, w, isz, prog, vals, data, sorted({0, 1, total - 1, total, total + 1, 8, 9}))
    for prog, caps in LONG_PROGRAMS:
        vals, data = _hybrid_stream(prog, w)
        total = len(vals)
        _hybrid_calls(c, np, ce, w, isz, prog, vals, data, caps or (0, 1, total - 1, total, total + 1))


def run_bool(c, p, np, ce):
    from mc.specpq import codecs as C
    from fastparquet import encoding as enc
    from fastparquet import writer, parquet_thrift
    import pandas as pd
    for n in list(range(0, 18)) + [63, 64, 65]:
        for pat in ("zeros", "ones", "alt", "table"):
            vals = pattern(pat, n, 1)
            data = C.bitpack(vals, 1)
            # read_bitpacked1 with every capacity
            for cap in sorted({0, 1, n - 1, n, n + 1, 8} & set(range(0, n + 2))):
                buf = _inbuf(np, data)
                fo = ce.NumpyIO(buf)
                big, out = _outbuf(np, cap)
                o = ce.NumpyIO(out)
                ce.read_bitpacked1(fo, n, o)
                c.calls += 1
                _check_out(c, np, big, out, 1, vals, o.tell(), "read_bitpacked1(n=%d,%s,cap=%d)" % (n, pat, cap), cap)
                if fo.tell() != (n + 7) // 8:
                    c.bad("wrong_input_position", "read_bitpacked1(n=%d,cap=%d) consumed %d bytes, %d values occupy %d"
                          % (n, cap, fo.tell(), n, (n + 7) // 8), fn="read_bitpacked1")
            # read_plain_boolean
            if n:
                got = enc.read_plain_boolean(bytes(data), n)
                c.calls += 1
                c.compared += n
                if got.tolist() != [bool(v) for v in vals]:
                    c.bad("wrong_value", "read_plain_boolean(n=%d,%s)" % (n, pat), fn="read_plain_boolean")
                if got.dtype != np.dtype(bool) or got.shape != (n,):
                    c.bad("wrong_type", "read_plain_boolean(n=%d) returns dtype %s shape %s, expected bool (%d,)" % (
                        n, got.dtype, got.shape, n), fn="read_plain_boolean")
            else:
                # an all-null page hands over zero bytes for zero values
                got = enc.read_plain_boolean(b"", 0)
                c.calls += 1
                if len(got) != 0:
                    c.bad("wrong_count", "read_plain_boolean(b'', 0) returns %d values" % len(got),
                          fn="read_plain_boolean")
            # writer bool packing: PLAIN-encoded booleans must decode to the input
            se = parquet_thrift.SchemaElement(type=parquet_thrift.Type.BOOLEAN)
            packed = writer.encode_plain(pd.Series([bool(v) for v in vals], dtype=bool), se)
            c.calls += 1
            try:
                back, _ = C.plain_decode(bytes(packed), 0, len(packed), n, "BOOLEAN")
            except C.CodecError as e:
                back = str(e)
            c.compared += n
            if back != [bool(v) for v in vals]:
                c.bad("wrong_value", "writer bool packing n=%d %s -> %r" % (n, pat, back), fn="writer_bool_pack")
            # length: the n bits, at most one spare byte (readers skip it), and every padding bit is zero
            need = (n + 7) // 8
            pad = int.from_bytes(bytes(packed), "little") >> n
            if not (need <= len(packed) <= need + 1) or pad:
                c.bad("wrong_length", "writer bool packing n=%d %s: %d bytes for %d bits, padding bits %#x" % (
                    n, pat, len(packed), n, pad), fn="writer_bool_pack")


def run_write_bitpacked1(c, p, np, ce):
    """encoder counterpart of read_bitpacked1 (one byte per input value -> PLAIN BOOLEAN bits, LSB first)"""
    from mc.specpq import codecs as C
    for n in list(range(0, 18)) + [63, 64, 65]:
        for pat in ("zeros", "ones", "alt", "table"):
            vals = pattern(pat, n, 1)
            spec = C.bitpack(vals, 1)
            buf = _inbuf(np, bytes(vals))
            fo = ce.NumpyIO(buf)
            nb = (n + 7) // 8
            big, out = _outbuf(np, nb + 2)
            o = ce.NumpyIO(out)
            ce.write_bitpacked1(fo, n, o)
            c.calls += 1
            c.compared += n
            what = "write_bitpacked1(n=%d,%s)" % (n, pat)
            if not _canary_ok(big, len(out)):
                c.bad("canary_overwritten", "%s wrote outside its buffer" % what)
            if o.tell() != nb:
                c.bad("wrong_count", "%s: %d bytes written for %d values" % (what, o.tell(), n))
            got = bytes(out[:nb])
            if got != spec:
                # the same bits, each byte filled from its most significant end?
                msb = bytes(sum(v << (len(vals[g:g + 8]) - 1 - j) for j, v in enumerate(vals[g:g + 8]))
                            for g in range(0, n, 8))
                c.bad("wrong_value", "%s = %s, PLAIN BOOLEAN packing is %s" % (what, got.hex(), spec.hex()),
                      order="msb_first" if got == msb else "other")
            if out[nb:].tolist() != [CANARY] * 2:
                c.bad("wrote_past_count", "%s: output written beyond the packed bytes" % what)
            if fo.tell() != n:
                c.bad("wrong_input_position", "%s: input cursor at %d after %d one-byte values" % (what, fo.tell(), n),
                      advance="x4" if fo.tell() == 4 * n else "other")


def run_encoders(c, p, np, ce):
    from mc.specpq import codecs as C
    w = p["width"]
    for n in list(range(0, 18)) + [24, 31, 32, 33]:
        for pat in PATTERNS:
            vals = pattern(pat, n, w)
            arr = np.array(vals, dtype=np.uint32).view(np.int32) if n else np.empty(0, dtype=np.int32)
            for fn, withlen in (("encode_bitpacked", None), ("encode_rle_bp", 0), ("encode_rle_bp", 1)):
                big, out = _outbuf(np, 16 + 4 * n + 8)
                o = ce.NumpyIO(out)
                if fn == "encode_bitpacked":
                    ce.encode_bitpacked(arr, w, o)
                else:
                    ce.encode_rle_bp(arr, w, o, withlen)
                c.calls += 1
                enc = bytes(out[:o.tell()])
                if not _canary_ok(big, len(out)):
                    c.bad("canary_overwritten", "%s wrote outside its buffer" % fn, fn=fn)
                try:
                    pos = 0
                    end = len(enc)
                    if withlen:
                        import struct
                        ln = struct.unpack_from("<I", enc, 0)[0]
                        if ln != len(enc) - 4:
                            c.bad("wrong_value", "%s length prefix %d != %d" % (fn, ln, len(enc) - 4), fn=fn)
                        pos = 4
                    if n == 0:
                        back = []
                    else:
                        back, e2 = C.hybrid_decode(enc, pos, end, n, w)
                        if e2 != end:
                            c.bad("wrong_value", "%s emitted %d trailing bytes" % (fn, end - e2), fn=fn,
                                  detail_kind="trailing")
                except (C.CodecError, Exception) as e:
                    back = "undecodable: %s" % e
                c.compared += n
                if back != vals:
                    c.bad("wrong_value", "%s(n=%d,%s): specification decoder reads %r..., input %r..." % (
                        fn, n, pat, back[:6] if isinstance(back, list) else back, vals[:6]), fn=fn)


def run_writer_encoders(c, p, np, ce):
    """encode_dict and make_definitions of writer.py against the spec decoder."""
    import struct
    import pandas as pd
    from mc.specpq import codecs as C
    from fastparquet import writer
    for dt, w in (("int8", 8), ("int16", 16), ("int32", 32)):
        for n in list(range(0, 18)) + [63, 64, 65, 127, 128, 129]:
            vals = [(i * 7) % 100 for i in range(n)]
            s = pd.Series(np.array(vals, dtype=dt))
            enc = writer.encode_dict(s, None)
            c.calls += 1
            if n == 0:
                continue
            try:
                if enc[0] != w:
                    raise C.CodecError("width byte %d != %d" % (enc[0], w))
                back, e2 = C.hybrid_decode(enc, 1, len(enc), n, w)
            except C.CodecError as e:
                back = str(e)
            c.compared += n
            if back != vals:
                c.bad("wrong_value", "encode_dict(%s,n=%d) decodes to %r" % (dt, n, back if isinstance(back, str) else back[:8]),
                      fn="encode_dict", dtype=dt)
    for ver in (1, 2):
        for n in list(range(1, 18)) + [63, 64, 65, 127, 128, 129, 1000]:
            for pat in ("none", "first", "last", "alt", "all"):
                isnull = [{"none": False, "first": i == 0, "last": i == n - 1, "alt": i % 2 == 1, "all": True}[pat]
                          for i in range(n)]
                s = pd.Series([None if z else float(i) for i, z in enumerate(isnull)], dtype="float64")
                nonulls = not any(isnull)
                block, out = writer.make_definitions(s, nonulls, datapage_version=ver)
                c.calls += 1
                try:
                    pos = 0
                    end = len(block)
                    if ver == 1:
                        ln = struct.unpack_from("<I", block, 0)[0]
                        if ln != len(block) - 4:
                            raise C.CodecError("length prefix %d != %d" % (ln, len(block) - 4))
                        pos = 4
                    back, e2 = C.hybrid_decode(block, pos, end, n, 1)
                    if e2 != end:
                        raise C.CodecError("%d trailing bytes in level block" % (end - e2))
                except C.CodecError as e:
                    back = str(e)
                c.compared += n
                exp = [0 if z else 1 for z in isnull]
                if back != exp:
                    c.bad("wrong_value", "make_definitions(v%d,n=%d,%s) -> %r" % (ver, n, pat, back if isinstance(back, str) else back[:10]),
                          fn="make_definitions", version=ver)
                if len(out) != n - sum(isnull):
                    c.bad("wrong_count", "make_definitions returned %d non-null values" % len(out), fn="make_definitions")


def run_byte_array(c, p, np, ce):
    from mc.specpq import codecs as C
    from fastparquet import speedups as sp
    lens = [0, 1, 255, 256, 70000]
    for k in range(0, 5):
        for combo in itertools.product(lens, repeat=k) if k <= 2 else [tuple(lens[(i + j) % 5] for j in range(k)) for i in range(5)]:
            for utf in (0, 1):
                items = []
                for i, ln in enumerate(combo):
                    if utf:
                        s = ("éx中"[i % 3] * ln)
                        items.append(s.encode("utf8"))
                    else:
                        items.append(bytes([(i * 37 + j) % 256 for j in range(min(ln, 300))]) * (ln // 300 + 1))
                        items[-1] = items[-1][:ln]
                spec = C.plain_encode(items, "BYTE_ARRAY")
                packed = sp.pack_byte_array(list(items))
                c.calls += 1
                c.compared += len(items)
                if bytes(packed) != spec:
                    c.bad("wrong_value", "pack_byte_array(%r lengths) differs from PLAIN BYTE_ARRAY" % (combo,), fn="pack_byte_array")
                for n in sorted({0, k - 1, k, k + 1} & set(range(0, k + 2))):
                    # zero items = zero bytes (empty dictionary page, all-null page): a truly empty buffer
                    raw = _inbuf(np, spec) if spec else np.empty(0, dtype=np.uint8)
                    got = sp.unpack_byte_array(raw, n, utf)
                    c.calls += 1
                    exp = [(b.decode("utf8") if utf else b) for b in items[:n]]
                    g = list(got[:min(n, k)])
                    c.compared += min(n, k)
                    if g != exp[:min(n, k)] or len(got) != n:
                        c.bad("wrong_value", "unpack_byte_array(lengths=%r,n=%d,utf=%d) -> %r" % (combo, n, utf, [type(x).__name__ for x in got]),
                              fn="unpack_byte_array")
                    if getattr(got, "dtype", None) != np.dtype(object) or getattr(got, "shape", None) != (n,):
                        c.bad("wrong_type", "unpack_byte_array(lengths=%r,n=%d) returns %s" % (
                            combo, n, type(got).__name__), fn="unpack_byte_array")
                    elif any(x is not None for x in got[min(n, k):]):
                        c.bad("wrong_value", "unpack_byte_array(lengths=%r,n=%d): slots beyond the %d encoded items "
                              "are not None" % (combo, n, k), fn="unpack_byte_array", slot="surplus")
    # bytes that are not UTF-8 inside a UTF8 column: the item is decoded leniently (invalid bytes dropped) and
    # - what matters for the codec - the items behind it are still found at the right offsets
    for bad_item in (b"\xff\xfeab", b"ab\xc3", b"\x80"):
        items = [b"x", bad_item, "é".encode("utf8"), b""]
        spec = C.plain_encode(items, "BYTE_ARRAY")
        try:
            got = list(sp.unpack_byte_array(_inbuf(np, spec), len(items), 1))
        except Exception as e:
            got = "%s: %s" % (type(e).__name__, e)
        c.calls += 1
        c.compared += len(items)
        if got != [b.decode("utf8", "ignore") for b in items]:
            c.bad("wrong_value", "unpack_byte_array(utf=1) with the invalid item %r -> %r" % (bad_item, got),
                  fn="unpack_byte_array", slot="invalid_utf8")
    # anything but exact bytes objects is refused, not packed from its raw memory
    for wrong in ("ab", bytearray(b"ab"), None, 5):
        try:
            r = sp.pack_byte_array([b"x", wrong])
        except TypeError:
            r = None
        c.calls += 1
        if r is not None:
            c.bad("wrong_value", "pack_byte_array accepts a %s item -> %r" % (type(wrong).__name__, bytes(r)[:20]),
                  fn="pack_byte_array", slot="non_bytes")


def _delta_values(width, count, longval, shape=0):
    """values whose first miniblock needs exactly `width` bits (others 0 or 3)"""
    bits = 64 if longval else 32
    mask = (1 << bits) - 1
    deltas = []
    for i in range(count - 1):
        mini = i // 32
        if mini == 0:
            if width == 0:
                d = 0
            else:
                d = ((1 << width) - 1) if i == 1 else ((TABLE[i] >> 3) & ((1 << width) - 1) if i % 3 else 0)
                if i == 0:
                    d = 0
        elif mini % 2:
            d = 0
        else:
            d = i % 8
        deltas.append(d)
    vals = [(-5 if shape == 0 else (1 << (bits - 2)))]
    for d in deltas:
        v = vals[-1] + d + (0 if shape == 0 else -3)
        v &= mask
        if v >> (bits - 1):
            v -= 1 << bits
        vals.append(v)
    return vals[:count]


def _delta_call(c, np, ce, vals, longval, cap, what, block=128, mini=4, force=None):
    from mc.specpq import codecs as C
    bits = 64 if longval else 32
    isz = 8 if longval else 4
    fw = (lambda b, m, w: max(w, force)) if force is not None else None
    enc = C.delta_encode(vals, bits, block, mini, fw)
    chk, _ = C.delta_decode(enc, 0, len(enc), bits)
    assert chk == vals, "specpq delta self-check"
    buf = _inbuf(np, enc)
    fo = ce.NumpyIO(buf)
    big, out = _outbuf(np, cap * isz)
    o = ce.NumpyIO(out)
    ce.delta_binary_unpack(fo, o, longval)
    c.calls += 1
    m = (1 << (8 * isz)) - 1
    # the delta decoder uses spare output capacity as scratch space: allowed
    extra = {} if vals else {"count": 0}
    _check_out(c, np, big, out, isz, [v & m for v in vals], o.tell(), what, cap, scratch_ok=True, **extra)


def run_delta(c, p, np, ce):
    w, lv = p["width"], p["longval"]
    block, mini = p.get("geom", (128, 4))
    for count in (p["count"],):
        for shape in (0, 1):
            vals = _delta_values(w, count, lv, shape)
            # capacity 0 has its own points (delta_cap0)
            for cap in sorted({count - 1, count, count + 1, 2 if not count else count} - {-1, 0}):
                _delta_call(c, np, ce, vals, lv, cap, "delta_binary_unpack(count=%d,shape=%d,cap=%d,block=%d/%d)" % (
                    count, shape, cap, block, mini), block, mini, force=w if count > 2 else None)


def run_delta_cap0(c, p, np, ce):
    """delta_binary_unpack into an output of capacity 0: nothing may be written, tell() stays 0.
    For counts 0 and 1 (modulo the block size) the stream holds no (further) block; the decoder (known
    finding: it reads a block header anyway) then takes the miniblock widths from the bytes that follow, so those are made explicit: a block header
    announcing `width` for every miniblock follows the stream."""
    from mc.specpq import codecs as C
    w, lv, count = p["width"], p["longval"], p["count"]
    bits, isz = (64, 8) if lv else (32, 4)
    for shape in (0, 1):
        # constant stride: every miniblock of the stream is announced with exactly `width` bits
        vals = [(-5, 1 << (bits - 2))[shape] + (3, -7)[shape] * i for i in range(count)]
        enc = C.delta_encode(vals, bits, 128, 4, lambda b, m, x: max(x, w))
        # counts 0 and 1 modulo the block size: no (further) block in the stream
        tail = b"\x00" + bytes([w]) * 4 + b"\x00" * (16 * max(w, 1)) if count % 128 < 2 else b""
        buf = _inbuf(np, enc + tail)
        fo = ce.NumpyIO(buf)
        big, out = _outbuf(np, 0)
        o = ce.NumpyIO(out)
        ce.delta_binary_unpack(fo, o, lv)
        c.calls += 1
        c.compared += 1
        _check_out(c, np, big, out, isz, [v & ((1 << bits) - 1) for v in vals], o.tell(),
                   "delta_binary_unpack(count=%d,shape=%d,cap=0)" % (count, shape), 0, scratch_ok=True)


def run_delta_shapes(c, p, np, ce):
    lv = p["longval"]
    bits = 64 if lv else 32
    lo, hi = -(1 << (bits - 1)), (1 << (bits - 1)) - 1
    series = {
        "const": lambda n: [7] * n,
        "ramp": lambda n: list(range(-3, n - 3)),
        "down": lambda n: [1000 - 17 * i for i in range(n)],
        "extremes": lambda n: [(lo, hi, 0, -1, 1, hi, lo)[i % 7] for i in range(n)],
        # 20-bit magnitudes: every miniblock needs < 29 bits
        "table": lambda n: [((TABLE[i % 4096] >> 5) & 0xFFFFF) - 0x80000 for i in range(n)],
    }
    # large strides with a tiny spread (hourly nanosecond timestamps): min_delta beyond 32 bits, miniblock width 2
    step = 1 << (40 if lv else 29)
    wrap = lambda v: ((v - lo) % (1 << bits)) + lo
    multi = {
        "bigstep": [lambda n: [wrap(7 - i * step + i % 3) for i in range(n)],
                    lambda n: [wrap(-7 + i * step + i % 3) for i in range(n)]],
        # first value at the bounds of the type, small deltas afterwards
        "edgefirst": [lambda n: [lo + (i * i) % 11 + 2 * i for i in range(n)],
                      lambda n: [hi - (i * i) % 11 - 2 * i for i in range(n)],
                      lambda n: [lo + 1 + 3 * i for i in range(n)],
                      lambda n: [hi - 1 - 3 * i for i in range(n)]],
    }
    if p["series"] in multi:
        for k, f in enumerate(multi[p["series"]]):
            for block, mini in DELTA_GEOMS:
                _delta_call(c, np, ce, f(p["count"]), lv, p["count"], "delta(%s#%d,n=%d,block=%d/%d)" % (
                    p["series"], k, p["count"], block, mini), block, mini)
        return
    counts = [p["count"]]
    for name, f in series.items():
        if name != p["series"]:
            continue
        for n in counts:
            for block, mini in DELTA_GEOMS:
                for cap in ((1, 2) if n == 0 else (n,)):
                    _delta_call(c, np, ce, f(n), lv, cap, "delta(%s,n=%d,block=%d/%d,cap=%d)" % (
                        name, n, block, mini, cap), block, mini)

LEVEL_TEXT = ("Every primitive codec of the compiled extension is executed on the complete product of its "
              "bounded domain (widths 0..32 / 0..64, counts 0 and around 8/32/128, 6 value patterns, output "
              "capacities 0/count-1/count/count+1 and more, item sizes 1 and 4, all varint lengths, hybrid streams "
              "at offsets inside a larger buffer and with long runs, six delta block geometries, deltas beyond "
              "32 bits) and compared value by value - and, where the page reader depends on it, by final input "
              "position - with a big-integer specification model; canary bytes detect writes outside the "
              "output. Exhaustive over that finite lattice, which is exactly the property's quantifier.")
LEVEL_NOTE = ("Trusted: specpq codecs (written from the spec, self-checked), numpy, CPython. Verifies the C "
              "generated from the .pyx as present in the working tree (no Cython in the sandbox).")
TECHNIQUE = "bounded exhaustive enumeration of the primitive-codec lattice on the real compiled code vs a spec model"
