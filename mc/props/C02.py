"""C02 - written files are valid Parquet that an independent reader decodes identically."""
import itertools

ID = "C02"
LEVEL = "exploration"
FLAVOUR = "plain"
TIMEOUT = 600
RULE = ("V1 = the S1 lattice of C01 (kind incl. C01's local kinds x compression x page layout [cell] x null pattern x n "
        "(quick: 0,1,2,8,9 and 63,64,65 in the uncompressed cells) x has_nulls x stats) plus the codec spellings "
        "'UNCOMPRESSED' / 'snappy' (thorough: + 'uncompressed', 'Snappy') for three kinds; V2 = multi-file datasets "
        "(pairs of core kinds x row_group_offsets x simple/hive/drill x page version x codec, and for simple/hive "
        "also has_nulls lists ['a'] / ['b'] and tiny pages; every part file, _metadata and _common_metadata); VP = "
        "partitioned datasets (data kind x partition-key kind (int64, text, categorical, bool) x page version x codec "
        "[cell] x row_group_offsets x hive/drill x one / two partition columns; every part file of every directory); "
        "VB = framing boundaries (9 kinds x n in 504, 505, 2040, 8192 (thorough: + 503, 511, 512, 2031, 2032, 8191, "
        "8193, 16384 and a 40000-label categorical) [cell] x null pattern none/alt/last x page version x one page / "
        "pages of n//5 rows); VO = option sub-lattices of C01 (times int64/int96 x datetime kind x has_nulls x page "
        "layout, object_encoding str (x null pattern incl. all x page version) and per-column dict, fixed_text x page "
        "layout x codec, per-column compression dicts incl. a column named with None next to '_default' and lower-case "
        "names x page layout; appended files: column order {schema, rotated, two swapped} x {simple, hive} x {write(append=True), kept handle, iterable of frames} x page version); VI = written indexes and column names (C01's 11 index kinds x column kind x n in 0,1,9 "
        "x row_group_offsets x simple/hive x page version; C01's 15-column frame with dotted / blank / non-ASCII "
        "names x row_group_offsets x simple/hive x has_nulls all / partial list x no codec / per-column codec dict x "
        "page layout; a four-column frame with two-level column names incl. a categorical x row_group_offsets x "
        "simple/hive x page version). "
        "Every written file is parsed by specpq's strict validator (IDL field ids / wire types / required fields, "
        "offsets, sizes, counts, encodings, codec, page tiling, level framing) and decoded by specpq's reader; the "
        "decoded rows are compared with the input incl. NULL vs NaN; every leaf's physical type, converted type, "
        "logical type (unit, isAdjustedToUTC), repetition and every chunk's codec are compared with what the column "
        "kind and the options demand; framing slack is bounded (see ASSUMPTIONS); _metadata is cross-checked against "
        "every part footer (column metadata, schema, total_byte_size, file_offset, one file per row group, no "
        "unreferenced part file); non-trivial = a file with >= 1 data page validated and compared")
ASSUMPTIONS = ["specpq is the independent reader (written from the specification, bound to third-party files)",
               "cramjam trusted for decompression",
               "tolerated, counted deviations: zero padding after the last value of a page (at most 9 bytes in a v1 "
               "page, 1 byte in a v2 page), a last bit-packed group cut after the last needed value, at most one "
               "surplus bit-packed group, empty list written with element type 0, LZ4 raw block under the deprecated "
               "LZ4 codec id; judged: any RLE run longer than the page, bytes between levels and values, bytes after "
               "the last dictionary entry, more slack than listed",
               "expected annotations: text UTF8, JSON objects JSON, raw bytes none, (u)int8/16/32 and uint64 their "
               "(U)INT_n on INT32/INT64, timedelta TIME_MICROS on INT64, datetimes INT64 with TIMESTAMP_* and/or a "
               "TIMESTAMP logical type that agree in unit and whose isAdjustedToUTC equals tz-awareness (int96: "
               "plain INT96); a converted type only on the physical types the format allows for it"]

SPELL_KINDS = ["int64", "str_obj", "cat_str"]
PAIR_KINDS = ["int64", "float64", "str_obj", "cat_str", "Int64", "dt_ns", "bool"]
PART_KEYS = ["int64", "str_obj", "cat_str", "bool"]
BIG_KINDS = ["bool", "int64", "float64", "str_obj", "cat_str", "cat_wide", "Int64", "boolean", "dt_ns"]
BIG_N_Q = [504, 505, 2040, 8192]
BIG_N_T = [503, 504, 505, 511, 512, 2031, 2032, 2040, 8191, 8192, 8193, 16384]
DT_KINDS = ["dt_s", "dt_ms", "dt_us", "dt_ns", "dt_ns_utc", "dt_us_paris", "dt_ns_x", "dt_ns_m0330", "dt_us_ny"]
INDEX_COL_KIND = {"int_unnamed": "int64", "uint64": "uint64", "float64": "float64", "Int64": "Int64", "dt_s": "dt_s",
                  "dt_us_tz": "dt_us_ny", "td_us": "td_us", "cat": "cat_str"}


def points(tier):
    from mc.props import C01
    thorough = tier == "thorough"
    pts = [dict(p, s="V1") for p in C01.points(tier) if p["s"] == "S1"]
    for kind in SPELL_KINDS:
        for comp in (["UNCOMPRESSED", "snappy", "uncompressed", "Snappy"] if thorough else ["UNCOMPRESSED", "snappy"]):
            for (ver, tiny) in C01.LAYOUTS:
                pts.append({"s": "V1", "kind": kind, "comp": comp, "v": ver, "tiny": tiny, "tier": tier})
    kinds2 = PAIR_KINDS
    for k1, k2 in itertools.product(kinds2, repeat=2):
        if not thorough and (kinds2.index(k1) + kinds2.index(k2)) % 3:
            continue
        for ver in (1, 2):
            for comp in (None, "SNAPPY"):
                pts.append({"s": "V2", "k1": k1, "k2": k2, "v": ver, "comp": comp, "tier": tier})
    for k1 in kinds2:
        for pk in PART_KEYS:
            for ver in (1, 2):
                for comp in ((None, "SNAPPY") if thorough else ("SNAPPY" if ver == 2 else None,)):
                    pts.append({"s": "VP", "k1": k1, "pk": pk, "v": ver, "comp": comp, "tier": tier})
    for kind in BIG_KINDS + (["cat_wide32"] if thorough else []):
        for n in (BIG_N_T if thorough else BIG_N_Q):
            pts.append({"s": "VB", "kind": kind, "n": n, "tier": tier})
    for kind in DT_KINDS:
        for times in ("int64", "int96"):
            pts.append({"s": "VO", "opt": "times", "kind": kind, "times": times, "tier": tier})
    for enc in ("infer", "utf8", "bytes", "json", "bool", "int", "int32", "float"):
        pts.append({"s": "VO", "opt": "object_encoding", "enc": enc, "tier": tier})
    for opt in ("object_encoding_dict", "fixed_text", "compdict", "append_permuted"):
        pts.append({"s": "VO", "opt": opt, "tier": tier})
    for ik in C01.INDEX_KINDS:
        for ck in (["int64", "str_obj", "cat_str", "Int64"] if thorough else ["int64", "str_obj"]):
            pts.append({"s": "VI", "opt": "index", "ik": ik, "kind": ck, "tier": tier})
    for ver in (1, 2):
        for tiny in (False, True):
            pts.append({"s": "VI", "opt": "wide", "v": ver, "tiny": tiny, "tier": tier})
        pts.append({"s": "VI", "opt": "multicol", "v": ver, "tier": tier})
    return pts


SIG_KEYS = ("kind", "comp", "v", "tiny", "k1", "k2", "pk", "opt", "ik", "n", "times", "enc")


def explore(run, tier):
    run.lattice("validity", points(tier), "run")


def crash_sig(point, res):
    s = {"s": point["s"], "symptom": res["outcome"]}
    for k in SIG_KEYS:
        if k in point:
            s[k] = point[k]
    return s


class Cell:
    def __init__(self, point):
        self.point = point
        self.files = 0
        self.refused = 0
        self.sigs = {}
        self.detail = ""
        self.ctx = {}
        self.dev = {}

    def bad(self, symptom, detail, **extra):
        s = {"s": self.point["s"], "symptom": symptom}
        for k in SIG_KEYS:
            if k in self.point:
                s[k] = self.point[k]
        s.update(self.ctx)
        s.update(extra)
        key = repr(sorted(s.items(), key=str))
        if key not in self.sigs:
            self.sigs[key] = s
            if not self.detail:
                self.detail = detail

    def result(self):
        ok = not self.sigs
        counts = {"files": self.files, "refused": self.refused}
        for k, v in self.dev.items():
            counts["tolerated_" + k] = v
        return {"ok": ok, "outcome": "valid" if ok else "invalid", "nontrivial": self.files > 0,
                "counts": counts, "sig": list(self.sigs.values()) or None, "detail": self.detail}


def _errclass(msg):
    """stable class of a validator message (numbers removed)"""
    import re
    m = re.sub(r"rg \d+ col [\w\.]+: ", "", msg)
    m = re.sub(r"-?\d+", "N", m)
    return m[:70]


INT64_MIN = -2 ** 63


def expected_rows(series, kind, leaf, optional):
    """spec-level logical rows the file must decode to"""
    import pandas as pd
    from mc import oracles as O
    cells = O.series_to_list(series)
    out = []
    for c in cells:
        if c is None:
            if optional:
                out.append(None)
            elif kind.startswith(("float", "o_float")):
                out.append("NaN")
            elif kind.startswith(("dt_", "td_")):
                out.append(("sentinel", INT64_MIN))
            elif kind == "json_obj":
                out.append(None)          # stored as the JSON value null
            else:
                out.append("cannot-be-missing")
            continue
        if kind.startswith("fixed"):
            # FIXED_LEN_BYTE_ARRAY: the UTF-8 bytes cut / NUL-padded to the declared length
            w = int(kind[5:])
            c = c.encode("utf8")[:w].ljust(w, b"\0").decode("utf8")
        out.append(c)
    return out


def decoded_rows(p, name, kind):
    """specpq rows -> the same canonical space as expected_rows"""
    import json
    import struct
    from mc.specpq import file as F
    node = [c for c in p.root.children if c.name == name][0]
    rows = F.column_rows(p, name)
    ct, lt = node.ct, node.lt or {}
    out = []
    unit_ns = None
    if node.type == F.T_INT64:
        if ct == F.CT["TIMESTAMP_MILLIS"]:
            unit_ns = 10 ** 6
        elif ct == F.CT["TIMESTAMP_MICROS"]:
            unit_ns = 10 ** 3
        elif "TIMESTAMP" in lt:
            u = lt["TIMESTAMP"]["unit"]
            unit_ns = 10 ** 6 if "MILLIS" in u else (10 ** 3 if "MICROS" in u else 1)
    for v in rows:
        if v is None:
            out.append(None)
            continue
        v = F.logical(v, node)
        if kind.startswith("dt_") and node.type == F.T_INT96:
            ns, day = struct.unpack("<qi", v)
            t = ns + (day - 2440588) * 86400 * 10 ** 9
            # NaT of a REQUIRED int96 column: the day / nanosecond split of the int64 sentinel
            out.append(("sentinel", INT64_MIN) if t == INT64_MIN else ("ts", t))
        elif kind.startswith("dt_"):
            if v == INT64_MIN:
                out.append(("sentinel", INT64_MIN))
            else:
                out.append(("ts", v * (unit_ns or 1)))
        elif kind.startswith("td_"):
            if v == INT64_MIN:
                out.append(("sentinel", INT64_MIN))
            else:
                out.append(("td", v * 1000))
        elif kind == "json_obj":
            try:
                out.append(json.loads(v) if isinstance(v, str) else json.loads(v.decode()))
            except ValueError:
                out.append(("unparseable", v))
        elif isinstance(v, float) and v != v:
            out.append("NaN")
        else:
            out.append(v)
    return out


# ------------------------------------------------------------------------- schema annotations
# converted type -> physical types the format allows it on (parquet-format LogicalTypes.md)
_CT_PHYS = {"UTF8": ("BYTE_ARRAY",), "ENUM": ("BYTE_ARRAY",), "JSON": ("BYTE_ARRAY",), "BSON": ("BYTE_ARRAY",),
            "DATE": ("INT32",), "TIME_MILLIS": ("INT32",), "TIME_MICROS": ("INT64",),
            "TIMESTAMP_MILLIS": ("INT64",), "TIMESTAMP_MICROS": ("INT64",),
            "UINT_8": ("INT32",), "UINT_16": ("INT32",), "UINT_32": ("INT32",), "UINT_64": ("INT64",),
            "INT_8": ("INT32",), "INT_16": ("INT32",), "INT_32": ("INT32",), "INT_64": ("INT64",),
            "DECIMAL": ("INT32", "INT64", "BYTE_ARRAY", "FIXED_LEN_BYTE_ARRAY"), "INTERVAL": ("FIXED_LEN_BYTE_ARRAY",)}
_TZ_KINDS = ("dt_ns_utc", "dt_us_paris", "dt_ns_offset", "dt_ns_m0330", "dt_us_ny")


def expected_leaf(kind, times="int64"):
    """(physical type name, allowed converted type names) the column kind demands; None = not judged"""
    k = kind.lower() if kind[:3] in ("Int", "UIn") else kind
    if k in ("bool", "boolean", "cat_bool", "o_bool"):
        return "BOOLEAN", (None,)
    for bits in ("8", "16", "32", "64"):
        phys = "INT64" if bits == "64" else "INT32"
        if k == "int" + bits:
            return phys, ("INT_" + bits,) if bits in ("8", "16") else (None, "INT_" + bits)
        if k == "uint" + bits:
            return phys, ("UINT_" + bits,)
    if k in ("cat_int", "o_int"):
        return "INT64", (None, "INT_64")
    if k == "o_int32":
        return "INT32", (None, "INT_32")
    if k == "float32":
        return "FLOAT", (None,)
    if k in ("float64", "o_float"):
        return "DOUBLE", (None,)
    if k in ("str_obj", "str_pd") or (k.startswith("cat_") and k != "cat_int"):
        return "BYTE_ARRAY", ("UTF8",)
    if k == "bytes_obj":
        return "BYTE_ARRAY", (None,)
    if k == "json_obj":
        return "BYTE_ARRAY", ("JSON",)
    if k.startswith("fixed"):
        return "FIXED_LEN_BYTE_ARRAY", ("UTF8",)
    if k.startswith("td_"):
        return "INT64", ("TIME_MICROS",)
    if k.startswith("dt_"):
        if times == "int96":
            return "INT96", (None,)
        return "INT64", (None, "TIMESTAMP_MILLIS", "TIMESTAMP_MICROS")
    return None


def check_leaf(c, what, node, kind, times="int64", has_values=True):
    """physical type / converted type / logical type of one flat column against its kind and the format's rules.
    has_values=False: an object column without a single value - nothing tells text from bytes from JSON"""
    from mc.specpq import file as F
    from mc.specpq import codecs as C
    col = node.name
    phys = C.PHYS_NAME.get(node.type, node.type)
    ctn = F.CT_NAME.get(node.ct, node.ct) if node.ct is not None else None
    lt = node.lt or {}
    if ctn is not None and phys not in _CT_PHYS.get(ctn, (phys,)):
        c.bad("schema_annotation", "%s: column %s: converted type %s on physical type %s" % (what, col, ctn, phys),
              colkind=kind, part="ct_on_type")
    exp = expected_leaf(kind, times)
    if exp is None:
        return
    if phys != exp[0]:
        c.bad("schema_annotation", "%s: column %s (%s) has physical type %s, expected %s" % (what, col, kind, phys, exp[0]),
              colkind=kind, part="physical")
        return
    if not has_values and kind in ("str_obj", "bytes_obj", "json_obj"):
        exp = (exp[0], (None, "UTF8", "JSON"))
    if ctn not in exp[1]:
        c.bad("schema_annotation", "%s: column %s (%s) has converted type %s, expected one of %r" % (
            what, col, kind, ctn, exp[1]), colkind=kind, part="converted")
    if kind.startswith("fixed") and node.type_length != int(kind[5:]):
        c.bad("schema_annotation", "%s: column %s type_length %r" % (what, col, node.type_length), colkind=kind,
              part="type_length")
    if kind.startswith("dt_") and times != "int96":
        ts = lt.get("TIMESTAMP")
        if ctn is None and ts is None:
            c.bad("schema_annotation", "%s: datetime column %s carries neither TIMESTAMP_* nor a TIMESTAMP logical type"
                  % (what, col), colkind=kind, part="timestamp_missing")
        if ts is not None:
            lu = [u for u in ("MILLIS", "MICROS", "NANOS") if u in (ts.get("unit") or {})]
            cu = {"TIMESTAMP_MILLIS": "MILLIS", "TIMESTAMP_MICROS": "MICROS"}.get(ctn)
            if len(lu) != 1 or (cu is not None and lu[0] != cu):
                c.bad("schema_annotation", "%s: column %s: logical TIMESTAMP unit %r, converted type %s" % (
                    what, col, lu, ctn), colkind=kind, part="timestamp_unit")
            aware = kind in _TZ_KINDS
            if bool(ts.get("isAdjustedToUTC")) != aware:
                c.bad("schema_annotation", "%s: column %s (%s): isAdjustedToUTC=%r for %s input" % (
                    what, col, kind, ts.get("isAdjustedToUTC"), "tz-aware" if aware else "naive"), colkind=kind,
                    part="isAdjustedToUTC")
    elif kind.startswith("td_"):
        tm = lt.get("TIME")
        if tm is not None and "MICROS" not in (tm.get("unit") or {}):
            c.bad("schema_annotation", "%s: column %s: logical TIME unit %r next to TIME_MICROS" % (what, col, tm.get("unit")),
                  colkind=kind, part="time_unit")
    elif lt and ("TIMESTAMP" in lt or "TIME" in lt):
        c.bad("schema_annotation", "%s: column %s (%s) carries a time logical type %r" % (what, col, kind, sorted(lt)),
              colkind=kind, part="logical")


# ------------------------------------------------------------------------- framing slack
JUDGED_DEVIATIONS = ("surplus_rle", "level_trailing_bytes", "dict_page_trailing_bytes")


def check_slack(c, what, p):
    """deviations that stay tolerated are bounded; the others are violations"""
    from mc.specpq import file as F
    dev = p.deviations
    for k in JUDGED_DEVIATIONS:
        if dev.get(k):
            c.bad("framing_slack", "%s: %d x %s" % (what, dev[k], k), dev=k)
    v2_only = True
    for rg in p.row_groups:
        for ch in rg.values():
            if any(pg["type"] == F.P_DATA for pg in ch.pages):
                v2_only = False
    limit = 1 if v2_only else 9
    if dev.get("page_trailing_bytes_max", 0) > limit:
        c.bad("framing_slack", "%s: %d bytes after the last value of a page (at most %d are padding)" % (
            what, dev["page_trailing_bytes_max"], limit), dev="page_trailing_bytes")
    if dev.get("excess_groups_max", 0) > 1:
        c.bad("framing_slack", "%s: a bit-packed run declares %d groups more than its values need" % (
            what, dev["excess_groups_max"]), dev="excess_groups")


def codec_name(comp):
    """codec the option value asks for"""
    if isinstance(comp, dict):
        comp = comp.get("type")
    return (comp or "UNCOMPRESSED").upper()


def validate_file(c, path, what, df=None, kinds=None, optional=None, codecs=None, times="int64"):
    """strict validation + decode of one file; compare with df when given.
    optional: {col: bool} expected repetition (None: not judged); codecs: {col: codec name} expected codec"""
    from mc.specpq import file as F
    from mc import oracles as O
    data = open(path, "rb").read()
    try:
        p = F.read_file(data)
    except F.FormatError as e:
        c.bad("not_parquet", "%s: %s" % (what, e), err=_errclass(str(e)))
        return None
    except Exception as e:
        c.bad("validator_raised", "%s: %s: %s" % (what, type(e).__name__, e), err=type(e).__name__)
        return None
    for k, v in p.deviations.items():
        if not k.endswith("_max"):
            c.dev[k] = c.dev.get(k, 0) + v
    for e in p.errors:
        c.bad("metadata_mismatch", "%s: %s" % (what, e), err=_errclass(e))
    check_slack(c, what, p)
    c.files += 1
    if df is None:
        return p
    names = [n.name for n in p.root.children]
    if names != [str(x) for x in df.columns]:
        c.bad("schema_columns", "%s: schema columns %r, frame %r" % (what, names, list(df.columns)))
        return p
    if p.fmd["num_rows"] != len(df):
        c.bad("row_count", "%s: num_rows %d, frame %d" % (what, p.fmd["num_rows"], len(df)))
        return p
    for col in df.columns:
        kind = kinds[col]
        name = str(col)
        node = [n for n in p.root.children if n.name == name][0]
        is_opt = node.rep == F.OPTIONAL
        if node.children:
            c.bad("schema_annotation", "%s: column %s is not a flat leaf" % (what, name), colkind=kind, part="nested")
            continue
        if node.rep not in (F.OPTIONAL, F.REQUIRED):
            c.bad("schema_annotation", "%s: column %s repetition %r" % (what, name, node.rep), colkind=kind, part="repetition")
        elif optional is not None and optional.get(col) is not None and bool(optional[col]) != is_opt:
            c.bad("schema_annotation", "%s: column %s is %s, the has_nulls option asks for %s" % (
                what, name, "OPTIONAL" if is_opt else "REQUIRED", "OPTIONAL" if optional[col] else "REQUIRED"),
                colkind=kind, part="repetition")
        check_leaf(c, what, node, kind, times, bool(df[col].notna().any()))
        if codecs is not None and codecs.get(col) is not None:
            for gi, rg in enumerate(p.row_groups):
                ch = rg.get((name,))
                got = F.CODECS.get(ch.md["codec"], ch.md["codec"]) if ch is not None else None
                if ch is not None and got != codecs[col]:
                    c.bad("wrong_codec", "%s: column %s row group %d uses codec %s, option asks for %s" % (
                        what, name, gi, got, codecs[col]), colkind=kind)
                    break
        try:
            got = decoded_rows(p, name, kind)
        except Exception as e:
            c.bad("decode_failed", "%s: column %s: %s: %s" % (what, name, type(e).__name__, e))
            continue
        exp = expected_rows(df[col], kind, node, is_opt)
        i = O.first_diff(got, exp)
        if i is not None:
            c.bad("decodes_differently", "%s: column %s row %s: independent reader sees %r, written %r" % (
                what, name, i, got[i] if i >= 0 else len(got), exp[i] if i >= 0 else len(exp)), colkind=kind)
    return p


def validate_dataset(c, path, what, parts, kinds, optional=None, codecs=None, partition=None):
    """_metadata, _common_metadata and every part file of a directory dataset.
    parts: list of expected frames, one per row group in _metadata order, or a frame to be cut by the row groups'
    num_rows.  partition: (column names, 'hive'|'drill') when the directory tree encodes partition keys."""
    import os
    import pandas as pd
    from mc import wr
    from mc.specpq import file as F
    try:
        pm = F.read_footer(open(os.path.join(path, "_metadata"), "rb").read())
        pc = F.read_footer(open(os.path.join(path, "_common_metadata"), "rb").read())
    except Exception as e:
        c.bad("not_parquet", "%s: summary file: %s" % (what, e), file="_metadata")
        return
    c.files += 2
    if pc.fmd["schema"] != pm.fmd["schema"]:
        c.bad("metadata_mismatch", "%s: _common_metadata schema differs from _metadata" % what, file="_common_metadata")
    if pc.fmd["row_groups"]:
        c.bad("metadata_mismatch", "%s: _common_metadata lists row groups" % what, file="_common_metadata")
    whole = parts if isinstance(parts, pd.DataFrame) else None
    if whole is None and len(parts) != len(pm.fmd["row_groups"]):
        c.bad("row_count", "%s: _metadata lists %d row groups, the data splits into %d" % (
            what, len(pm.fmd["row_groups"]), len(parts)), file="_metadata")
        return
    start = 0
    total = 0
    referenced = []
    for gi, rg in enumerate(pm.fmd["row_groups"]):
        fps = {cc.get("file_path") for cc in rg["columns"]}
        fp = rg["columns"][0].get("file_path")
        if len(fps) != 1:
            c.bad("metadata_mismatch", "%s: the chunks of row group %d name %d different files" % (what, gi, len(fps)),
                  file="_metadata", fields="file_path")
        if not fp or not os.path.exists(os.path.join(path, fp)):
            c.bad("dangling_file_path", "%s: row group %d references %r" % (what, gi, fp))
            continue
        referenced.append(os.path.normpath(fp))
        if partition is not None:
            comps = fp.split("/")
            names, scheme = partition
            ok = len(comps) == len(names) + 1
            if ok and scheme == "hive":
                ok = all(cp.startswith(nm + "=") and len(cp) > len(nm) + 1 for cp, nm in zip(comps, names))
            elif ok:
                ok = all(cp and "=" not in cp for cp in comps[:-1])
            if not ok:
                c.bad("dangling_file_path", "%s: row group %d path %r is not a %s path over %r" % (what, gi, fp, scheme, names))
        nr = rg["num_rows"]
        if whole is not None:
            part = whole.iloc[start:start + nr].reset_index(drop=True)
        else:
            part = parts[gi].reset_index(drop=True)
        pp = validate_file(c, os.path.join(path, fp), what + " part " + fp, part, kinds, optional, codecs)
        if pp is not None:
            own = pp.fmd["row_groups"]
            if len(own) != 1 or own[0]["num_rows"] != nr:
                c.bad("metadata_mismatch", "%s: %s holds %s rows, _metadata says %d" % (
                    what, fp, [g["num_rows"] for g in own], nr), file="_metadata")
            else:
                for cm, co in zip(rg["columns"], own[0]["columns"]):
                    a, b = dict(cm["meta_data"]), dict(co["meta_data"])
                    if a != b:
                        diff = [k for k in set(a) | set(b) if a.get(k) != b.get(k)]
                        c.bad("metadata_mismatch", "%s: column metadata of %s in _metadata differs from the file's own footer in %s" % (
                            what, fp, sorted(diff)), file="_metadata", fields=",".join(sorted(diff)))
                    if cm.get("file_offset") != co.get("file_offset"):
                        c.bad("metadata_mismatch", "%s: file_offset of a chunk of %s is %r in _metadata, %r in the file" % (
                            what, fp, cm.get("file_offset"), co.get("file_offset")), file="_metadata", fields="file_offset")
                if rg.get("total_byte_size") != own[0].get("total_byte_size"):
                    c.bad("metadata_mismatch", "%s: total_byte_size of %s is %r in _metadata, %r in the file" % (
                        what, fp, rg.get("total_byte_size"), own[0].get("total_byte_size")), file="_metadata",
                        fields="total_byte_size")
            if pp.fmd["schema"] != pm.fmd["schema"]:
                c.bad("metadata_mismatch", "%s: schema of %s differs from the schema in _metadata" % (what, fp),
                      file="_metadata", fields="schema")
        start += nr
        total += nr
    want = len(whole) if whole is not None else sum(len(x) for x in parts)
    if pm.fmd["num_rows"] != total or total != want:
        c.bad("row_count", "%s: _metadata num_rows %d, row groups %d, frame %d" % (what, pm.fmd["num_rows"], total, want))
    on_disk = sorted(os.path.normpath(os.path.relpath(f, path)) for f in wr.listing(path)
                     if not os.path.basename(f).startswith("_"))
    if on_disk != sorted(referenced):
        c.bad("metadata_mismatch", "%s: files in the directory %r, referenced by _metadata %r" % (
            what, on_disk[:6], sorted(referenced)[:6]), file="_metadata", fields="unreferenced")


def optional_for(df, hn):
    """repetition the has_nulls option value asks for, per column"""
    if hn is True or hn is False:
        return {col: hn for col in df.columns}
    if hn == "infer":
        return {col: df[col].dtype == "O" for col in df.columns}
    return {col: col in hn for col in df.columns}


def run(point):
    c = Cell(point)
    globals()["run_" + point["s"]](c, point)
    return c.result()


def run_V1(c, p):
    import os
    import fastparquet
    from mc import alphabets as A, wr
    from mc.props import C01
    from mc.scratch import scratch
    kind, comp, ver, tiny = p["kind"], p["comp"], p["v"], p["tiny"]
    ns = [n for n in (A.N_THOROUGH if p["tier"] == "thorough" else A.N_QUICK)]
    if p["tier"] != "thorough" and comp is None:
        ns = ns + [63, 64, 65]     # level / bit-pack framing does not depend on the codec: uncompressed cells only
    hn_list = [True, False, "infer", ["c"]] if p["tier"] == "thorough" else [True, False, "infer"]
    stats_list = [True, False, "auto"] if p["tier"] == "thorough" else [True]
    for pat in C01.patterns_for(kind):
        for n in ns:
            if pat != "none" and n == 0:
                continue
            df = C01.mk_series(kind, n, pat).to_frame()
            ps = wr.tiny_page_size(df, max(1, n // 3)) if tiny and n else None
            for hn in hn_list:
                for st in stats_list:
                    c.ctx = {"nulls": pat, "has_nulls": str(hn)}
                    d = scratch()
                    path = os.path.join(d, "t.parquet")
                    try:
                        with wr.PageCfg(ver, ps):
                            fastparquet.write(path, df, compression=comp, has_nulls=hn, stats=st)
                    except Exception:
                        c.refused += 1
                        continue
                    validate_file(c, path, "V1 %s n=%d nulls=%s has_nulls=%s stats=%s" % (kind, n, pat, hn, st),
                                  df, {"c": kind}, optional_for(df, hn), {"c": codec_name(comp)})


def run_V2(c, p):
    import os
    import pandas as pd
    import fastparquet
    from mc import alphabets as A, wr
    from mc.scratch import scratch
    k1, k2, ver, comp = p["k1"], p["k2"], p["v"], p["comp"]
    n = 9
    s1 = A.series(k1, n, "alt" if k1 in A.NULLABLE_KINDS else "none", 0, "a")
    s2 = A.series(k2, n, "none", 2, "b")
    df = pd.DataFrame({"a": s1, "b": s2})
    kinds = {"a": k1, "b": k2}
    codecs = {"a": codec_name(comp), "b": codec_name(comp)}
    tiny_ps = wr.tiny_page_size(df, 2)
    for rgo in (None, [0, 2, 5], 4):
        for scheme in ("hive", "drill", "simple"):
            # has_nulls lists and several pages per chunk: simple and hive (drill differs from hive only with partition_on)
            variants = [(True, None)] if scheme == "drill" else [(True, None), (["a"], None), (["b"], None), (True, tiny_ps)]
            for hn, ps in variants:
                c.ctx = {"scheme": scheme, "rgo": str(rgo)}
                if hn is not True or ps:
                    c.ctx.update({"has_nulls": str(hn), "tiny": bool(ps)})
                d = scratch()
                path = os.path.join(d, "ds" if scheme != "simple" else "t.parquet")
                try:
                    with wr.PageCfg(ver, ps):
                        fastparquet.write(path, df, compression=comp, row_group_offsets=rgo, file_scheme=scheme,
                                          write_index=False, has_nulls=hn)
                except Exception:
                    c.refused += 1
                    continue
                what = "V2 %s,%s rgo=%s %s has_nulls=%s tiny=%s" % (k1, k2, rgo, scheme, hn, bool(ps))
                if scheme == "simple":
                    validate_file(c, path, what, df, kinds, optional_for(df, hn), codecs)
                    continue
                # every part file, in _metadata order, must decode to its slice of the frame
                validate_dataset(c, path, what, df, kinds, optional_for(df, hn), codecs)


def part_key_series(pk, n):
    """partition column: few distinct values, none missing, names that are legal directory names"""
    import pandas as pd
    from mc import alphabets as A
    if pk == "int64":
        return pd.Series([10, -3, 7, 10, 7, -3, 0, 10, 7][:n], dtype="int64", name="b")
    if pk == "str_obj":
        return pd.Series(["x", "y", "x", "z z", "y", "é", "x", "y", "x"][:n], dtype=object, name="b")
    return A.series(pk, n, "none", 0, "b")


def run_VP(c, p):
    """partition_on: the part files live in one directory per key (hive: name=value, drill: value) and hold the
    remaining columns of the rows with that key, in input order; row groups are listed chunk by chunk, keys sorted"""
    import os
    import pandas as pd
    import fastparquet
    from mc import alphabets as A, wr
    from mc.scratch import scratch
    k1, pk, ver, comp = p["k1"], p["pk"], p["v"], p["comp"]
    n = 9
    df = pd.DataFrame({"a": A.series(k1, n, "alt" if k1 in A.NULLABLE_KINDS else "none", 0, "a"),
                       "b": part_key_series(pk, n),
                       "q": pd.Series([1, 1, 2, 2, 1, 1, 2, 2, 1], dtype="int64", name="q"),
                       "z": A.series("str_obj", n, "first", 1, "z")})
    for pon in (["b"], ["b", "q"]):
        rest = [col for col in df.columns if col not in pon]
        kinds = {"a": k1, "q": "int64", "z": "str_obj"}
        codecs = {col: codec_name(comp) for col in rest}
        for rgo in (None, [0, 4]):
            bounds = [0, n] if rgo is None else rgo + [n]
            parts = []
            for lo, hi in zip(bounds[:-1], bounds[1:]):
                chunk = df.iloc[lo:hi]
                keys = sorted(set(tuple(chunk[col].iloc[i] for col in pon) for i in range(len(chunk))))
                for key in keys:
                    m = pd.Series(True, index=chunk.index)
                    for col, v in zip(pon, key):
                        m &= (chunk[col] == v)
                    parts.append(chunk[m][rest])
            for scheme in ("hive", "drill"):
                c.ctx = {"scheme": scheme, "rgo": str(rgo), "partition_on": ",".join(pon)}
                d = scratch()
                path = os.path.join(d, "ds")
                try:
                    with wr.PageCfg(ver, None):
                        fastparquet.write(path, df, compression=comp, row_group_offsets=rgo, file_scheme=scheme,
                                          write_index=False, partition_on=pon)
                except Exception:
                    c.refused += 1
                    continue
                what = "VP %s by %s partition_on=%s rgo=%s %s" % (k1, pk, pon, rgo, scheme)
                validate_dataset(c, path, what, parts, kinds, {col: True for col in rest}, codecs, partition=(pon, scheme))


def run_VB(c, p):
    """row counts at which run headers and length prefixes grow: RLE run header 2 bytes from 64 rows (V1), bit-packed
    header 2 bytes from 504 rows (levels) / 505 rows (dictionary indices), v1 level block > 255 bytes from 2040 rows,
    3-byte page sizes; one page and five pages of >= 100 rows"""
    import os
    import fastparquet
    from mc import wr
    from mc.props import C01
    from mc.scratch import scratch
    kind, n = p["kind"], p["n"]
    for pat in (["none", "alt", "last"] if C01.is_nullable(kind) else ["none"]):
        df = C01.mk_series(kind, n, pat).to_frame()
        for ver in (1, 2):
            for tiny in (False, True):
                ps = wr.tiny_page_size(df, n // 5) if tiny else None
                comp = "SNAPPY" if (ver == 2) == tiny else None
                c.ctx = {"nulls": pat, "v": ver, "tiny": tiny}
                d = scratch()
                path = os.path.join(d, "t.parquet")
                try:
                    with wr.PageCfg(ver, ps):
                        fastparquet.write(path, df, compression=comp, stats=True)
                except Exception:
                    c.refused += 1
                    continue
                validate_file(c, path, "VB %s n=%d nulls=%s v%d tiny=%s comp=%s" % (kind, n, pat, ver, tiny, comp),
                              df, {"c": kind}, {"c": True}, {"c": codec_name(comp)})


def _write_validate(c, df, kinds, what, ver=None, ps=None, optional=None, codecs=None, **wkw):
    import os
    import fastparquet
    from mc import wr
    from mc.scratch import scratch
    d = scratch()
    path = os.path.join(d, "t.parquet")
    try:
        if ver is None:
            fastparquet.write(path, df, **wkw)
        else:
            with wr.PageCfg(ver, ps):
                fastparquet.write(path, df, **wkw)
    except Exception:
        c.refused += 1
        return None
    return validate_file(c, path, what, df, kinds, optional, codecs, wkw.get("times", "int64"))


def run_VO(c, p):
    """the option sub-lattices of C01's S3 (same frames), validated and decoded independently"""
    import pandas as pd
    from mc import alphabets as A, wr
    from mc.props import C01
    opt = p["opt"]
    if opt == "times":
        kind, times = p["kind"], p["times"]
        for pat in ("none", "alt", "all"):
            df = C01.mk_series(kind, 9, pat).to_frame()
            for hn in (True, False):
                for ver, tiny in C01.LAYOUTS:
                    c.ctx = {"nulls": pat, "has_nulls": str(hn), "v": ver, "tiny": tiny}
                    _write_validate(c, df, {"c": kind}, "VO times=%s %s nulls=%s has_nulls=%s v%d tiny=%s" % (
                        times, kind, pat, hn, ver, tiny), ver, wr.tiny_page_size(df, 3) if tiny else None,
                        {"c": hn}, None, times=times, has_nulls=hn)
    elif opt == "object_encoding":
        enc = p["enc"]
        cols = {"infer": ["str_obj", "bytes_obj", "json_obj"], "utf8": ["str_obj"], "bytes": ["bytes_obj"],
                "json": ["json_obj"], "bool": ["o_bool"], "int": ["o_int"], "int32": ["o_int32"], "float": ["o_float"]}[enc]
        for kind in cols:
            for pat in ("none", "alt", "first", "all"):
                if kind.startswith("o_"):
                    base = {"o_bool": [True, False, True, True, False, False, True, False, True],
                            "o_int": [1, -2, 3, 2 ** 40, 0, 5, 6, -2 ** 63, 2 ** 63 - 1],
                            "o_int32": [1, -2, 3, 2 ** 31 - 1, 0, 5, 6, -2 ** 31, 8],
                            "o_float": [1.5, -2.5, 0.0, 1e300, 3.0, 4.0, 5.0, 6.0, 7.0]}[kind]
                    m = A.nullmask(pat, 9)
                    df = pd.Series([None if z else v for v, z in zip(base, m)], dtype=object, name="c").to_frame()
                else:
                    df = A.series(kind, 9, pat).to_frame()
                for ver in (1, 2):
                    c.ctx = {"nulls": pat, "objkind": kind, "v": ver}
                    _write_validate(c, df, {"c": kind}, "VO object_encoding=%s %s nulls=%s v%d" % (enc, kind, pat, ver),
                                    ver, None, {"c": True}, None, object_encoding=enc)
    elif opt == "object_encoding_dict":
        for pat in ("none", "alt"):
            df = pd.DataFrame({"a": A.series("str_obj", 9, pat, 0, "a"), "b": A.series("json_obj", 9, pat, 1, "b"),
                               "c": A.series("bytes_obj", 9, pat, 2, "c"), "d": A.series("str_obj", 9, pat, 3, "d")})
            kinds = {"a": "str_obj", "b": "json_obj", "c": "bytes_obj", "d": "str_obj"}
            for oe in ({"a": "utf8", "b": "json", "c": "bytes", "d": "infer"},
                       {"a": "infer", "b": "infer", "c": "infer", "d": "infer"}):
                for ver in (1, 2):
                    c.ctx = {"nulls": pat, "oe": str(sorted(oe.items())), "v": ver}
                    _write_validate(c, df, kinds, "VO object_encoding=%r nulls=%s v%d" % (oe, pat, ver), ver, None,
                                    {col: True for col in df.columns}, None, object_encoding=oe)
    elif opt == "fixed_text":
        for pat in ("none", "alt"):
            vals = ["abcd", "wxyz", "1234", "éa", "q   ", "....", "abcd", "zzzz", "0000"]
            m = A.nullmask(pat, 9)
            df = pd.DataFrame({"c": pd.Series([None if z else v for v, z in zip(vals, m)], dtype=object)})
            for ver, tiny in C01.LAYOUTS:
                for comp in (None, "SNAPPY"):
                    c.ctx = {"nulls": pat, "v": ver, "tiny": tiny, "comp": str(comp)}
                    _write_validate(c, df, {"c": "fixed4"}, "VO fixed_text nulls=%s v%d tiny=%s %s" % (pat, ver, tiny, comp),
                                    ver, 13 if tiny else None, {"c": True}, {"c": codec_name(comp)},
                                    fixed_text={"c": 4}, object_encoding="utf8", compression=comp, stats=True)
    elif opt == "append_permuted":
        # files that were appended to: with the columns in the order of the schema, in another order (accepted: the
        # names are compared as sets), through write(append=True), a kept handle and an iterable of frames
        import os
        import fastparquet
        from mc.scratch import scratch
        kinds = {"a": "int64", "b": "int64", "x": "float64", "c": "str_obj"}
        def frame(start, n=4):
            return pd.DataFrame({"a": pd.Series(range(start, start + n), dtype="int64"),
                                 "b": pd.Series(range(1000 + start, 1000 + start + n), dtype="int64"),
                                 "x": pd.Series([0.5 * i for i in range(start, start + n)], dtype="float64"),
                                 "c": pd.Series(["s%d" % i for i in range(start, start + n)], dtype=object)})
        df0, df1, df2 = frame(0), frame(10), frame(20)
        for order in (["a", "b", "x", "c"], ["c", "x", "a", "b"], ["b", "a", "x", "c"]):
            for scheme in ("simple", "hive"):
                for how in ("write", "handle", "iterable"):
                    for ver in (1, 2):
                        c.ctx = {"order": "schema" if order[0] == "a" else ("rotated" if order[0] == "c" else "swapped"),
                                 "scheme": scheme, "how": how, "v": ver}
                        what = "VO append order=%r %s via %s v%d" % (order, scheme, how, ver)
                        d = scratch()
                        path = os.path.join(d, "t.parquet" if scheme == "simple" else "ds")
                        try:
                            with wr.PageCfg(ver, None):
                                fastparquet.write(path, df0, file_scheme=scheme, write_index=False, has_nulls=False)
                                if how == "write":
                                    fastparquet.write(path, df1[order], file_scheme=scheme, write_index=False, append=True)
                                    parts = [df0, df1]
                                elif how == "handle":
                                    fastparquet.ParquetFile(path).write_row_groups(df1[order])
                                    parts = [df0, df1]
                                else:
                                    fastparquet.ParquetFile(path).write_row_groups(iter([df1, df2[order]]))
                                    parts = [df0, df1, df2]
                        except Exception:
                            c.refused += 1
                            continue
                        if scheme == "simple":
                            validate_file(c, path, what, pd.concat(parts, ignore_index=True), kinds)
                        else:
                            validate_dataset(c, path, what, parts, kinds)
    elif opt == "compdict":
        df = pd.DataFrame({"a": A.series("int64", 9, "none", 0, "a"), "b": A.series("str_obj", 9, "alt", 0, "b"),
                           "c": A.series("float64", 9, "alt", 0, "c")})
        kinds = {"a": "int64", "b": "str_obj", "c": "float64"}
        for comp in ({"a": "SNAPPY", "b": None, "_default": "GZIP"},
                     {"a": {"type": "ZSTD", "args": {"level": 3}}, "_default": {"type": "GZIP", "args": None}},
                     {"b": {"type": "LZ4", "args": None}, "c": "BROTLI"},
                     {"a": "snappy", "b": "UNCOMPRESSED", "c": {"type": "zstd", "args": None}}):
            codecs = {col: codec_name(comp[col] if col in comp else comp.get("_default")) for col in df.columns}
            for ver, tiny in C01.LAYOUTS:
                c.ctx = {"comp": str(sorted(comp)), "v": ver, "tiny": tiny}
                _write_validate(c, df, kinds, "VO compression dict %r v%d tiny=%s" % (comp, ver, tiny), ver,
                                wr.tiny_page_size(df, 3) if tiny else None, {col: True for col in df.columns}, codecs,
                                compression=comp)


def index_frame(df, ik, written):
    """(frame the file must hold, {column: kind} of the added columns): the index turned into ordinary columns - an
    unnamed index is called 'index' and comes first, the levels of a MultiIndex follow the data columns as
    dictionary-encoded columns"""
    import pandas as pd
    if not written:
        return df.reset_index(drop=True), {}
    if ik == "multi2":
        out = df.reset_index(drop=True)
        out["l0"] = list(df.index.get_level_values(0))
        out["l1"] = pd.Series(list(df.index.get_level_values(1)), dtype=object)
        return out, {"l0": "cat_int", "l1": "cat_str"}
    name = df.index.name if df.index.name is not None else "index"
    out = df.reset_index(drop=True)
    out.insert(0, name, pd.Series(df.index.array, name=name))
    return out, {name: INDEX_COL_KIND[ik]}


def run_VI(c, p):
    import os
    import numpy as np
    import pandas as pd
    import fastparquet
    from mc import wr
    from mc.props import C01
    from mc.scratch import scratch
    opt = p["opt"]
    if opt == "index":
        ik, kind = p["ik"], p["kind"]
        for n in (0, 1, 9):
            s = C01.mk_series(kind, n, "alt" if (C01.is_nullable(kind) and n > 1) else "none", 1, "a")
            idx, written, names = C01.index_of(ik, n)
            df = pd.DataFrame({"a": s})
            df.index = idx
            exp, ikinds = index_frame(df, ik, written)
            kinds = dict(ikinds, a=kind)
            for rgo in (None, [0, 2, 5]):
                rgo_eff = [x for x in rgo if x < max(n, 1)] if isinstance(rgo, list) else rgo
                for scheme in ("simple", "hive"):
                    for ver in (1, 2):
                        c.ctx = {"scheme": scheme, "rgo": str(rgo), "v": ver}
                        what = "VI index=%s col=%s n=%d rgo=%s %s v%d" % (ik, kind, n, rgo, scheme, ver)
                        d = scratch()
                        path = os.path.join(d, "t.parquet" if scheme == "simple" else "ds")
                        try:
                            with wr.PageCfg(ver, None):
                                fastparquet.write(path, df, row_group_offsets=rgo_eff, file_scheme=scheme)
                        except Exception:
                            c.refused += 1
                            continue
                        opt_exp = {col: True for col in exp.columns}
                        if scheme == "simple":
                            validate_file(c, path, what, exp, kinds, opt_exp)
                        else:
                            validate_dataset(c, path, what, exp, kinds, opt_exp)
    elif opt == "wide":
        ver, tiny = p["v"], p["tiny"]
        kinds = {name: kind for name, kind, _, _ in C01.WIDE}
        n = 9
        df = pd.DataFrame({name: C01.mk_series(kind, n, pat, off, name) for name, kind, pat, off in C01.WIDE})
        ps = wr.tiny_page_size(df[["z"]], 2) if tiny else None
        some = ["a.b", "m", "d1", "I", "I0", "c9", "0"]
        for rgo in (None, [0, 2, 5], 4):
            for scheme in ("simple", "hive"):
                for hn in (True, some):
                    for comp in (None, {"_default": "SNAPPY", "é": None, "a.b": "GZIP"}):
                        c.ctx = {"rgo": str(rgo), "scheme": scheme, "has_nulls": "all" if hn is True else "list",
                                 "comp": "dict" if comp else "None"}
                        what = "VI wide rgo=%s %s v%d tiny=%s has_nulls=%s comp=%s" % (rgo, scheme, ver, tiny, hn, comp)
                        codecs = {col: codec_name((comp or {}).get(col, (comp or {}).get("_default"))) for col in df.columns}
                        d = scratch()
                        path = os.path.join(d, "t.parquet" if scheme == "simple" else "ds")
                        try:
                            with wr.PageCfg(ver, ps):
                                fastparquet.write(path, df, row_group_offsets=rgo, file_scheme=scheme, has_nulls=hn,
                                                  compression=comp)
                        except Exception:
                            c.refused += 1
                            continue
                        if scheme == "simple":
                            validate_file(c, path, what, df, kinds, optional_for(df, hn), codecs)
                        else:
                            validate_dataset(c, path, what, df, kinds, optional_for(df, hn), codecs)
    elif opt == "multicol":
        # two-level column names: the schema name and path_in_schema are the text of the tuple
        ver = p["v"]
        n = 9
        cols = [("x", "a"), ("x", "b"), ("y", "a"), ("é", "q.r")]
        ckinds = ["int64", "str_obj", "cat_str", "float64"]
        df = pd.DataFrame({i: C01.mk_series(k, n, "alt" if C01.is_nullable(k) else "none", i, str(i))
                           for i, k in enumerate(ckinds)})
        df.columns = pd.MultiIndex.from_tuples(cols, names=["l0", "l1"])
        kinds = dict(zip(cols, ckinds))
        for rgo in (None, [0, 2, 5]):
            for scheme in ("simple", "hive"):
                c.ctx = {"rgo": str(rgo), "scheme": scheme}
                what = "VI two-level column names rgo=%s %s v%d" % (rgo, scheme, ver)
                d = scratch()
                path = os.path.join(d, "t.parquet" if scheme == "simple" else "ds")
                try:
                    with wr.PageCfg(ver, None):
                        fastparquet.write(path, df, row_group_offsets=rgo, file_scheme=scheme)
                except Exception:
                    c.refused += 1
                    continue
                opt_exp = {col: True for col in cols}
                if scheme == "simple":
                    validate_file(c, path, what, df, kinds, opt_exp)
                else:
                    validate_dataset(c, path, what, df, kinds, opt_exp)


LEVEL_TEXT = ("Every file of the bounded write lattice (all dtypes x null patterns x row counts incl. the sizes where run "
              "headers and length prefixes grow x nullability modes x codecs and their spellings x v1/v2 x page sizes; "
              "int96 times, object encodings, fixed-length text, per-column codecs; written indexes, two-level and "
              "non-ASCII column names; single files, multi-file and partitioned datasets with their summary files) is "
              "parsed by an independent strict reader that recomputes every size / count / offset / encoding field from "
              "the bytes and decodes the values from the specification alone; physical, converted and logical type, "
              "repetition and codec of every column are compared with what its dtype and the options demand; symmetric "
              "writer/reader errors that the library's own round trip cannot see are visible here.")
LEVEL_NOTE = ("Trusted: specpq (validated against third-party files), cramjam. Tolerated deviations are bounded and "
              "counted in the evidence; beyond the bound they are violations.")
TECHNIQUE = "bounded exhaustive enumeration of written files, strict independent spec-level validation and decode"
