"""C02 - written files are valid Parquet that an independent reader decodes identically."""
import itertools

ID = "C02"
LEVEL = "exploration"
FLAVOUR = "plain"
TIMEOUT = 600
RULE = ("the S1 lattice of C01 (kind x compression x page layout [cell] x null pattern x n x has_nulls x stats) plus "
        "multi-file datasets (pairs of core kinds x row_group_offsets x hive/drill x page version, every part file, "
        "_metadata and _common_metadata); every written file is parsed by specpq's strict validator (IDL field "
        "ids / wire types / required fields, offsets, sizes, counts, encodings, codec, page tiling, level framing) "
        "and decoded by specpq's reader, and the decoded rows are compared with the input incl. NULL vs NaN; "
        "non-trivial = a file with >= 1 data page validated and compared")
ASSUMPTIONS = ["specpq is the independent reader (written from the specification, bound to third-party files)",
               "cramjam trusted for decompression",
               "tolerated, counted deviations: padding after the last value of a page, empty list written with "
               "element type 0, LZ4 raw block under the deprecated LZ4 codec id"]


def points(tier):
    from mc.props import C01
    from mc import alphabets as A
    pts = [dict(p, s="V1") for p in C01.points(tier) if p["s"] == "S1"]
    kinds2 = ["int64", "float64", "str_obj", "cat_str", "Int64", "dt_ns", "bool"]
    for k1, k2 in itertools.product(kinds2, repeat=2):
        if tier != "thorough" and (kinds2.index(k1) + kinds2.index(k2)) % 3:
            continue
        for ver in (1, 2):
            for comp in (None, "SNAPPY"):
                pts.append({"s": "V2", "k1": k1, "k2": k2, "v": ver, "comp": comp, "tier": tier})
    return pts


def explore(run, tier):
    run.lattice("validity", points(tier), "run")


def crash_sig(point, res):
    s = {"s": point["s"], "symptom": res["outcome"]}
    for k in ("kind", "comp", "v", "tiny", "k1", "k2"):
        if k in point:
            s[k] = point[k]
    return s


class Cell:
    def __init__(self, point):
        self.point = point
        self.files = 0
        self.refused = 0
        self.sigs = {}
        self.detail = ""
        self.ctx = {}
        self.dev = {}

    def bad(self, symptom, detail, **extra):
        s = {"s": self.point["s"], "symptom": symptom}
        for k in ("kind", "comp", "v", "tiny", "k1", "k2"):
            if k in self.point:
                s[k] = self.point[k]
        s.update(self.ctx)
        s.update(extra)
        key = repr(sorted(s.items(), key=str))
        if key not in self.sigs:
            self.sigs[key] = s
            if not self.detail:
                self.detail = detail

    def result(self):
        ok = not self.sigs
        counts = {"files": self.files, "refused": self.refused}
        for k, v in self.dev.items():
            counts["tolerated_" + k] = v
        return {"ok": ok, "outcome": "valid" if ok else "invalid", "nontrivial": self.files > 0,
                "counts": counts, "sig": list(self.sigs.values()) or None, "detail": self.detail}


def _errclass(msg):
    """stable class of a validator message (numbers removed)"""
    import re
    m = re.sub(r"rg \d+ col [\w\.]+: ", "", msg)
    m = re.sub(r"-?\d+", "N", m)
    return m[:70]


INT64_MIN = -2 ** 63


def expected_rows(series, kind, leaf, optional):
    """spec-level logical rows the file must decode to"""
    import json
    import numpy as np
    import pandas as pd
    from mc import oracles as O
    from mc.specpq import file as F
    cells = O.series_to_list(series)
    out = []
    raw = series.tolist() if not isinstance(series.dtype, pd.CategoricalDtype) else series.astype(object).tolist()
    for c, r in zip(cells, raw):
        if c is None:
            if optional:
                out.append(None)
            elif kind.startswith(("float",)):
                out.append("NaN")
            elif kind.startswith(("dt_", "td_")):
                out.append(("sentinel", INT64_MIN))
            elif kind == "json_obj":
                out.append(None)          # stored as the JSON value null
            else:
                out.append("cannot-be-missing")
            continue
        out.append(c)
    return out


def decoded_rows(p, name, kind):
    """specpq rows -> the same canonical space as expected_rows"""
    import json
    import struct
    from mc.specpq import file as F
    node = [c for c in p.root.children if c.name == name][0]
    rows = F.column_rows(p, name)
    ct, lt = node.ct, node.lt or {}
    out = []
    unit_ns = None
    if node.type == F.T_INT64:
        if ct == F.CT["TIMESTAMP_MILLIS"]:
            unit_ns = 10 ** 6
        elif ct == F.CT["TIMESTAMP_MICROS"]:
            unit_ns = 10 ** 3
        elif "TIMESTAMP" in lt:
            u = lt["TIMESTAMP"]["unit"]
            unit_ns = 10 ** 6 if "MILLIS" in u else (10 ** 3 if "MICROS" in u else 1)
    for v in rows:
        if v is None:
            out.append(None)
            continue
        v = F.logical(v, node)
        if kind.startswith("dt_") and node.type == F.T_INT96:
            ns, day = struct.unpack("<qi", v)
            out.append(("ts", ns + (day - 2440588) * 86400 * 10 ** 9))
        elif kind.startswith("dt_"):
            if v == INT64_MIN:
                out.append(("sentinel", INT64_MIN))
            else:
                out.append(("ts", v * (unit_ns or 1)))
        elif kind.startswith("td_"):
            if v == INT64_MIN:
                out.append(("sentinel", INT64_MIN))
            else:
                out.append(("td", v * 1000))
        elif kind == "json_obj":
            try:
                out.append(json.loads(v) if isinstance(v, str) else json.loads(v.decode()))
            except ValueError:
                out.append(("unparseable", v))
        elif isinstance(v, float) and v != v:
            out.append("NaN")
        else:
            out.append(v)
    return out


def validate_file(c, path, what, df=None, kinds=None):
    """strict validation + decode of one file; compare with df when given"""
    from mc.specpq import file as F
    from mc import oracles as O
    data = open(path, "rb").read()
    try:
        p = F.read_file(data)
    except F.FormatError as e:
        c.bad("not_parquet", "%s: %s" % (what, e), err=_errclass(str(e)))
        return None
    except Exception as e:
        c.bad("validator_raised", "%s: %s: %s" % (what, type(e).__name__, e), err=type(e).__name__)
        return None
    for k, v in p.deviations.items():
        if not k.endswith("_max"):
            c.dev[k] = c.dev.get(k, 0) + v
    for e in p.errors:
        c.bad("metadata_mismatch", "%s: %s" % (what, e), err=_errclass(e))
    c.files += 1
    if df is None:
        return p
    names = [n.name for n in p.root.children]
    if names != [str(x) for x in df.columns]:
        c.bad("schema_columns", "%s: schema columns %r, frame %r" % (what, names, list(df.columns)))
        return p
    if p.fmd["num_rows"] != len(df):
        c.bad("row_count", "%s: num_rows %d, frame %d" % (what, p.fmd["num_rows"], len(df)))
        return p
    for col in df.columns:
        kind = kinds[col]
        node = [n for n in p.root.children if n.name == col][0]
        optional = node.rep == F.OPTIONAL
        try:
            got = decoded_rows(p, col, kind)
        except Exception as e:
            c.bad("decode_failed", "%s: column %s: %s: %s" % (what, col, type(e).__name__, e))
            continue
        exp = expected_rows(df[col], kind, node, optional)
        i = O.first_diff(got, exp)
        if i is not None:
            c.bad("decodes_differently", "%s: column %s row %s: independent reader sees %r, written %r" % (
                what, col, i, got[i] if i >= 0 else len(got), exp[i] if i >= 0 else len(exp)), colkind=kind)
    return p


def run(point):
    c = Cell(point)
    globals()["run_" + point["s"]](c, point)
    return c.result()


def run_V1(c, p):
    import os
    import fastparquet
    from mc import alphabets as A, wr
    from mc.scratch import scratch
    kind, comp, ver, tiny = p["kind"], p["comp"], p["v"], p["tiny"]
    ns = [n for n in (A.N_THOROUGH if p["tier"] == "thorough" else A.N_QUICK)]
    hn_list = [True, False, "infer", ["c"]] if p["tier"] == "thorough" else [True, False, "infer"]
    stats_list = [True, False, "auto"] if p["tier"] == "thorough" else [True]
    for pat in A.patterns_for(kind):
        for n in ns:
            if pat != "none" and n == 0:
                continue
            df = A.series(kind, n, pat).to_frame()
            ps = wr.tiny_page_size(df, max(1, n // 3)) if tiny and n else None
            for hn in hn_list:
                for st in stats_list:
                    c.ctx = {"nulls": pat, "has_nulls": str(hn)}
                    d = scratch()
                    path = os.path.join(d, "t.parquet")
                    try:
                        with wr.PageCfg(ver, ps):
                            fastparquet.write(path, df, compression=comp, has_nulls=hn, stats=st)
                    except Exception:
                        c.refused += 1
                        continue
                    validate_file(c, path, "V1 %s n=%d nulls=%s has_nulls=%s stats=%s" % (kind, n, pat, hn, st),
                                  df, {"c": kind})


def run_V2(c, p):
    import os
    import pandas as pd
    import fastparquet
    from mc import alphabets as A, wr
    from mc.scratch import scratch
    from mc.specpq import file as F
    k1, k2, ver, comp = p["k1"], p["k2"], p["v"], p["comp"]
    n = 9
    s1 = A.series(k1, n, "alt" if k1 in A.NULLABLE_KINDS else "none", 0, "a")
    s2 = A.series(k2, n, "none", 2, "b")
    df = pd.DataFrame({"a": s1, "b": s2})
    kinds = {"a": k1, "b": k2}
    for rgo in (None, [0, 2, 5], 4):
        for scheme in ("hive", "drill", "simple"):
            c.ctx = {"scheme": scheme, "rgo": str(rgo)}
            d = scratch()
            path = os.path.join(d, "ds" if scheme != "simple" else "t.parquet")
            try:
                with wr.PageCfg(ver, None):
                    fastparquet.write(path, df, compression=comp, row_group_offsets=rgo, file_scheme=scheme,
                                      write_index=False)
            except Exception:
                c.refused += 1
                continue
            what = "V2 %s,%s rgo=%s %s" % (k1, k2, rgo, scheme)
            if scheme == "simple":
                validate_file(c, path, what, df, kinds)
                continue
            # every part file, in _metadata order, must decode to its slice of the frame
            mpath = os.path.join(path, "_metadata")
            try:
                pm = F.read_footer(open(mpath, "rb").read())
                pc = F.read_footer(open(os.path.join(path, "_common_metadata"), "rb").read())
            except Exception as e:
                c.bad("not_parquet", "%s: summary file: %s" % (what, e), file="_metadata")
                continue
            c.files += 2
            if pc.fmd["schema"] != pm.fmd["schema"]:
                c.bad("metadata_mismatch", "%s: _common_metadata schema differs from _metadata" % what, file="_common_metadata")
            if pc.fmd["row_groups"]:
                c.bad("metadata_mismatch", "%s: _common_metadata lists row groups" % what, file="_common_metadata")
            start = 0
            total = 0
            for gi, rg in enumerate(pm.fmd["row_groups"]):
                fps = {cc.get("file_path") for cc in rg["columns"]}
                fp = rg["columns"][0].get("file_path")
                if not fp or not os.path.exists(os.path.join(path, fp)):
                    c.bad("dangling_file_path", "%s: row group %d references %r" % (what, gi, fp))
                    continue
                nr = rg["num_rows"]
                part = df.iloc[start:start + nr].reset_index(drop=True)
                pp = validate_file(c, os.path.join(path, fp), what + " part " + fp, part, kinds)
                if pp is not None:
                    own = pp.fmd["row_groups"]
                    if len(own) != 1 or own[0]["num_rows"] != nr:
                        c.bad("metadata_mismatch", "%s: %s holds %s rows, _metadata says %d" % (
                            what, fp, [g["num_rows"] for g in own], nr), file="_metadata")
                    else:
                        for cm, co in zip(rg["columns"], own[0]["columns"]):
                            a, b = dict(cm["meta_data"]), dict(co["meta_data"])
                            if a != b:
                                diff = [k for k in set(a) | set(b) if a.get(k) != b.get(k)]
                                c.bad("metadata_mismatch", "%s: column metadata of %s in _metadata differs from the file's own footer in %s" % (
                                    what, fp, sorted(diff)), file="_metadata", fields=",".join(sorted(diff)))
                start += nr
                total += nr
            if pm.fmd["num_rows"] != total or total != len(df):
                c.bad("row_count", "%s: _metadata num_rows %d, row groups %d, frame %d" % (what, pm.fmd["num_rows"], total, len(df)))


LEVEL_TEXT = ("Every file of the bounded write lattice (all dtypes x null patterns x row counts x nullability modes x "
              "codecs x v1/v2 x page sizes, single files and multi-file datasets with their summary files) is parsed "
              "by an independent strict reader that recomputes every size / count / offset / encoding field from the "
              "bytes and decodes the values from the specification alone; symmetric writer/reader errors that the "
              "library's own round trip cannot see are visible here.")
LEVEL_NOTE = ("Trusted: specpq (validated against third-party files), cramjam. Tolerated deviations are counted in the "
              "evidence and never judged.")
TECHNIQUE = "bounded exhaustive enumeration of written files, strict independent spec-level validation and decode"
