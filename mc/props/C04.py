"""C04 - column statistics are exact: min/max/null_count describe the stored chunk."""
import itertools

ID = "C04"
LEVEL = "exploration"
FLAVOUR = "plain"
TIMEOUT = 400
RULE = ("cell = kind x page version x has_nulls; inside: value-order program (ascending, descending, min in the "
        "middle, max first, all equal, single non-null, overlapping row-group ranges, touching ranges) x null pattern x row-group split (None and every [0,k]) x "
        "stats (True, 'auto', [col], False) x page size (default, tiny); observed at three points: raw Statistics "
        "bytes decoded by specpq, ParquetFile.statistics, sorted_partitioned_columns; oracle = pure-Python min/max "
        "of the non-null values of each chunk under the type's ordering; non-trivial = a chunk with >= 1 non-null "
        "value whose statistics were compared")
ASSUMPTIONS = ["min/max absent is always accepted; present on an all-null chunk or min > max never is",
               "floats: NaN is excluded from the order, -0.0 == 0.0", "text ordered by UTF-8 bytes (= code points)"]

PROGRAMS = ["asc", "desc", "min_mid", "max_first", "equal", "single", "overlap", "touch"]


def points(tier):
    from mc import alphabets as A
    pts = []
    for kind in A.ALL_KINDS:
        for ver in (1, 2):
            for hn in (True, False):
                pts.append({"kind": kind, "v": ver, "has_nulls": hn, "tier": tier})
    return pts


def explore(run, tier):
    run.lattice("statistics", points(tier), "run")


def crash_sig(point, res):
    return {"kind": point["kind"], "v": point["v"], "symptom": res["outcome"]}


# -------------------------------------------------------------------------------------
def order_key(kind):
    """sort key implementing the Parquet ordering of the column's type on canonical cells"""
    if kind in ("str_obj", "str_pd") or kind in ("cat_str", "cat_str_ordered", "cat_unused"):
        return lambda v: v.encode("utf8")
    if kind.startswith(("dt_", "td_")):
        return lambda v: v[1]
    return lambda v: v


def arrange(vals, prog):
    """vals: distinct values sorted ascending under the type order"""
    n = len(vals)
    if prog == "asc":
        return list(vals)
    if prog == "desc":
        return list(reversed(vals))
    if prog == "min_mid":
        return vals[1:n // 2 + 1] + [vals[0]] + vals[n // 2 + 1:]
    if prog == "max_first":
        return [vals[-1]] + vals[:-1]
    if prog == "equal":
        return [vals[n // 2]] * n
    if prog == "overlap":
        # bounds of consecutive row groups trend upwards but the ranges overlap
        return [vals[0], vals[3 % n], vals[1], vals[4 % n], vals[2], vals[5 % n]][:n] + list(vals[6:])
    if prog == "touch":
        # the max of one row group equals the min of the next
        return [vals[0], vals[2], vals[2], vals[4 % n], vals[4 % n], vals[5 % n]][:n] + list(vals[6:])
    raise KeyError(prog)


def build_series(kind, prog, pat, n=6):
    """Series of n rows whose non-null values follow the order program"""
    import pandas as pd
    from mc import alphabets as A, oracles as O
    base = A.series(kind, 7, "none")
    cells = O.series_to_list(base)
    key = order_key(kind)
    # distinct by canonical value, order by type order; keep original position to rebuild the Series
    seen = {}
    for i, c in enumerate(cells):
        if kind.startswith("float") and c is not None and c == 0.0:
            c0 = 0.0
        else:
            c0 = c
        if repr(c0) not in seen and not isinstance(c, (dict, list)):
            seen[repr(c0)] = i
    idx = sorted(seen.values(), key=lambda i: key(cells[i]))
    if len(idx) < 2:
        return None
    idx = (idx * 3)[:n] if len(idx) < n else idx[:n]
    idx = sorted(set(idx), key=lambda i: key(cells[i]))
    while len(idx) < n:
        idx = idx + idx[: n - len(idx)]
    idx = sorted(idx, key=lambda i: key(cells[i]))
    if prog == "single":
        order = [idx[0]] * n
        mask = [i != n // 2 for i in range(n)]
        if kind not in A.NULLABLE_KINDS:
            return None
    else:
        order = arrange(idx, prog)
        mask = A.nullmask(pat, n)
    s = base.iloc[order].reset_index(drop=True)
    if any(mask):
        if kind not in A.NULLABLE_KINDS:
            return None
        s = s.copy()
        m = pd.Series(mask)
        s = s.where(~m, other=(pd.NA if kind[0] in "IUb" and kind not in ("bool", "bytes_obj") else None)) \
            if not kind.startswith("cat_") else s.where(~m)
    s.name = "c"
    return s


def decode_stat(raw, node, kind):
    """raw Statistics bytes -> canonical cell"""
    import struct
    from mc.specpq import file as F, codecs as C
    if raw is None:
        return None
    raw = bytes(raw) if not isinstance(raw, str) else raw.encode("utf8")
    t = node.type
    if t == F.T_BYTE_ARRAY:
        v = raw
    elif t == F.T_FLBA:
        v = raw
    elif t == F.T_BOOLEAN:
        v = bool(raw[0] & 1)
    elif t == F.T_INT96:
        ns, day = struct.unpack("<qi", raw)
        return ("ts", ns + (day - 2440588) * 86400 * 10 ** 9)
    else:
        v = C.plain_decode(raw, 0, len(raw), 1, t)[0][0]
    v = F.logical(v, node)
    if kind.startswith("dt_"):
        ct, lt = node.ct, node.lt or {}
        unit = 1
        if ct == F.CT["TIMESTAMP_MILLIS"]:
            unit = 10 ** 6
        elif ct == F.CT["TIMESTAMP_MICROS"]:
            unit = 10 ** 3
        elif "TIMESTAMP" in lt:
            u = lt["TIMESTAMP"]["unit"]
            unit = 10 ** 6 if "MILLIS" in u else (10 ** 3 if "MICROS" in u else 1)
        return ("ts", v * unit)
    if kind.startswith("td_"):
        return ("td", v * 1000)
    if kind == "json_obj":
        return v
    return v


def run(p):
    import os
    import fastparquet
    import pandas as pd
    from fastparquet import api
    from mc import alphabets as A, wr, oracles as O
    from mc.scratch import scratch
    from mc.specpq import file as F
    kind, ver, hn = p["kind"], p["v"], p["has_nulls"]
    key = order_key(kind)
    sigs = {}
    detail = [""]
    chunks = [0]
    refused = [0]
    ctx = {}

    def bad(symptom, msg, **extra):
        s = {"kind": kind, "v": ver, "has_nulls": hn, "symptom": symptom}
        s.update(ctx)
        s.update(extra)
        k = repr(sorted(s.items(), key=str))
        if k not in sigs:
            sigs[k] = s
            if not detail[0]:
                detail[0] = msg

    if kind == "json_obj":
        return {"ok": True, "outcome": "unordered_kind", "nontrivial": False}
    n = 6
    for prog in PROGRAMS:
        for pat in (A.patterns_for(kind) if prog != "single" else ["none"]):
            s = build_series(kind, prog, pat, n)
            if s is None:
                continue
            df = s.to_frame()
            cells = O.series_to_list(df["c"])
            for rgo in [None] + [[0, k] for k in range(1, n)]:
                thorough = p["tier"] == "thorough"
                for st in ((True, "auto", ["c"], False) if (thorough or rgo in (None, [0, 3])) else (True,)):
                    for tiny in ((False, True) if (thorough or rgo is None) else (False,)):
                        ctx.clear()
                        ctx.update({"prog": prog, "nulls": pat, "stats": str(st), "split": rgo is not None})
                        what = "%s prog=%s nulls=%s rgo=%s stats=%s tiny=%s" % (kind, prog, pat, rgo, st, tiny)
                        d = scratch()
                        path = os.path.join(d, "t.parquet")
                        try:
                            with wr.PageCfg(ver, wr.tiny_page_size(df, 2) if tiny else None):
                                fastparquet.write(path, df, row_group_offsets=rgo, stats=st, has_nulls=hn)
                        except Exception:
                            refused[0] += 1
                            continue
                        try:
                            parsed = F.read_file(open(path, "rb").read())
                        except Exception as e:
                            bad("unreadable", "%s: %s" % (what, e))
                            continue
                        node = parsed.root.children[0]
                        bounds = [0, n] if rgo is None else [0, rgo[1], n]
                        pf = fastparquet.ParquetFile(path)
                        try:
                            pstats = pf.statistics
                        except Exception as e:
                            bad("statistics_raised", "%s: ParquetFile.statistics: %s: %s" % (what, type(e).__name__, e))
                            pstats = None
                        exp_min, exp_max = [], []
                        for gi in range(len(bounds) - 1):
                            part = cells[bounds[gi]:bounds[gi + 1]]
                            nn = [c for c in part if c is not None]
                            nulls = len(part) - len(nn)
                            emin = min(nn, key=key) if nn else None
                            emax = max(nn, key=key) if nn else None
                            exp_min.append(emin)
                            exp_max.append(emax)
                            md = parsed.fmd["row_groups"][gi]["columns"][0]["meta_data"]
                            stt = md.get("statistics")
                            if nn:
                                chunks[0] += 1
                            if stt is None:
                                continue
                            smin = stt.get("min") if stt.get("min") is not None else stt.get("min_value")
                            smax = stt.get("max") if stt.get("max") is not None else stt.get("max_value")
                            optional = node.rep == F.OPTIONAL
                            if stt.get("null_count") is not None:
                                want_nulls = nulls if optional else 0
                                if stt["null_count"] != want_nulls:
                                    bad("null_count", "%s: rg %d null_count=%d, %d cells are NULL" % (what, gi, stt["null_count"], want_nulls))
                            if (smin is None) != (smax is None):
                                bad("half_present", "%s: rg %d only one of min/max present" % (what, gi))
                                continue
                            if smin is None:
                                continue
                            if not nn:
                                bad("minmax_on_all_null", "%s: rg %d has no non-null value but min/max present" % (what, gi))
                                continue
                            try:
                                gmin, gmax = decode_stat(smin, node, kind), decode_stat(smax, node, kind)
                            except Exception as e:
                                bad("undecodable", "%s: rg %d statistics bytes: %s" % (what, gi, e))
                                continue
                            if kind in ("str_obj", "str_pd") or kind.startswith("cat_str") or kind == "cat_unused":
                                gmin = gmin.decode("utf8") if isinstance(gmin, bytes) else gmin
                                gmax = gmax.decode("utf8") if isinstance(gmax, bytes) else gmax
                            try:
                                if key(gmin) > key(gmax):
                                    bad("min_gt_max", "%s: rg %d stored min %r > max %r" % (what, gi, gmin, gmax))
                                    continue
                            except TypeError:
                                pass
                            if not O.same_value(gmin, emin) or not O.same_value(gmax, emax):
                                bad("inexact", "%s: rg %d stored min/max %r/%r, data min/max %r/%r" % (what, gi, gmin, gmax, emin, emax),
                                    which="min" if not O.same_value(gmin, emin) else "max")
                                continue
                            # user-facing view
                            if pstats is not None:
                                try:
                                    umin = O.canon_cell(pstats["min"]["c"][gi]) if len(pstats["min"]["c"]) > gi else None
                                    umax = O.canon_cell(pstats["max"]["c"][gi]) if len(pstats["max"]["c"]) > gi else None
                                except Exception as e:
                                    bad("statistics_raised", "%s: view: %s" % (what, e))
                                    continue
                                if isinstance(umin, bytes) and isinstance(emin, str):
                                    umin, umax = umin.decode("utf8"), umax.decode("utf8")
                                if umin is None and umax is None:
                                    pass      # a view that declines to decode is not wrong
                                elif not O.same_value(umin, emin) or not O.same_value(umax, emax):
                                    bad("view_inexact", "%s: rg %d ParquetFile.statistics min/max %r/%r, data %r/%r" % (
                                        what, gi, umin, umax, emin, emax))
                                nc = pstats["null_count"]["c"][gi] if len(pstats["null_count"]["c"]) > gi else None
                                if nc is not None and stt.get("null_count") is not None and nc != stt["null_count"]:
                                    bad("view_null_count", "%s: rg %d view null_count %r != stored %r" % (what, gi, nc, stt["null_count"]))
                        # sorted_partitioned_columns
                        try:
                            spc = api.sorted_partitioned_columns(pf)
                        except Exception as e:
                            bad("sorted_raised", "%s: sorted_partitioned_columns: %s: %s" % (what, type(e).__name__, e))
                            spc = {}
                        if "c" in spc and len(bounds) > 2:
                            ok_sorted = all(m1 is not None and m2 is not None and key(m1) < key(m2)
                                            for m1, m2 in zip(exp_max[:-1], exp_min[1:]))
                            if not ok_sorted:
                                bad("sorted_wrong", "%s: reported as sorted across row groups but data max/min are %r / %r" % (
                                    what, exp_max, exp_min))
    ok = not sigs
    return {"ok": ok, "outcome": "exact" if ok else "inexact", "nontrivial": chunks[0] > 0,
            "counts": {"chunks": chunks[0], "refused": refused[0]}, "sig": list(sigs.values()) or None,
            "detail": detail[0]}


LEVEL_TEXT = ("Bounded-exhaustive lattice over every dtype x value-order program x null pattern x every two-way row-group "
              "split x stats setting x nullability x page version x page size; the statistics of every chunk are "
              "decoded independently from the raw footer bytes and compared with a pure-Python min/max/null count of "
              "the chunk's cells under the type's ordering, and the user-facing views are compared with the same values.")
LEVEL_NOTE = ("Trusted: specpq footer decode, Python ordering functions per type. Six rows per frame; pools of boundary "
              "values (unsigned >= 2^63, pre-epoch, +-inf, -0.0, unicode).")
TECHNIQUE = "bounded exhaustive enumeration of value orders x splits x options, independent decode of raw statistics"
