"""C04 - column statistics are exact: min/max/null_count describe the stored chunk."""
import itertools

ID = "C04"
LEVEL = "exploration"
FLAVOUR = "plain"
TIMEOUT = 900
RULE = ("lattice cell = kind x page version x has_nulls; inside: value selection (lo = the six smallest pool values; "
        "hi / xlo = the six largest / smallest of the pool extended by 2^53+1, denormal, years 1000 and 3000, sub-second "
        "stamps before and after the epoch) x value-order program (ascending, descending, min in the middle, max first, "
        "all equal, single non-null, overlapping row-group ranges, touching ranges) x null pattern x row-group split "
        "(None, every [0,k], three-way [0,2,4] [0,1,5] [0,3,4] on a two-column frame c + int64 d) x stats (True, "
        "'auto', [col], False) x page size (default, tiny) x times (int64, int96 for timestamps); kinds = the shared "
        "alphabet plus masked Float64 and a categorical with timestamp labels; quick tier: all stats settings at None, "
        "[0,3] (else True), tiny at None, [0,2,4] for every program and the other three-way splits for asc / overlap / "
        "touch, ['c'] on three-way for asc / desc, hi and xlo for asc / desc / overlap x nulls none (+ alt for asc) x "
        "None, [0,3], [0,2,4], int96 at None, [0,3] (+ [0,2,4] for asc / overlap); thorough: the full product (tiny "
        "for hi / xlo at None only); observed at three points: raw Statistics bytes decoded by specpq (the deprecated "
        "min/max and min_value/max_value, each when present), ParquetFile.statistics, sorted_partitioned_columns "
        "(verdict in both directions, returned bounds, and with a filter on d that drops the middle row group); the "
        "[0,3] stats=True files are re-footered as a writer of the current format would fill Statistics "
        "(min_value/max_value only; quick for asc, thorough always: both pairs, mixed per row group) and the views "
        "compared again, and after every filtered sorted_partitioned_columns question the handle's unfiltered answers are asked again; history cell = kind x has_nulls (thorough: x page version): on one handle, simple and hive, a filtered question that keeps one row group, "
        "statistics -> write_row_groups -> statistics -> slice -> (hive) remove_row_groups -> statistics -> "
        "write_row_groups -> statistics, each time memoised property = statistics(pf) = re-opened handle = oracle; "
        "oracle = pure-Python min/max of the non-null values of each chunk under the type's ordering; absence of "
        "min/max where the writer usually stores them and unusual refusals are counted in the evidence, not judged "
        "(the property speaks of chunks that carry statistics); a view that declines although the stored statistics "
        "are complete is judged; non-trivial = a chunk with >= 1 non-null value whose "
        "statistics were compared")
ASSUMPTIONS = ["absent min/max is never a violation; present on an all-null chunk or min > max always is",
               "floats: NaN is excluded from the order, -0.0 == 0.0", "text ordered by UTF-8 bytes (= code points)",
               "refused writes are C01's business"]

PROGRAMS = ["asc", "desc", "min_mid", "max_first", "equal", "single", "overlap", "touch"]
HI_PROGRAMS_QUICK = ["asc", "desc", "overlap"]
LOCAL_KINDS = ["Float64", "cat_dt"]
SPLITS3 = [[0, 2, 4], [0, 1, 5], [0, 3, 4]]
FOREIGN_MODES = ["new_only", "both", "mixed"]
MASKED = ("Int8", "Int16", "Int32", "Int64", "UInt8", "UInt16", "UInt32", "UInt64", "boolean", "Float64")
TEXT_KINDS = ("str_obj", "str_pd", "cat_str", "cat_str_ordered", "cat_unused")


def all_kinds():
    from mc import alphabets as A
    return list(A.ALL_KINDS) + LOCAL_KINDS


def nullable(kind):
    from mc import alphabets as A
    return kind in A.NULLABLE_KINDS or kind in LOCAL_KINDS


def patterns_for(kind):
    from mc import alphabets as A
    return A.NULLPATS if nullable(kind) else ["none"]


def points(tier):
    pts = []
    for kind in all_kinds():
        for ver in (1, 2):
            for hn in (True, False):
                pts.append({"kind": kind, "v": ver, "has_nulls": hn, "tier": tier})
    return pts


def history_points(tier):
    pts = []
    for kind in all_kinds():
        if kind == "json_obj":
            continue
        for ver in ((1, 2) if tier == "thorough" else (1,)):
            for hn in (True, False):
                pts.append({"kind": kind, "v": ver, "has_nulls": hn, "tier": tier})
    return pts


def explore(run, tier):
    run.lattice("statistics", points(tier), "run")
    run.lattice("history", history_points(tier), "run_history")


def crash_sig(point, res):
    return {"kind": point["kind"], "v": point["v"], "symptom": res["outcome"]}


# -------------------------------------------------------------------------------------
def order_key(kind):
    """sort key implementing the Parquet ordering of the column's type on canonical cells"""
    if kind in TEXT_KINDS:
        return lambda v: v.encode("utf8")
    if kind.startswith(("dt_", "td_")) or kind == "cat_dt":
        return lambda v: v[1]
    return lambda v: v


def arrange(vals, prog):
    """vals: distinct values sorted ascending under the type order"""
    n = len(vals)
    if prog == "asc":
        return list(vals)
    if prog == "desc":
        return list(reversed(vals))
    if prog == "min_mid":
        return vals[1:n // 2 + 1] + [vals[0]] + vals[n // 2 + 1:]
    if prog == "max_first":
        return [vals[-1]] + vals[:-1]
    if prog == "equal":
        return [vals[n // 2]] * n
    if prog == "overlap":
        # bounds of consecutive row groups trend upwards but the ranges overlap
        return [vals[0], vals[3 % n], vals[1], vals[4 % n], vals[2], vals[5 % n]][:n] + list(vals[6:])
    if prog == "touch":
        # the max of one row group equals the min of the next
        return [vals[0], vals[2], vals[2], vals[4 % n], vals[4 % n], vals[5 % n]][:n] + list(vals[6:])
    raise KeyError(prog)


_DT_UNIT = {"dt_s": "s", "dt_ms": "ms", "dt_us": "us", "dt_ns": "ns", "dt_ns_utc": "ns", "dt_us_paris": "us",
            "dt_ns_offset": "ns"}


def _local_series(kind):
    import numpy as np
    import pandas as pd
    if kind == "Float64":
        inf = float("inf")
        return pd.Series(pd.array([0.0, 1.5, -2.25, inf, -inf, 1.7976931348623157e308, 5e-324, -1e-300],
                                  dtype="Float64"), name="c")
    if kind == "cat_dt":
        # labels in an order that is neither ascending nor descending, one of them unused
        sec = [0, 1_600_000_000, -86_400, 4_102_444_800, 1, -2_208_988_800, 951_782_400]
        lab = pd.to_datetime(np.array(sec, dtype="int64").view("M8[s]").astype("M8[us]"))
        cats = lab[[3, 0, 5, 1, 6, 2, 4]].append(pd.to_datetime(np.array([86_400], "int64").view("M8[s]").astype("M8[us]")))
        return pd.Series(pd.Categorical(lab, categories=cats), name="c")
    raise KeyError(kind)


def value_series(kind, extended):
    """Series without NULLs holding the candidate values of the kind.
    extended=False: exactly the seven first pool values (the selection this check always used);
    extended=True: the whole pool plus boundary values that the six-smallest selection never reaches."""
    import numpy as np
    import pandas as pd
    from mc import alphabets as A
    if kind in LOCAL_KINDS:
        return _local_series(kind)
    if not extended:
        return A.series(kind, 7, "none")
    base = A.series(kind, len(A.pool(kind)), "none")
    extra = None
    if kind in ("int64", "uint64", "Int64", "UInt64"):
        extra = pd.Series([2 ** 53 + 1], dtype=base.dtype)
    elif kind in _DT_UNIT:
        unit = _DT_UNIT[kind]
        per_s = {"s": 1, "ms": 10 ** 3, "us": 10 ** 6, "ns": 10 ** 9}[unit]
        frac = {"s": 0, "ms": 123, "us": 123_456, "ns": 123_456_789}[unit]
        vals = [1_500_000_000 * per_s + frac, -82_800 * per_s + frac]      # sub-second, one of them before the epoch
        if unit != "ns":
            vals += [32_503_680_000 * per_s, -30_610_224_000 * per_s]      # years 3000 and 1000: outside the ns range
        e = pd.Series(np.array(vals, dtype="int64").view("M8[%s]" % unit))
        tz = getattr(base.dtype, "tz", None)
        if tz is not None:
            e = e.dt.tz_localize("UTC").dt.tz_convert(tz)
        extra = e
    if extra is not None:
        out = pd.concat([base, extra], ignore_index=True)
        if out.dtype != base.dtype:
            raise AssertionError("value_series: dtype %s became %s" % (base.dtype, out.dtype))
        out.name = "c"
        return out
    return base


def build_series(kind, prog, pat, n=6, sel="lo"):
    """Series of n rows whose non-null values follow the order program.
    sel='lo': the n smallest distinct pool values; sel='hi' / 'xlo': the n largest / smallest of the extended pool
    (None when that is not a different selection)."""
    import pandas as pd
    from mc import oracles as O
    base = value_series(kind, sel != "lo")
    cells = O.series_to_list(base)
    key = order_key(kind)
    # distinct by canonical value, order by type order; keep original position to rebuild the Series
    seen = {}
    for i, c in enumerate(cells):
        if kind.lower().startswith("float") and c is not None and c == 0.0:
            c0 = 0.0
        else:
            c0 = c
        if repr(c0) not in seen and not isinstance(c, (dict, list)):
            seen[repr(c0)] = i
    idx = sorted(seen.values(), key=lambda i: key(cells[i]))
    if len(idx) < 2:
        return None
    if sel == "hi":
        if len(idx) <= n:
            return None
        idx = idx[-n:]
    elif sel == "xlo":
        # the n smallest of the extended pool, when they are not the 'lo' selection again
        lo = build_series(kind, "asc", "none", n, "lo")
        if lo is None or len(idx) <= n or O.series_to_list(lo) == [cells[i] for i in idx[:n]]:
            return None
    idx = (idx * 3)[:n] if len(idx) < n else idx[:n]
    idx = sorted(set(idx), key=lambda i: key(cells[i]))
    while len(idx) < n:
        idx = idx + idx[: n - len(idx)]
    idx = sorted(idx, key=lambda i: key(cells[i]))
    if prog == "single":
        order = [idx[0]] * n
        mask = [i != n // 2 for i in range(n)]
        if not nullable(kind):
            return None
    else:
        from mc import alphabets as A
        order = arrange(idx, prog)
        mask = A.nullmask(pat, n)
    s = base.iloc[order].reset_index(drop=True)
    if any(mask):
        if not nullable(kind):
            return None
        s = s.copy()
        m = pd.Series(mask)
        s = s.where(~m, other=(pd.NA if kind in MASKED else None)) \
            if not kind.startswith("cat_") else s.where(~m)
    s.name = "c"
    return s


def decode_stat(raw, node, kind):
    """raw Statistics bytes -> canonical cell"""
    import struct
    from mc.specpq import file as F, codecs as C
    if raw is None:
        return None
    raw = bytes(raw) if not isinstance(raw, str) else raw.encode("utf8")
    t = node.type
    if t == F.T_BYTE_ARRAY:
        v = raw
    elif t == F.T_FLBA:
        v = raw
    elif t == F.T_BOOLEAN:
        v = bool(raw[0] & 1)
    elif t == F.T_INT96:
        ns, day = struct.unpack("<qi", raw)
        return ("ts", ns + (day - 2440588) * 86400 * 10 ** 9)
    else:
        v = C.plain_decode(raw, 0, len(raw), 1, t)[0][0]
    v = F.logical(v, node)
    if kind.startswith("dt_") or kind == "cat_dt":
        ct, lt = node.ct, node.lt or {}
        unit = 1
        if ct == F.CT["TIMESTAMP_MILLIS"]:
            unit = 10 ** 6
        elif ct == F.CT["TIMESTAMP_MICROS"]:
            unit = 10 ** 3
        elif "TIMESTAMP" in lt:
            u = lt["TIMESTAMP"]["unit"]
            unit = 10 ** 6 if "MILLIS" in u else (10 ** 3 if "MICROS" in u else 1)
        return ("ts", v * unit)
    if kind.startswith("td_"):
        return ("td", v * 1000)
    if kind == "json_obj":
        return v
    return v


# ------------------------------------------------------------------------------------- pinned expectations
def expect_minmax(kind, st, col, dtype_kind, nn, nulls):
    """does the writer, as it stands, write min/max for this chunk?  True / False (= may be absent)."""
    if not nn or kind == "json_obj":
        return False
    if st is False:
        return False
    if st == "auto":
        return dtype_kind in ("i", "u", "f", "M")
    if isinstance(st, list) and col not in st:
        return False
    if kind in ("str_obj", "bytes_obj") and nulls:
        return False        # Series.max() of an object column holding None raises: the writer declines
    return True


NS_RANGE = (-(2 ** 63) + 1, 2 ** 63 - 1)


def refusal_allowed(kind, hn, cells, times="int64"):
    """has_nulls=False on data with NULLs of a kind that has no in-band missing value; int96 (nanoseconds of the day
    computed through datetime64[ns]) for stamps outside the nanosecond range"""
    if times == "int96" and any(x is not None and not (NS_RANGE[0] <= x[1] <= NS_RANGE[1]) for x in cells):
        return True
    if hn or not any(x is None for x in cells):
        return False
    return not (kind.lower().startswith("float") or kind.startswith(("dt_", "td_")))


class Ctx:
    """violation collector shared by the comparison helpers"""

    def __init__(self, kind, ver, hn):
        self.kind, self.ver, self.hn = kind, ver, hn
        self.sigs = {}
        self.detail = ""
        self.ctx = {}
        self.counts = {"chunks": 0, "refused": 0, "raw_compared": 0, "view_compared": 0, "spc_reported": 0,
                       "spc_filtered": 0, "foreign_files": 0, "history_steps": 0, "new_pair_compared": 0}

    def bad(self, symptom, msg, **extra):
        s = {"kind": self.kind, "v": self.ver, "has_nulls": self.hn, "symptom": symptom}
        s.update(self.ctx)
        s.update(extra)
        k = repr(sorted(s.items(), key=str))
        if k not in self.sigs:
            self.sigs[k] = s
            if not self.detail:
                self.detail = msg

    def result(self):
        ok = not self.sigs
        return {"ok": ok, "outcome": "exact" if ok else "inexact", "nontrivial": self.counts["raw_compared"] > 0
                or self.counts["view_compared"] > 0,
                "counts": dict(self.counts), "sig": list(self.sigs.values()) or None, "detail": self.detail}


def expected_chunks(cells, bounds, key):
    out = []
    for gi in range(len(bounds) - 1):
        part = cells[bounds[gi]:bounds[gi + 1]]
        nn = [c for c in part if c is not None]
        out.append({"n": len(part), "nn": len(nn), "nulls": len(part) - len(nn),
                    "min": min(nn, key=key) if nn else None, "max": max(nn, key=key) if nn else None})
    return out


def _textify(kind, v):
    if kind in TEXT_KINDS and isinstance(v, bytes):
        return v.decode("utf8")
    return v


def compare_raw(c, what, col, kind, node, stt, e, gi, st, dtype_kind):
    """one chunk's Statistics struct (specpq dict) against the expected chunk; returns True when min/max are
    present and exact"""
    from mc import oracles as O
    from mc.specpq import file as F
    key = order_key(kind)
    must = expect_minmax(kind, st, col, dtype_kind, e["nn"], e["nulls"])
    if stt is None:
        if must:
            # the property speaks of chunks that carry statistics: their absence is counted, not judged
            c.counts["absent_where_usual"] = c.counts.get("absent_where_usual", 0) + 1
        return False
    optional = node.rep == F.OPTIONAL
    if stt.get("null_count") is not None:
        want_nulls = e["nulls"] if optional else 0
        if stt["null_count"] != want_nulls:
            c.bad("null_count", "%s: %s rg %d null_count=%d, %d cells are NULL" % (what, col, gi, stt["null_count"], want_nulls), col=col)
    pairs = []
    if stt.get("min") is not None or stt.get("max") is not None:
        pairs.append(("deprecated", stt.get("min"), stt.get("max")))
    if stt.get("min_value") is not None or stt.get("max_value") is not None:
        pairs.append(("value", stt.get("min_value"), stt.get("max_value")))
    if not pairs:
        if must:
            c.counts["absent_where_usual"] = c.counts.get("absent_where_usual", 0) + 1
        return False
    good = True
    for which, smin, smax in pairs:
        if (smin is None) != (smax is None):
            c.bad("half_present", "%s: %s rg %d only one of min/max present (%s pair)" % (what, col, gi, which), col=col)
            good = False
            continue
        if not e["nn"]:
            c.bad("minmax_on_all_null", "%s: %s rg %d has no non-null value but min/max present" % (what, col, gi), col=col)
            good = False
            continue
        try:
            gmin, gmax = decode_stat(smin, node, kind), decode_stat(smax, node, kind)
        except Exception as ex:
            c.bad("undecodable", "%s: %s rg %d statistics bytes: %s" % (what, col, gi, ex), col=col)
            good = False
            continue
        gmin, gmax = _textify(kind, gmin), _textify(kind, gmax)
        try:
            if key(gmin) > key(gmax):
                c.bad("min_gt_max", "%s: %s rg %d stored min %r > max %r" % (what, col, gi, gmin, gmax), col=col)
                good = False
                continue
        except TypeError:
            pass
        if not O.same_value(gmin, e["min"]) or not O.same_value(gmax, e["max"]):
            wrong = "min" if not O.same_value(gmin, e["min"]) else "max"
            extra = {}
            if isinstance(e[wrong], tuple) and not (NS_RANGE[0] <= e[wrong][1] <= NS_RANGE[1]):
                extra["bound"] = "outside_ns"
            c.bad("inexact", "%s: %s rg %d stored min/max %r/%r (%s pair), data min/max %r/%r" % (
                what, col, gi, gmin, gmax, which, e["min"], e["max"]), which=wrong, col=col, **extra)
            good = False
            continue
        if which == "value":
            c.counts["new_pair_compared"] += 1
    if good:
        c.counts["raw_compared"] += 1
    return good


def compare_view(c, what, col, kind, pstats, exps, present, null_counts):
    """ParquetFile.statistics of one column against the expected chunks.
    present[gi]: the chunk carries exact raw min/max; null_counts[gi]: stored null_count or None"""
    from mc import oracles as O
    if pstats is None:
        return
    try:
        vmin, vmax, vnc = pstats["min"][col], pstats["max"][col], pstats["null_count"][col]
    except Exception as ex:
        c.bad("statistics_raised", "%s: view of %s: %s: %s" % (what, col, type(ex).__name__, ex), col=col)
        return
    if all(present) and present:
        # every chunk carries bounds: the view has nothing to decline
        if len(vmin) != len(exps) or len(vmax) != len(exps) or any(x is None for x in list(vmin) + list(vmax)):
            c.bad("view_missing", "%s: every chunk of %s carries min/max but ParquetFile.statistics gives %r / %r" % (
                what, col, vmin, vmax), col=col)
    for gi, e in enumerate(exps):
        if present[gi]:
            try:
                umin = O.canon_cell(vmin[gi]) if len(vmin) > gi else None
                umax = O.canon_cell(vmax[gi]) if len(vmax) > gi else None
            except Exception as ex:
                c.bad("statistics_raised", "%s: view: %s" % (what, ex), col=col)
                continue
            if isinstance(umin, bytes) and isinstance(e["min"], str):
                umin, umax = umin.decode("utf8"), umax.decode("utf8")
            if umin is None and umax is None:
                pass      # a view that declines to decode is not wrong (view_missing covers the all-present case)
            elif not O.same_value(umin, e["min"]) or not O.same_value(umax, e["max"]):
                c.bad("view_inexact", "%s: %s rg %d ParquetFile.statistics min/max %r/%r, data %r/%r" % (
                    what, col, gi, umin, umax, e["min"], e["max"]), col=col)
            else:
                c.counts["view_compared"] += 1
        nc = vnc[gi] if len(vnc) > gi else None
        if nc is not None and null_counts[gi] is not None and nc != null_counts[gi]:
            c.bad("view_null_count", "%s: %s rg %d view null_count %r != stored %r" % (what, col, gi, nc, null_counts[gi]), col=col)
        elif nc is None and null_counts[gi] is not None:
            c.bad("view_null_count", "%s: %s rg %d view null_count missing, stored %r" % (what, col, gi, null_counts[gi]), col=col)


def compare_spc(c, what, col, kind, spc, exps, present, label="sorted"):
    """sorted_partitioned_columns verdict and returned bounds for one column"""
    from mc import oracles as O
    key = order_key(kind)
    really = all(e["nn"] for e in exps) and all(
        key(a["max"]) < key(b["min"]) for a, b in zip(exps[:-1], exps[1:]))
    if col in spc:
        c.counts["spc_reported"] += 1
        if len(exps) > 1 and not really:
            c.bad(label + "_wrong", "%s: %s reported as sorted across row groups but data max/min are %r / %r" % (
                what, col, [e["max"] for e in exps], [e["min"] for e in exps]), col=col)
            return
        if not all(present):
            return      # a raw bound is already reported wrong (or absent): nothing independent to add
        try:
            gmin = [O.canon_cell(x) for x in spc[col]["min"]]
            gmax = [O.canon_cell(x) for x in spc[col]["max"]]
        except Exception as ex:
            c.bad(label + "_raised", "%s: bounds returned for %s: %s" % (what, col, ex), col=col)
            return
        gmin = [_textify(kind, x) for x in gmin]
        gmax = [_textify(kind, x) for x in gmax]
        emin, emax = [e["min"] for e in exps], [e["max"] for e in exps]
        if len(gmin) != len(emin) or len(gmax) != len(emax) or not all(
                O.same_value(a, b) for a, b in zip(gmin + gmax, emin + emax)):
            c.bad(label + "_bounds", "%s: sorted_partitioned_columns[%s] = %r / %r, data min/max per row group %r / %r" % (
                what, col, gmin, gmax, emin, emax), col=col)
    elif exps and all(present) and really:
        c.bad(label + "_missed", "%s: %s has exact bounds on every row group, strictly increasing (%r / %r), "
              "but is not reported as sorted" % (what, col, [e["min"] for e in exps], [e["max"] for e in exps]), col=col)


def check_file(c, what, path, cols, bounds, st, parsed, filters=None, kept=None):
    """all three observation points for one written file.
    cols: [(name, kind, cells, dtype_kind)]; returns the open ParquetFile (or None)"""
    import fastparquet
    from fastparquet import api
    pf = fastparquet.ParquetFile(path)
    try:
        pstats = pf.statistics
    except Exception as ex:
        c.bad("statistics_raised", "%s: ParquetFile.statistics: %s: %s" % (what, type(ex).__name__, ex))
        pstats = None
    try:
        spc = api.sorted_partitioned_columns(pf)
    except Exception as ex:
        c.bad("sorted_raised", "%s: sorted_partitioned_columns: %s: %s" % (what, type(ex).__name__, ex))
        spc = None
    names = [n.name for n in parsed.root.children]
    per_col = {}
    for col, kind, cells, dtype_kind in cols:
        if col not in names:
            c.bad("unreadable", "%s: column %s not in the schema %r" % (what, col, names))
            continue
        ci = names.index(col)
        node = parsed.root.children[ci]
        exps = expected_chunks(cells, bounds, order_key(kind))
        present, ncs = [], []
        for gi, e in enumerate(exps):
            md = parsed.fmd["row_groups"][gi]["columns"][ci]["meta_data"]
            stt = md.get("statistics")
            if e["nn"]:
                c.counts["chunks"] += 1
            present.append(compare_raw(c, what, col, kind, node, stt, e, gi, st, dtype_kind))
            ncs.append(stt.get("null_count") if stt else None)
            if isinstance(st, list) and col not in st and stt is not None and (
                    stt.get("min") is not None or stt.get("max") is not None or stt.get("min_value") is not None
                    or stt.get("max_value") is not None):
                c.counts["unlisted_column_with_stats"] = c.counts.get("unlisted_column_with_stats", 0) + 1   # exactness is still judged
        compare_view(c, what, col, kind, pstats, exps, present, ncs)
        if spc is not None:
            compare_spc(c, what, col, kind, spc, exps, present)
        per_col[col] = (kind, exps, present)
    if filters is not None and spc is not None:
        # which row groups survive is another property's business: take the library's answer, check the sub-setting
        try:
            idx = list(api.filter_row_groups(pf, filters, as_idx=True))
            fspc = api.sorted_partitioned_columns(pf, filters=filters)
        except Exception as ex:
            c.bad("sorted_raised", "%s: sorted_partitioned_columns(filters=%r): %s: %s" % (what, filters, type(ex).__name__, ex))
            return pf
        if kept is not None and idx == kept:
            c.counts["spc_filtered"] += 1
        for col, (kind, exps, present) in per_col.items():
            # a column with a chunk lacking bounds is summarised as unusable before the selection: no completeness
            compare_spc(c, what + " filters=%r kept=%r" % (filters, idx), col, kind, fspc, [exps[i] for i in idx],
                        [all(present)] * len(idx), label="sorted_filtered")
        # the filtered question must not have changed what the handle answers afterwards
        try:
            after, spc2 = pf.statistics, api.sorted_partitioned_columns(pf)
        except Exception as ex:
            c.bad("statistics_raised", "%s: after sorted_partitioned_columns(filters=%r): %s: %s" % (what, filters, type(ex).__name__, ex))
            return pf
        if pstats is not None and repr(after) != repr(api.statistics(pf)):
            c.bad("view_stale", "%s: after sorted_partitioned_columns(filters=%r) kept=%r ParquetFile.statistics is %r, "
                  "statistics(pf) %r" % (what, filters, idx, after["max"], api.statistics(pf)["max"]), after="filtered_query")
        if repr(spc2) != repr(spc):
            c.bad("sorted_stale", "%s: after sorted_partitioned_columns(filters=%r) kept=%r the unfiltered answer is %r, "
                  "before it was %r" % (what, filters, idx, spc2, spc), after="filtered_query")
    return pf


def refooter(path, out, mode, footer_start):
    """rewrite the footer the way a writer of the current format version fills Statistics:
    new_only = min_value/max_value instead of min/max; both = both pairs; mixed = rg 0 old style, the others new_only"""
    import struct
    import fastparquet
    pf = fastparquet.ParquetFile(path)
    for gi, rg in enumerate(pf.fmd.row_groups):
        for ch in rg.columns:
            s = ch.meta_data.statistics
            if s is None or (s.min is None and s.max is None):
                continue
            if mode == "mixed" and gi == 0:
                continue
            s.min_value, s.max_value = s.min, s.max
            if mode != "both":
                s.min = None
                s.max = None
    foot = bytes(pf.fmd.to_bytes())
    data = open(path, "rb").read()
    with open(out, "wb") as f:
        f.write(data[:footer_start] + foot + struct.pack("<I", len(foot)) + b"PAR1")


def run(p):
    import os
    import fastparquet
    import pandas as pd
    from mc import wr, oracles as O
    from mc.scratch import scratch
    from mc.specpq import file as F
    kind, ver, hn = p["kind"], p["v"], p["has_nulls"]
    c = Ctx(kind, ver, hn)
    if kind == "json_obj":
        return {"ok": True, "outcome": "unordered_kind", "nontrivial": False}
    n = 6
    thorough = p["tier"] == "thorough"
    is_dt = kind.startswith("dt_")
    for sel in ("lo", "hi", "xlo"):
        progs = PROGRAMS if (sel == "lo" or thorough) else HI_PROGRAMS_QUICK
        for prog in progs:
            pats = patterns_for(kind) if prog != "single" else ["none"]
            if sel != "lo" and not thorough:
                pats = [q for q in pats if q == "none" or (q == "alt" and prog == "asc")]
            for pat in pats:
                s = build_series(kind, prog, pat, n, sel)
                if s is None:
                    continue
                df1 = s.to_frame()
                df2 = s.to_frame()
                df2["d"] = pd.Series([n - 1 - i for i in range(n)], dtype="int64")
                cells = O.series_to_list(df1["c"])
                dcells = [n - 1 - i for i in range(n)]
                dk = getattr(s.dtype, "kind", "O")
                if sel == "lo":
                    splits = [None] + [[0, k] for k in range(1, n)] + SPLITS3
                else:
                    splits = [None, [0, 3]] + (SPLITS3 if thorough else SPLITS3[:1])
                for rgo in splits:
                    three = rgo is not None and len(rgo) == 3
                    if three:
                        if not thorough and rgo != SPLITS3[0] and prog not in ("asc", "overlap", "touch"):
                            continue
                        sts = (True, "auto", ["c"], False) if thorough else (
                            (True, ["c"]) if (rgo == SPLITS3[0] and prog in ("asc", "desc")) else (True,))
                    elif sel != "lo" and not thorough:
                        sts = (True,)
                    else:
                        sts = (True, "auto", ["c"], False) if (thorough or rgo in (None, [0, 3])) else (True,)
                    for st in sts:
                        tinies = (False, True) if ((thorough and (sel == "lo" or rgo is None))
                                                   or (rgo is None and sel == "lo")) else (False,)
                        for tiny in tinies:
                            times_opts = ("int64", "int96") if (is_dt and st is True and not tiny and (
                                thorough or rgo in (None, [0, 3]) or (rgo == SPLITS3[0] and prog in ("asc", "overlap")))
                            ) else ("int64",)
                            for times in times_opts:
                                df = df2 if three else df1
                                c.ctx = {"prog": prog, "nulls": pat, "stats": str(st), "split": rgo is not None}
                                if three:
                                    c.ctx["rgs"] = 3
                                if sel != "lo":
                                    c.ctx["sel"] = sel
                                if times != "int64":
                                    c.ctx["times"] = times
                                what = "%s sel=%s prog=%s nulls=%s rgo=%s stats=%s tiny=%s times=%s" % (
                                    kind, sel, prog, pat, rgo, st, tiny, times)
                                d = scratch()
                                path = os.path.join(d, "t.parquet")
                                try:
                                    with wr.PageCfg(ver, wr.tiny_page_size(df, 2) if tiny else None):
                                        fastparquet.write(path, df, row_group_offsets=rgo, stats=st, has_nulls=hn,
                                                          times=times)
                                except Exception as ex:
                                    c.counts["refused"] += 1
                                    if not refusal_allowed(kind, hn, cells, times):
                                        c.counts["unusual_refusals"] = c.counts.get("unusual_refusals", 0) + 1   # C01's business
                                    continue
                                try:
                                    parsed = F.read_file(open(path, "rb").read())
                                except Exception as ex:
                                    c.bad("unreadable", "%s: %s" % (what, ex))
                                    continue
                                bounds = [0, n] if rgo is None else list(rgo) + [n]
                                cols = [("c", kind, cells, dk)]
                                filters = kept = None
                                if three:
                                    cols.append(("d", "int64", dcells, "i"))
                                    # d runs n-1 .. 0: the middle row group is the one whose range lies inside (lo, hi)
                                    hi_d, lo_d = dcells[bounds[1]], dcells[bounds[2] - 1]
                                    filters = [[("d", ">", hi_d)], [("d", "<", lo_d)]]
                                    kept = [0, 2]
                                try:
                                    check_file(c, what, path, cols, bounds, st, parsed, filters, kept)
                                except Exception as ex:
                                    c.bad("statistics_raised", "%s: %s: %s" % (what, type(ex).__name__, ex))
                                    continue
                                # the same data pages under a footer that uses the min_value / max_value fields
                                if rgo == [0, 3] and st is True and not tiny and (thorough or sel == "lo"):
                                    modes = FOREIGN_MODES if (thorough or prog == "asc") else FOREIGN_MODES[:1]
                                    for mode in modes:
                                        c.ctx["footer"] = mode
                                        w2 = what + " footer=" + mode
                                        path2 = os.path.join(d, "f_%s.parquet" % mode)
                                        try:
                                            refooter(path, path2, mode, parsed.footer_start)
                                            parsed2 = F.read_footer(open(path2, "rb").read())
                                        except Exception as ex:
                                            c.bad("harness_refooter", "%s: %s: %s" % (w2, type(ex).__name__, ex))
                                            continue
                                        c.counts["foreign_files"] += 1
                                        try:
                                            check_file(c, w2, path2, cols, bounds, st, parsed2)
                                        except Exception as ex:
                                            c.bad("statistics_raised", "%s: %s: %s" % (w2, type(ex).__name__, ex))
    return c.result()


# ------------------------------------------------------------------------------------- history on one handle
def _thrift_view(pf, col):
    """(present, null_counts) per row group from the handle's own metadata"""
    present, ncs = [], []
    for rg in pf.row_groups:
        ch = [x for x in rg.columns if list(x.meta_data.path_in_schema) == [col]][0]
        s = ch.meta_data.statistics
        present.append(s is not None and ((s.min is not None and s.max is not None)
                                          or (s.min_value is not None and s.max_value is not None)))
        ncs.append(s.null_count if s is not None else None)
    return present, ncs


def _check_handle(c, what, pf, kind, chunks, path):
    """the memoised view of a handle, the function view, a re-opened handle and the oracle must all agree"""
    import fastparquet
    from fastparquet import api
    key = order_key(kind)
    exps = []
    for part in chunks:
        exps.extend(expected_chunks(part, [0, len(part)], key))
    try:
        memo = pf.statistics
        fresh = api.statistics(pf)
        spc = api.sorted_partitioned_columns(pf)
    except Exception as ex:
        c.bad("statistics_raised", "%s: %s: %s" % (what, type(ex).__name__, ex))
        return
    if len(pf.row_groups) != len(exps):
        c.bad("harness_history", "%s: handle has %d row groups, program expects %d" % (what, len(pf.row_groups), len(exps)))
        return
    if repr(memo) != repr(fresh):
        c.bad("view_stale", "%s: ParquetFile.statistics %r differs from statistics(pf) %r" % (
            what, memo["max"], fresh["max"]))
    if path is not None:
        try:
            again = fastparquet.ParquetFile(path).statistics
            if repr(again) != repr(fresh):
                c.bad("view_stale", "%s: statistics(pf) %r differs from a re-opened handle %r" % (what, fresh["max"], again["max"]))
        except Exception as ex:
            c.bad("statistics_raised", "%s: reopen: %s: %s" % (what, type(ex).__name__, ex))
    present, ncs = _thrift_view(pf, "c")
    for gi, e in enumerate(exps):
        if ncs[gi] is not None and ncs[gi] not in (e["nulls"], 0):
            c.bad("null_count", "%s: rg %d null_count=%r, %d cells are NULL" % (what, gi, ncs[gi], e["nulls"]))
        if present[gi] and not e["nn"]:
            c.bad("minmax_on_all_null", "%s: rg %d has no non-null value but min/max present" % (what, gi))
            present[gi] = False
    compare_view(c, what, "c", kind, memo, exps, present, ncs)
    compare_spc(c, what, "c", kind, spc, exps, present)
    c.counts["history_steps"] += 1


HISTORY_FILTER_KINDS = ("int64", "int32", "float64", "str_obj", "dt_ns", "dt_us", "Int64", "uint8", "bool", "cat_str")


def run_history(p):
    import os
    import fastparquet
    from fastparquet import api
    from mc import wr, oracles as O
    from mc.scratch import scratch
    kind, ver, hn = p["kind"], p["v"], p["has_nulls"]
    c = Ctx(kind, ver, hn)
    n = 6
    for prog, pat in (("asc", "none"), ("asc", "alt"), ("desc", "none"), ("overlap", "first")):
        if pat != "none" and not nullable(kind):
            continue
        if p["tier"] != "thorough" and prog != "asc":
            continue
        s = build_series(kind, prog, pat, n)
        if s is None:
            continue
        df = s.to_frame()
        cells = O.series_to_list(df["c"])
        for scheme in ("simple", "hive"):
            c.ctx = {"prog": prog, "nulls": pat, "scheme": scheme, "history": True}
            what = "%s history prog=%s nulls=%s scheme=%s" % (kind, prog, pat, scheme)
            d = scratch()
            path = os.path.join(d, "t.parquet" if scheme == "simple" else "ds")
            try:
                with wr.PageCfg(ver, None):
                    fastparquet.write(path, df, row_group_offsets=[0, 3], stats=True, has_nulls=hn, file_scheme=scheme)
            except Exception as ex:
                c.counts["refused"] += 1
                if not refusal_allowed(kind, hn, cells):
                    c.counts["unusual_refusals"] = c.counts.get("unusual_refusals", 0) + 1
                continue
            try:
                pf = fastparquet.ParquetFile(path)
                chunks = [cells[0:3], cells[3:6]]
                _check_handle(c, what + " step=open", pf, kind, chunks, path)
                # a filtered question that keeps one row group, then the same unfiltered questions again
                first = [x for x in chunks[0] if x is not None and x == x]
                if first and kind in HISTORY_FILTER_KINDS:
                    c.ctx["step"] = "filtered_query"
                    try:
                        kept = list(api.filter_row_groups(pf, [("c", "==", first[0])], as_idx=True))
                        api.sorted_partitioned_columns(pf, filters=[("c", "==", first[0])])
                    except Exception:
                        kept = None     # what a filter accepts is C05's business
                    if kept is not None:
                        if len(kept) < len(chunks):
                            c.counts["history_filtered_pruned"] = c.counts.get("history_filtered_pruned", 0) + 1
                        _check_handle(c, what + " step=filtered_query", pf, kind, chunks, path)
                # the handle has memoised its statistics: now it grows
                c.ctx["step"] = "append"
                with wr.PageCfg(ver, None):
                    pf.write_row_groups(df.iloc[1:3], stats=True)
                chunks = chunks + [cells[1:3]]
                _check_handle(c, what + " step=append", pf, kind, chunks, path)
                c.ctx["step"] = "slice"
                _check_handle(c, what + " step=slice", pf[1:], kind, chunks[1:], None)
                if scheme == "hive":
                    c.ctx["step"] = "remove"
                    pf.remove_row_groups(pf.row_groups[0])
                    chunks = chunks[1:]
                    _check_handle(c, what + " step=remove", pf, kind, chunks, path)
                    c.ctx["step"] = "append2"
                    with wr.PageCfg(ver, None):
                        pf.write_row_groups(df.iloc[0:1], stats=True)
                    chunks = chunks + [cells[0:1]]
                    _check_handle(c, what + " step=append2", pf, kind, chunks, path)
            except Exception as ex:
                c.bad("history_raised", "%s step=%s: %s: %s" % (what, c.ctx.get("step", "open"), type(ex).__name__, ex))
    return c.result()


LEVEL_TEXT = ("Bounded-exhaustive lattice over every dtype (plus masked Float64 and a categorical with timestamp labels) "
              "x two value selections (smallest / largest incl. 2^53+1, years 1000 and 3000, sub-second stamps) x "
              "value-order program x null pattern x every two-way and three three-way row-group splits (the latter on a "
              "two-column frame) x stats setting x nullability x page version x page size x times (int64, int96); the "
              "statistics of every chunk are decoded independently from the raw footer bytes (deprecated and new field "
              "pair) and compared with a pure-Python min/max/null count of the chunk's cells under the type's ordering; "
              "the user-facing views (statistics, sorted_partitioned_columns incl. its returned bounds and its filters "
              "argument) are compared with the same values, also under re-written footers that carry only "
              "min_value/max_value, and along a history of appends, removals and slices on one memoising handle. "
              "How often min/max are absent where the writer usually stores them is reported in the evidence counts.")
LEVEL_NOTE = ("Trusted: specpq footer decode, Python ordering functions per type. Six rows per frame; pools of boundary "
              "values (unsigned >= 2^63, signed / unsigned maxima, 2^53+1, pre-epoch, outside the ns range, +-inf, "
              "denormal, -0.0, unicode). Foreign footers are produced by re-serialising the library's own footer object "
              "and validated with specpq.")
TECHNIQUE = "bounded exhaustive enumeration of value orders x splits x options x handle histories, independent decode of raw statistics"
