"""C07 - append adds rows at the end and leaves existing data untouched.

Explorer H: BFS over append histories.  Every transition re-creates the dataset
from the initial write and replays the history with the real API, re-opening
from disk for every step; invariants are evaluated after the last step.
A second, small lattice replays depth-2 histories on ONE ParquetFile handle
(write_row_groups) and compares what that handle serves with a fresh open.
"""
import hashlib

ID = "C07"
LEVEL = "model_checking"
FLAVOUR = "plain"
TIMEOUT = 300
RULE = ("narrow schema = a int64, s text (nullable), c categorical(str), p int64; wide schema = narrow + q text, f float64 "
        "(NaN), t datetime64[ns, Europe/Paris] (NaT), b bool, i Int64 (NA); "
        "initial states with the full alphabet (narrow schema) = file_scheme {simple, hive, drill} x partition_on {none, "
        "[p]} x written index {no, int64 'idx'}, initial write of 4 rows in 2 row groups; "
        "initial states with the small alphabet: narrow schema, layouts {hive with 10 one-row part files, two foreign-named "
        "files gathered with merge(), one file of 2 row groups gathered with merge(), empty simple file, empty hive "
        "dataset}; wide schema, {hive partition_on [p, q] x written index {no, 'idx'}} + index kinds {default RangeIndex "
        "(write_index=None), a RangeIndex not starting at 0 stored with write_index=True, unnamed non-range index, 2-level MultiIndex with new level values in every batch and c as "
        "text} x {simple, hive [p]} (thorough: also hive unpartitioned); "
        "operation alphabet (full) = 6 schema-compatible frames (3 rows, 1 row, 0 rows, with nulls, categorical "
        "with new labels, categorical with a subset of labels) x row_group_offsets {None, 1} x compression {None, SNAPPY} "
        "+ uncompressed specials {categorical with 128 labels; categorical with 70 labels that change from batch to batch; categorical without any label (all values missing); and, only as the last operation of a history: columns in "
        "reverse order, 3 rows with offsets [0,1], 3 rows with offsets [0,3] (empty last chunk), 0 rows with offsets [0]}; "
        "quick: 31 operations at level 1, the 12 uncompressed base operations + the three categorical specials at level 2; thorough: "
        "31 at levels 1-2, 24 + the three categorical specials at level 3; "
        "small alphabet = 9 frames (6 + the three categorical specials) x row_group_offsets {None, 1} uncompressed at level 1, x {None} at "
        "level 2 (quick; depth 1 only for the default-range and unnamed index kinds); thorough: the full 29 at level 1, "
        "14 at level 2, 7 at level 3; "
        "BFS to depth 2 (quick) / 3 (thorough), states hashed by the bytes of every file of the dataset; every "
        "transition = fastparquet.write(..., append=True) on the real dataset followed by a fresh open; "
        "invariants: content == concatenation of the model frames (block by block, written index included - as part of "
        "the row when partitioned), column dtypes == those served for the initial dataset, count() and "
        "FileMetaData.num_rows == model, bytes before the old footer unchanged (single file), every pre-existing data "
        "file byte-identical, new files freshly named, data files on disk == files referenced by _metadata, every new "
        "part file read on its own == its row groups in the dataset, _common_metadata schema and pandas metadata == "
        "_metadata (multi-file); "
        "same-handle lattice (narrow schema) = {simple, hive, hive [p]} x 7 frames x 7 frames appended through one "
        "ParquetFile.write_row_groups handle whose statistics / categories / to_pandas were used before: after every "
        "step rows, dtypes, count, num_rows, number of row groups and statistics served by that handle == those of a "
        "fresh open")
ASSUMPTIONS = ["within one append to a partitioned dataset row order is not compared (rows are regrouped by partition)",
               "categorical cells compared by label",
               "the index of a dataset written without an index column (write_index=False or default RangeIndex) is "
               "not compared; index names are not compared",
               "the model rows are the canonical cells of the frames handed to fastparquet.write (pandas trusted)"]

FRAMES = ["three", "one", "zero", "nulls", "cat_new", "cat_subset"]
SMALL_FRAMES = FRAMES + ["cat_wide", "cat_mid", "cat_none"]
COLS = ("a", "s", "c", "p", "q", "f", "t", "b", "i")        # wide schema
NARROW = COLS[:4]
WIDE = ["L%03d" % i for i in range(126)] + ["u", "v"]          # 128 labels: one more than int8 codes can address


def initial_states(tier="quick"):
    out = []
    for scheme in ("simple", "hive", "drill"):
        for part in ((False, True) if scheme != "simple" else (False,)):
            for widx in (False, True):
                out.append({"scheme": scheme, "part": part, "widx": widx})
    # ---- small-alphabet states
    out.append({"scheme": "hive", "part": False, "widx": False, "layout": "hive10"})
    out.append({"scheme": "hive", "part": False, "widx": False, "layout": "merged"})
    out.append({"scheme": "hive", "part": False, "widx": False, "layout": "merged_rg"})
    out.append({"scheme": "simple", "part": False, "widx": False, "layout": "empty"})
    out.append({"scheme": "hive", "part": False, "widx": False, "layout": "empty"})
    # ---- small-alphabet states on the wide schema
    out.append({"scheme": "hive", "part": "pq", "widx": False, "wide": True})
    out.append({"scheme": "hive", "part": "pq", "widx": True, "wide": True})
    for widx in ("range", "unnamed", "multi", "range_written"):
        out.append({"scheme": "simple", "part": False, "widx": widx, "wide": True})
        out.append({"scheme": "hive", "part": True, "widx": widx, "wide": True})
        if tier == "thorough":
            out.append({"scheme": "hive", "part": False, "widx": widx, "wide": True})
    return out


def small(init):
    """initial states explored with the small operation alphabet"""
    return bool(init.get("layout")) or bool(init.get("wide"))


def max_depth(init, tier):
    if tier == "thorough":
        return 3
    # quick: the default-range and unnamed index kinds only differ from the named index in how the appended frame
    # is reshaped: one append shows it
    return 1 if init["widx"] in ("range", "unnamed", "range_written") else 2


def final_only(op):
    """operations that only end a history (their successors are those of the plain 3-row / 1-row / 0-row append)"""
    return isinstance(op["rgo"], list) or op["frame"] == "permuted"


def operations():
    ops = []
    for f in FRAMES:
        for rgo in (None, 1):
            for comp in (None, "SNAPPY"):
                ops.append({"frame": f, "rgo": rgo, "comp": comp})
    return ops


def special_operations():
    return [{"frame": "cat_wide", "rgo": None, "comp": None},
            # 70 labels that differ from batch to batch but have the same count and the same encoded size: two such
            # batches overflow int8 codes only together
            {"frame": "cat_mid", "rgo": None, "comp": None},
            # a categorical batch without any label (every value missing): its dictionary page is empty
            {"frame": "cat_none", "rgo": None, "comp": None},
            {"frame": "permuted", "rgo": None, "comp": None},
            {"frame": "three", "rgo": [0, 1], "comp": None},
            {"frame": "three", "rgo": [0, 3], "comp": None},       # the last chunk is empty
            {"frame": "zero", "rgo": [0], "comp": None}]           # the only chunk is empty


def alphabet(init, level, tier):
    """operations applicable at BFS level `level` (1 = first append)"""
    if small(init):
        if tier == "thorough" and level == 1:
            return operations() + special_operations()
        rgos = (None, 1) if level == 1 or (tier == "thorough" and level == 2) else (None,)
        return [{"frame": f, "rgo": r, "comp": None} for f in SMALL_FRAMES for r in rgos]
    if level == 1 or (tier == "thorough" and level == 2):
        return operations() + special_operations()
    if tier == "thorough":
        return operations() + special_operations()[:3]
    # deeper levels of the quick tier: the uncompressed base alphabet and the wide categorical
    return [o for o in operations() if not o["comp"]] + special_operations()[:3]


def explore(run, tier):
    depth = 3 if tier == "thorough" else 2
    seen = {}
    st = {"states": 0, "transitions": 0}
    initial = [{"init": s, "hist": []} for s in initial_states(tier)]

    def on_result(point, res, submit):
        if res.get("outcome") in ("crash", "timeout", "harness_error"):
            return
        if point["hist"]:
            st["transitions"] += 1
        key = res.get("state")
        if key is None or not res.get("ok"):
            return
        if point["hist"] and final_only(point["hist"][-1]):
            return          # ends its history; not entered into `seen`: the same bytes reached by a plain append expand
        k = (repr(sorted(point["init"].items())), key)
        dep = len(point["hist"])
        if k in seen and seen[k] <= dep:
            return          # already expanded from the same or a shorter history
        if k not in seen:
            st["states"] += 1
        seen[k] = dep
        if dep >= max_depth(point["init"], tier):
            return
        for op in alphabet(point["init"], dep + 1, tier):
            submit({"init": point["init"], "hist": point["hist"] + [op]})
    run.dynamic("append-histories", initial, "run", on_result)
    handle_points = [{"init": {"scheme": s, "part": p, "widx": False},
                      "hist": [{"frame": f1, "rgo": None, "comp": None}, {"frame": f2, "rgo": None, "comp": None}]}
                     for s, p in (("simple", False), ("hive", False), ("hive", True))
                     for f1 in SMALL_FRAMES for f2 in SMALL_FRAMES]
    run.lattice("same-handle", handle_points, "run_handle")
    run.extra.update({"states": st["states"], "transitions": st["transitions"],
                      "traces_validated_against_impl": st["transitions"], "depth": depth})


def crash_sig(point, res):
    s = dict(point["init"])
    s["symptom"] = res["outcome"]
    s["frames"] = ",".join(o["frame"] for o in point["hist"])
    s["cat_sets_differ"] = any(o["frame"] in ("cat_new", "cat_subset", "cat_wide", "cat_mid", "cat_none") for o in point["hist"])
    return s


# ---------------------------------------------------------------------------------------
_T0 = 1_600_000_000_123_456_789          # ns since the epoch (UTC), with a sub-microsecond part


def _rows(name):
    """(a, s, c, p, q, f, t, b, i): t in days after _T0 (None = NaT)"""
    if name == "initial10":
        return [(-i, "i%d" % i, "uv"[i % 2], 1 + i % 2, "xy"[i % 2], i / 4.0, i, i % 3 == 0, i) for i in range(10)]
    return {"three": [(1, "x", "u", 1, "x", 1.5, 10, True, 1), (2, "y", "v", 2, "y", None, 11, False, None),
                      (3, "z", "u", 1, "x", -0.25, None, True, 3)],
            "one": [(4, "w", "v", 2, "y", 4.0, 12, False, 4)],
            "zero": [],
            "nulls": [(5, None, "u", 1, "y", None, None, True, None), (6, "q", None, 2, "x", 6.5, 13, False, 6)],
            "cat_new": [(7, "n", "NEW", 1, "x", 7.5, 14, True, 7), (8, "m", "u", 3, "z", 8.5, 15, False, 8)],
            "cat_subset": [(9, "k", "v", 2, "y", 9.5, 16, True, 9), (10, "j", "v", 2, "y", 10.5, 17, True, 10)],
            "cat_wide": [(11, "g", "L000", 1, "x", 11.5, 18, False, 11), (12, "h", "u", 2, "y", 12.5, 19, True, 12)],
            "cat_mid": [(15, "d", "MID0", 1, "x", 15.5, 21, True, 15), (16, "c", "v", 2, "y", 16.5, 22, False, 16)],
            "cat_none": [(17, "b", None, 1, "x", 17.5, 23, True, 17), (18, "a", None, 2, "y", 18.5, 24, False, 18)],
            "permuted": [(13, "e", "v", 2, "x", 13.5, 20, True, 13), (14, None, "u", 1, "y", None, None, False, None)],
            "initial": [(0, "i0", "u", 1, "x", 0.5, 0, True, 0), (-1, "i1", "v", 2, "y", None, 1, False, None),
                        (-2, None, "u", 1, "y", -2.5, None, True, -2), (-3, "i3", "v", 1, "x", 1e300, 3, False, 2 ** 40)],
            "empty": []}[name]


def frame(name, widx, base_id, wide=False):
    """-> (DataFrame, model rows as canonical cells (a, s, c, p[, q, f, t, b, i]), model index cells or None)"""
    import numpy as np
    import pandas as pd
    from mc import oracles as O
    rows = _rows(name)
    cats = {"cat_new": ["NEW", "u"], "cat_subset": ["v"], "cat_wide": WIDE, "cat_none": []}.get(name, ["u", "v"])
    if name == "cat_mid":
        cats = ["M%04d_%02d" % (base_id % 10000, i) for i in range(68)] + ["u", "v"]
        rows = [tuple(cats[0] if x == "MID0" else x for x in r) for r in rows]
    data = {"a": pd.Series([r[0] for r in rows], dtype="int64"),
            "s": pd.Series([r[1] for r in rows], dtype=object),
            "c": pd.Categorical([r[2] for r in rows], categories=cats),
            "p": pd.Series([r[3] for r in rows], dtype="int64")}
    if wide:
        nat = np.iinfo("int64").min
        t = np.array([nat if r[6] is None else _T0 + r[6] * 86_400_000_000_000 for r in rows], dtype="int64")
        data.update({"q": pd.Series([r[4] for r in rows], dtype=object),
                     "f": pd.Series([np.nan if r[5] is None else r[5] for r in rows], dtype="float64"),
                     "t": pd.Series(t.view("M8[ns]")).dt.tz_localize("UTC").dt.tz_convert("Europe/Paris"),
                     "b": pd.Series([r[7] for r in rows], dtype="bool"),
                     "i": pd.Series(pd.array([r[8] for r in rows], dtype="Int64"))})
    df = pd.DataFrame(data)
    cols = COLS if wide else NARROW
    model = list(zip(*[O.series_to_list(df[c]) for c in cols])) if rows else []
    if name == "permuted":
        df = df[list(reversed(cols))]
    idx = None
    n = len(rows)
    if widx is True:
        df.index = pd.Index([base_id + i for i in range(n)], name="idx", dtype="int64")
        idx = [(base_id + i,) for i in range(n)]
    elif widx == "range_written":
        # a RangeIndex that does not start at 0 (a slice of a longer frame), stored on request (write_index=True)
        df.index = pd.RangeIndex(base_id, base_id + n)
        idx = [(base_id + i,) for i in range(n)]
    elif widx == "unnamed":
        df.index = pd.Index([base_id + 2 * i for i in range(n)], dtype="int64")
        idx = [(base_id + 2 * i,) for i in range(n)]
    elif widx == "multi":
        # (a categorical data column next to a MultiIndex does not survive a plain write/read in this library -
        # the levels are never set, no append needed: not this property's business - so c is plain text here)
        df["c"] = df["c"].astype(object)
        k2 = ["m%d" % ((base_id // 100 + i) % 3) for i in range(n)]     # later batches bring new level values
        df.index = pd.MultiIndex.from_arrays([pd.Index([base_id + i for i in range(n)], dtype="int64"),
                                              pd.Index(k2, dtype=object)], names=["k1", "k2"])
        idx = [(base_id + i, k2[i]) for i in range(n)]
    return df, model, idx


def snapshot(path):
    from mc import wr
    out = {}
    for f in wr.listing(path):
        out[f] = hashlib.sha256(open(f, "rb").read()).hexdigest()
    return out


def rows_of(df, nidx=0, wide=False):
    """canonical rows (a, s, c, p[, q, f, t, b, i]) of a frame read from a dataset, and its index cells"""
    from mc import oracles as O
    cols = {c: O.series_to_list(df[c]) for c in df.columns}
    n = len(df)
    if "p" not in cols and "dir0" in cols:
        cols["p"] = cols["dir0"]
    for pc in ("p",):
        if pc in cols:
            fixed = []
            for p in cols[pc]:
                if isinstance(p, str):
                    try:
                        p = int(p)
                    except ValueError:
                        pass
                fixed.append(p)
            cols[pc] = fixed
    rows = [tuple(cols[c][i] if c in cols else None for c in (COLS if wide else NARROW)) for i in range(n)]
    idx = None
    if nidx == 1:
        idx = [(x,) for x in O.series_to_list(df.index.to_series())]
    elif nidx > 1:
        idx = [tuple(O.canon_cell(x) for x in tup) for tup in df.index.tolist()]
    return rows, idx


def read_rows(path, widx, wide=False):
    import fastparquet
    pf = fastparquet.ParquetFile(path)
    df = pf.to_pandas()
    nidx = {False: 0, "range": 0, True: 1, "unnamed": 1, "multi": 2, "range_written": 1}[widx]
    if nidx and df.index.nlevels != nidx:
        raise ValueError("the index read has %d level(s), written with %d" % (df.index.nlevels, nidx))
    rows, idx = rows_of(df, nidx, wide)
    return rows, idx, pf, df


def dtypes_of(df):
    from mc import oracles as O
    return {str(c): O.dtype_kind(df[c].dtype) for c in df.columns}


def initial_write(path, init):
    """create the initial dataset -> (model rows, model index or None)"""
    import os
    import fastparquet
    scheme, part, widx, layout = init["scheme"], init["part"], init["widx"], init.get("layout")
    name = {"hive10": "initial10", "empty": "empty"}.get(layout, "initial")
    df0, rows0, idx0 = frame(name, widx, 100, init.get("wide", False))
    kw = {"file_scheme": scheme}
    if part:
        kw["partition_on"] = ["p", "q"] if part == "pq" else ["p"]
    if widx is False:
        kw["write_index"] = False
    if widx == "range_written":
        kw["write_index"] = True
    # widx True / unnamed / multi: a non-range index is written by default; "range": the default for a RangeIndex
    if layout in ("merged", "merged_rg"):
        from fastparquet import writer
        os.makedirs(path)
        if layout == "merged":
            files = [os.path.join(path, "a.parquet"), os.path.join(path, "data-0.parquet")]
            fastparquet.write(files[0], df0.iloc[:2], write_index=False)
            fastparquet.write(files[1], df0.iloc[2:], write_index=False)
        else:
            files = [os.path.join(path, "part.5.parquet")]
            fastparquet.write(files[0], df0, row_group_offsets=[0, 2], write_index=False)
        writer.merge(files)
    elif layout == "hive10":
        fastparquet.write(path, df0, row_group_offsets=1, **kw)
    elif layout == "empty":
        fastparquet.write(path, df0, **kw)
    else:
        fastparquet.write(path, df0, row_group_offsets=[0, 2], **kw)
    return rows0, idx0


def append_kwargs(init, op):
    akw = {"file_scheme": init["scheme"], "append": True, "row_group_offsets": op["rgo"], "compression": op["comp"]}
    if init["part"]:
        akw["partition_on"] = ["p", "q"] if init["part"] == "pq" else ["p"]
    return akw


_DT0 = {}


def run(point):
    import os
    import struct
    import fastparquet
    from mc.scratch import scratch
    init, hist = point["init"], point["hist"]
    scheme, part, widx = init["scheme"], init["part"], init["widx"]
    wide = init.get("wide", False)
    cols = COLS if wide else NARROW
    d = scratch()
    path = os.path.join(d, "t.parquet" if scheme == "simple" else "ds")
    sig = dict(init)

    def bad(symptom, detail, **extra):
        s = dict(sig)
        s["symptom"] = symptom
        s.update(extra)
        return {"ok": False, "outcome": symptom, "nontrivial": True, "sig": s, "detail": detail}

    rows0, idx0 = initial_write(path, init)
    blocks = [rows0]
    idx_blocks = [idx0]
    dt0 = _DT0.get(repr(sorted(init.items())))
    if dt0 is None:
        # dtypes served for the initial dataset (a function of the initial state only: once per worker process)
        try:
            dt0 = dtypes_of(fastparquet.ParquetFile(path).to_pandas())
        except Exception as e:
            return bad("read_raised", "initial dataset: %s: %s" % (type(e).__name__, str(e)[:150]),
                       exc=type(e).__name__, frame="initial", depth=0)
        _DT0[repr(sorted(init.items()))] = dt0
    before = None
    old_footer_start = None
    for i, op in enumerate(hist):
        dfi, rowsi, idxi = frame(op["frame"], widx, 200 + 100 * i, wide)
        last = i == len(hist) - 1
        if last:
            before = snapshot(path)
            if scheme == "simple":
                data = open(path, "rb").read()
                old_footer_start = len(data) - 8 - struct.unpack("<I", data[-8:-4])[0]
                before_bytes = data
        sig_step = {"frame": op["frame"], "depth": len(hist)}
        if isinstance(op["rgo"], list):
            sig_step["rgo"] = "list"
        try:
            fastparquet.write(path, dfi, **append_kwargs(init, op))
        except Exception as e:
            if scheme == "drill" and part and "existing file scheme is not" in str(e):
                # appending to a drill-partitioned dataset is refused by the library: a refusal is not a
                # violation of this property (the dataset is left as it was; C18 judges refusals)
                return {"ok": True, "outcome": "refused", "nontrivial": False}
            return bad("append_raised", "append %d (%s) raised %s: %s" % (i, op, type(e).__name__, str(e)[:150]),
                       exc=type(e).__name__, **sig_step)
        blocks.append(rowsi)
        idx_blocks.append(idxi)
    # ---- invariants after the last step
    sig_step = {"frame": hist[-1]["frame"] if hist else "initial", "depth": len(hist)}
    if hist and isinstance(hist[-1]["rgo"], list):
        sig_step["rgo"] = "list"
    names = [o["frame"] for o in hist]
    has_cat_change = any(o["frame"] in ("cat_new", "cat_subset", "cat_wide", "cat_mid", "cat_none") for o in hist)
    try:
        got, idx, pf, df = read_rows(path, widx, wide)
    except Exception as e:
        return bad("read_raised", "after %r: %s: %s" % (names, type(e).__name__, str(e)[:150]),
                   exc=type(e).__name__, cat_sets_differ=has_cat_change, **sig_step)
    total = sum(len(b) for b in blocks)
    if len(got) != total:
        return bad("wrong_rowcount", "after %r: %d rows read, model has %d" % (names, len(got), total), **sig_step)
    with_idx = idx is not None
    pos = 0
    for bi, b in enumerate(blocks):
        part_rows = got[pos:pos + len(b)]
        want, have = list(b), list(part_rows)
        if with_idx and part:
            # within a partitioned append the rows are regrouped: the index travels with its row
            want = [r + ("idx",) + x for r, x in zip(want, idx_blocks[bi])]
            have = [r + ("idx",) + x for r, x in zip(have, idx[pos:pos + len(b)])]
        pos += len(b)
        if part:
            want, have = sorted(want, key=repr), sorted(have, key=repr)
        if have != want:
            # which column differs?
            col = None
            for x, y in zip(have, want):
                for ci, cn in enumerate(cols + ("idx", "idx", "idx")):
                    if ci < len(x) and x[ci] != y[ci]:
                        col = cn
                        break
                if col:
                    break
            return bad("wrong_content", "after %r: block %d reads %r, model %r" % (names, bi, have, want),
                       col=col, cat_sets_differ=has_cat_change, **sig_step)
    if with_idx and not part:
        idx_model = [x for ib in idx_blocks for x in ib]
        if list(idx) != idx_model:
            return bad("wrong_index", "index %r, model %r" % (idx, idx_model), **sig_step)
    # ---- dtypes as served for the initial dataset, row counts of the metadata
    dt1 = dtypes_of(df)
    if dt1 != dt0:
        diff = sorted(c for c in set(dt0) | set(dt1) if dt0.get(c) != dt1.get(c))
        return bad("dtype_changed", "after %r: %s" % (names, ", ".join(
            "%s %r -> %r" % (c, dt0.get(c), dt1.get(c)) for c in diff)), col=diff[0], **sig_step)
    if pf.count() != total or pf.fmd.num_rows != total:
        return bad("wrong_num_rows", "after %r: count() %r, FileMetaData.num_rows %r, model %d" % (
            names, pf.count(), pf.fmd.num_rows, total), **sig_step)
    if hist:
        after = snapshot(path)
        if scheme == "simple":
            data = open(path, "rb").read()
            if data[:old_footer_start] != before_bytes[:old_footer_start]:
                return bad("existing_bytes_changed", "bytes before the old footer (offset %d) changed by the last append" % old_footer_start, **sig_step)
        else:
            for f, h in before.items():
                base = os.path.basename(f)
                if base in ("_metadata", "_common_metadata"):
                    continue
                if f not in after:
                    return bad("existing_file_removed", "data file %s disappeared" % f[len(path):], **sig_step)
                if after[f] != h:
                    return bad("existing_file_rewritten", "data file %s was rewritten by the append" % f[len(path):], **sig_step)
            # every referenced file exists, each data file referenced
            refs = [rg.columns[0].file_path for rg in pf.row_groups]
            new_refs = [r for r in refs if os.path.join(path, r) not in before]
            # (the merged_rg layout starts from one file holding two row groups: there only the new files count)
            uniq = new_refs if init.get("layout") == "merged_rg" else refs
            if len(set(uniq)) != len(uniq):
                return bad("duplicate_reference", "_metadata references a file twice: %r" % refs, **sig_step)
            on_disk = sorted(f[len(path) + 1:] for f in after
                             if os.path.basename(f) not in ("_metadata", "_common_metadata"))
            if on_disk != sorted(set(refs)):
                return bad("unreferenced_file", "data files on disk %r, referenced by _metadata %r" % (
                    on_disk, sorted(set(refs))), **sig_step)
            # every new part file is a complete parquet file holding its slice of the dataset
            starts, acc = [], 0
            for rg in pf.row_groups:
                starts.append(acc)
                acc += rg.num_rows
            for ref in sorted(set(new_refs)):
                want = []
                for rg, s0 in zip(pf.row_groups, starts):
                    if rg.columns[0].file_path == ref:
                        want += got[s0:s0 + rg.num_rows]
                try:
                    alone, _ = rows_of(fastparquet.ParquetFile(os.path.join(path, ref)).to_pandas(), 0, wide)
                except Exception as e:
                    return bad("part_file_unreadable", "new file %s on its own: %s: %s" % (
                        ref, type(e).__name__, str(e)[:150]), exc=type(e).__name__, **sig_step)
                keep = [ci for ci, cn in enumerate(cols) if not (part and (cn == "p" or (part == "pq" and cn == "q")))]
                if [tuple(r[ci] for ci in keep) for r in alone] != [tuple(r[ci] for ci in keep) for r in want]:
                    return bad("part_file_differs", "new file %s on its own reads %r, its row groups in the dataset %r" % (
                        ref, alone, want), **sig_step)
            # _common_metadata describes the same table as _metadata
            try:
                cm = fastparquet.ParquetFile(os.path.join(path, "_common_metadata"))
                sch = lambda p: [(se.name, se.type, se.converted_type, se.repetition_type, se.num_children)
                                 for se in p.fmd.schema]
                if sch(cm) != sch(pf) or cm.pandas_metadata != pf.pandas_metadata:
                    return bad("common_metadata_differs", "_common_metadata: schema %r pandas %r; _metadata: schema %r "
                               "pandas %r" % (sch(cm), cm.pandas_metadata, sch(pf), pf.pandas_metadata), **sig_step)
            except Exception as e:
                return bad("common_metadata_unreadable", "%s: %s" % (type(e).__name__, str(e)[:150]),
                           exc=type(e).__name__, **sig_step)
    h = hashlib.sha256()
    for f, hh in sorted(snapshot(path).items()):
        h.update(f[len(path):].encode() + hh.encode())
    return {"ok": True, "outcome": "consistent", "nontrivial": total > 0, "state": h.hexdigest(),
            "counts": {"appends": len(hist)}}


def run_handle(point):
    """the ParquetFile that performs the appends (write_row_groups) serves the same as a fresh open"""
    import json
    import os
    import fastparquet
    from mc.scratch import scratch
    init, hist = point["init"], point["hist"]
    scheme = init["scheme"]
    d = scratch()
    path = os.path.join(d, "t.parquet" if scheme == "simple" else "ds")
    sig = dict(init)
    sig["handle"] = "same"

    def bad(symptom, detail, **extra):
        s = dict(sig)
        s["symptom"] = symptom
        s.update(extra)
        return {"ok": False, "outcome": symptom, "nontrivial": True, "sig": s, "detail": detail}

    def view(pf):
        df = pf.to_pandas()
        rows, _ = rows_of(df)
        return {"rows": rows, "count": pf.count(), "row_groups": len(pf.row_groups), "num_rows": pf.fmd.num_rows,
                "statistics": json.dumps(pf.statistics, sort_keys=True, default=str),
                "dtypes": dtypes_of(df)}

    initial_write(path, init)
    pf = fastparquet.ParquetFile(path)
    view(pf)                    # fills every lazily computed attribute of the handle
    pf.categories
    for i, op in enumerate(hist):
        dfi, _, _ = frame(op["frame"], False, 0)
        sig_step = {"frame": op["frame"], "depth": i + 1}
        try:
            pf.write_row_groups(dfi, row_group_offsets=op["rgo"], compression=op["comp"])
        except Exception as e:
            return bad("append_raised", "write_row_groups %d (%s) raised %s: %s" % (i, op, type(e).__name__, str(e)[:150]),
                       exc=type(e).__name__, **sig_step)
        try:
            fresh = view(fastparquet.ParquetFile(path))
        except Exception as e:
            return bad("read_raised", "fresh open after %r: %s: %s" % (hist[:i + 1], type(e).__name__, str(e)[:150]),
                       exc=type(e).__name__, **sig_step)
        try:
            same = view(pf)
        except Exception as e:
            return bad("handle_read_raised", "the appending handle after %r: %s: %s" % (
                hist[:i + 1], type(e).__name__, str(e)[:150]), exc=type(e).__name__, **sig_step)
        for k in ("rows", "count", "row_groups", "num_rows", "dtypes", "statistics"):
            if same[k] != fresh[k]:
                return bad("handle_stale", "after %r the appending handle serves %s = %s, a fresh open %s" % (
                    [o["frame"] for o in hist[:i + 1]], k, str(same[k])[:200], str(fresh[k])[:200]),
                    what=k, **sig_step)
    return {"ok": True, "outcome": "consistent", "nontrivial": True, "counts": {"appends": len(hist)}}


LEVEL_TEXT = ("Explicit-state BFS over append histories (depth 2 quick / 3 thorough) from ten initial dataset layouts with "
              "an alphabet of 29 append operations (24 base + 128-label categorical, reversed column order, explicit offset "
              "lists with empty chunks) and from 13 (thorough: 16) further layouts (10 part files, merge()-gathered "
              "foreign files, empty datasets, two partition levels and default / unnamed / multi-level index on a "
              "9-column schema with float, tz-aware datetime, bool and nullable int) with an alphabet of 14; each "
              "transition runs the real append on the real files and the state is re-opened from disk; content, index "
              "and dtypes are compared with a list-of-frames model, the bytes / files that existed before the last "
              "append are compared before and after, new part files are read on their own, and 147 depth-2 histories "
              "are replayed through a single ParquetFile handle whose view is compared with a fresh open.")
LEVEL_NOTE = ("Trusted: list model (canonical cells of the input frames); sha256 of files as state identity (exact). "
              "Histories are replayed from the initial write for every transition, so no state leaks between executions.")
TECHNIQUE = "explicit-state BFS over append histories on the real dataset, list-of-frames reference model, byte-level before/after comparison, same-handle vs fresh-open comparison"
