"""C07 - append adds rows at the end and leaves existing data untouched.

Explorer H: BFS over append histories.  Every transition re-creates the dataset
from the initial write and replays the history with the real API, re-opening
from disk for every step; invariants are evaluated after the last step.
"""
import hashlib

ID = "C07"
LEVEL = "model_checking"
FLAVOUR = "plain"
TIMEOUT = 300
RULE = ("initial states = file_scheme {simple, hive, drill} x partition_on {none, [p]} x written index {no, yes}; "
        "operation alphabet = 6 schema-compatible frames (3 rows, 1 row, 0 rows, with nulls, categorical with new "
        "labels, categorical with a subset of labels) x row_group_offsets {None, 1} x compression {None, SNAPPY}; "
        "BFS to depth 2 (quick) / 3 (thorough), states hashed by the bytes of every file of the dataset; every "
        "transition = fastparquet.write(..., append=True) on the real dataset followed by a fresh open; "
        "invariants: content == concatenation of the model frames (block by block), bytes before the old footer "
        "unchanged (single file), every pre-existing data file byte-identical and new files freshly named (multi-file)")
ASSUMPTIONS = ["within one append to a partitioned dataset row order is not compared (rows are regrouped by partition)",
               "categorical cells compared by label"]

FRAMES = ["three", "one", "zero", "nulls", "cat_new", "cat_subset"]


def initial_states():
    out = []
    for scheme in ("simple", "hive", "drill"):
        for part in ((False, True) if scheme != "simple" else (False,)):
            for widx in (False, True):
                out.append({"scheme": scheme, "part": part, "widx": widx})
    return out


def operations():
    ops = []
    for f in FRAMES:
        for rgo in (None, 1):
            for comp in (None, "SNAPPY"):
                ops.append({"frame": f, "rgo": rgo, "comp": comp})
    return ops


def explore(run, tier):
    depth = 3 if tier == "thorough" else 2
    seen = {}
    st = {"states": 0, "transitions": 0}
    ops = operations()
    initial = [{"init": s, "hist": []} for s in initial_states()]

    def on_result(point, res, submit):
        if res.get("outcome") in ("crash", "timeout", "harness_error"):
            return
        if point["hist"]:
            st["transitions"] += 1
        key = res.get("state")
        if key is None or not res.get("ok"):
            return
        k = (repr(sorted(point["init"].items())), key)
        dep = len(point["hist"])
        if k in seen and seen[k] <= dep:
            return          # already expanded from the same or a shorter history
        if k not in seen:
            st["states"] += 1
        seen[k] = dep
        if dep >= depth:
            return
        for op in ops:
            # deeper levels of the quick tier use the uncompressed alphabet only
            if tier != "thorough" and len(point["hist"]) >= 1 and op["comp"]:
                continue
            submit({"init": point["init"], "hist": point["hist"] + [op]})
    run.dynamic("append-histories", initial, "run", on_result)
    run.extra.update({"states": st["states"], "transitions": st["transitions"],
                      "traces_validated_against_impl": st["transitions"], "depth": depth})


def crash_sig(point, res):
    s = dict(point["init"])
    s["symptom"] = res["outcome"]
    s["frames"] = ",".join(o["frame"] for o in point["hist"])
    s["cat_sets_differ"] = any(o["frame"] in ("cat_new", "cat_subset") for o in point["hist"])
    return s


# ---------------------------------------------------------------------------------------
def frame(name, widx, base_id):
    """schema: a int64, s object (nullable text), c categorical(str), p int64 partition key"""
    import pandas as pd
    rows = {"three": [(1, "x", "u", 1), (2, "y", "v", 2), (3, "z", "u", 1)],
            "one": [(4, "w", "v", 2)],
            "zero": [],
            "nulls": [(5, None, "u", 1), (6, "q", None, 2)],
            "cat_new": [(7, "n", "NEW", 1), (8, "m", "u", 3)],
            "cat_subset": [(9, "k", "v", 2), (10, "j", "v", 2)],
            "initial": [(0, "i0", "u", 1), (-1, "i1", "v", 2), (-2, None, "u", 1), (-3, "i3", "v", 1)]}[name]
    cats = {"cat_new": ["NEW", "u"], "cat_subset": ["v"]}.get(name, ["u", "v"])
    df = pd.DataFrame({"a": pd.Series([r[0] for r in rows], dtype="int64"),
                       "s": pd.Series([r[1] for r in rows], dtype=object),
                       "c": pd.Categorical([r[2] for r in rows], categories=cats),
                       "p": pd.Series([r[3] for r in rows], dtype="int64")})
    if widx:
        df.index = pd.Index([base_id + i for i in range(len(rows))], name="idx", dtype="int64")
    return df, rows


def snapshot(path):
    from mc import wr
    out = {}
    for f in wr.listing(path):
        out[f] = hashlib.sha256(open(f, "rb").read()).hexdigest()
    return out


def read_rows(path, widx):
    import fastparquet
    from mc import oracles as O
    pf = fastparquet.ParquetFile(path)
    df = pf.to_pandas()
    cols = {c: O.series_to_list(df[c]) for c in df.columns}
    n = len(df)
    pcol = "p" if "p" in cols else ("dir0" if "dir0" in cols else None)
    rows = []
    for i in range(n):
        p = cols[pcol][i] if pcol else None
        if isinstance(p, str):
            try:
                p = int(p)
            except ValueError:
                pass
        rows.append((cols["a"][i], cols["s"][i], cols["c"][i], p))
    idx = O.series_to_list(df.index.to_series()) if widx else None
    return rows, idx, pf


def run(point):
    import os
    import struct
    import fastparquet
    from mc.scratch import scratch
    init, hist = point["init"], point["hist"]
    scheme, part, widx = init["scheme"], init["part"], init["widx"]
    d = scratch()
    path = os.path.join(d, "t.parquet" if scheme == "simple" else "ds")
    sig = dict(init)

    def bad(symptom, detail, **extra):
        s = dict(sig)
        s["symptom"] = symptom
        s.update(extra)
        return {"ok": False, "outcome": symptom, "nontrivial": True, "sig": s, "detail": detail}

    df0, rows0 = frame("initial", widx, 100)
    kw = {"file_scheme": scheme}
    if part:
        kw["partition_on"] = ["p"]
    if not widx:
        kw["write_index"] = False
    fastparquet.write(path, df0, row_group_offsets=[0, 2], **kw)
    blocks = [rows0]
    idx_model = list(df0.index) if widx else None
    before = None
    old_footer_start = None
    for i, op in enumerate(hist):
        dfi, rowsi = frame(op["frame"], widx, 200 + 100 * i)
        last = i == len(hist) - 1
        if last:
            before = snapshot(path)
            if scheme == "simple":
                data = open(path, "rb").read()
                old_footer_start = len(data) - 8 - struct.unpack("<I", data[-8:-4])[0]
                before_bytes = data
        sig_step = {"frame": op["frame"], "depth": len(hist)}
        try:
            akw = {"file_scheme": scheme, "append": True, "row_group_offsets": op["rgo"], "compression": op["comp"]}
            if part:
                akw["partition_on"] = ["p"]
            fastparquet.write(path, dfi, **akw)
        except Exception as e:
            if scheme == "drill" and part and "existing file scheme is not" in str(e):
                # appending to a drill-partitioned dataset is refused by the library: a refusal is not a
                # violation of this property (the dataset is left as it was; C18 judges refusals)
                return {"ok": True, "outcome": "refused", "nontrivial": False}
            return bad("append_raised", "append %d (%s) raised %s: %s" % (i, op, type(e).__name__, str(e)[:150]),
                       exc=type(e).__name__, **sig_step)
        blocks.append(rowsi)
        if widx:
            idx_model += list(dfi.index)
    # ---- invariants after the last step
    sig_step = {"frame": hist[-1]["frame"] if hist else "initial", "depth": len(hist)}
    try:
        got, idx, pf = read_rows(path, widx)
    except Exception as e:
        return bad("read_raised", "after %r: %s: %s" % ([o["frame"] for o in hist], type(e).__name__, str(e)[:150]),
                   exc=type(e).__name__, **sig_step)
    exp_blocks = blocks
    if part:
        exp_blocks = [[r for r in b] for b in blocks]
    else:
        # without partitioning p is an ordinary column
        pass
    total = sum(len(b) for b in exp_blocks)
    if len(got) != total:
        return bad("wrong_rowcount", "after %r: %d rows read, model has %d" % ([o["frame"] for o in hist], len(got), total), **sig_step)
    pos = 0
    catkinds = {"cat_new", "cat_subset"}
    for bi, b in enumerate(exp_blocks):
        part_rows = got[pos:pos + len(b)]
        pos += len(b)
        want = sorted(b, key=repr) if part else list(b)
        have = sorted(part_rows, key=repr) if part else list(part_rows)
        if have != want:
            # which column differs?
            col = None
            for x, y in zip(have, want):
                for ci, cn in enumerate(("a", "s", "c", "p")):
                    if x[ci] != y[ci]:
                        col = cn
                        break
                if col:
                    break
            has_cat_change = any(o["frame"] in catkinds for o in hist)
            return bad("wrong_content", "after %r: block %d reads %r, model %r" % ([o["frame"] for o in hist], bi, have, want),
                       col=col, cat_sets_differ=has_cat_change, **sig_step)
    if widx and idx is not None and not part:
        if list(idx) != list(idx_model):
            return bad("wrong_index", "index %r, model %r" % (idx, idx_model), **sig_step)
    if hist:
        after = snapshot(path)
        if scheme == "simple":
            data = open(path, "rb").read()
            if data[:old_footer_start] != before_bytes[:old_footer_start]:
                return bad("existing_bytes_changed", "bytes before the old footer (offset %d) changed by the last append" % old_footer_start, **sig_step)
        else:
            for f, h in before.items():
                base = os.path.basename(f)
                if base in ("_metadata", "_common_metadata"):
                    continue
                if f not in after:
                    return bad("existing_file_removed", "data file %s disappeared" % f[len(path):], **sig_step)
                if after[f] != h:
                    return bad("existing_file_rewritten", "data file %s was rewritten by the append" % f[len(path):], **sig_step)
            # every referenced file exists, each data file referenced
            refs = [rg.columns[0].file_path for rg in pf.row_groups]
            if len(set(refs)) != len(refs):
                return bad("duplicate_reference", "_metadata references a file twice: %r" % refs, **sig_step)
    h = hashlib.sha256()
    for f, hh in sorted(snapshot(path).items()):
        h.update(f[len(path):].encode() + hh.encode())
    return {"ok": True, "outcome": "consistent", "nontrivial": total > 0, "state": h.hexdigest(),
            "counts": {"appends": len(hist)}}


LEVEL_TEXT = ("Explicit-state BFS over append histories (depth 2 quick / 3 thorough) from ten initial dataset layouts with "
              "an alphabet of 24 append operations; each transition runs the real append on the real files and the "
              "state is re-opened from disk; content is compared with a list-of-frames model and the bytes / files "
              "that existed before the last append are compared before and after.")
LEVEL_NOTE = ("Trusted: list model; sha256 of files as state identity (exact). Histories are replayed from the initial "
              "write for every transition, so no state leaks between executions.")
TECHNIQUE = "explicit-state BFS over append histories on the real dataset, list-of-frames reference model, byte-level before/after comparison"
