"""C10 - metadata serialisation is lossless, IDL-conformant and safe for any size.

Explorer L.  Values are generated from the IDL table for every struct reachable
from FileMetaData and PageHeader.  Routes:
  R1  built through ThriftObject.from_fields with the writer's i32 markers
      (R1b: every string given as bytes, as the writer does for names and keys)
  R2  encoded by specpq from the IDL, parsed by from_buffer, re-serialised
      (R2l / R2L: the same value with long-form list / field headers, which
      other writers may emit; at an offset of a larger buffer; from bytes)
  R3  the structures of files the writer produces (options included)
  history: parsed / built, then changed through the attribute API as merge,
      append and update_custom_metadata do, then serialised
Oracle: strict IDL-driven decode of to_bytes(x) yields x; same length as the
spec encoding; from_buffer(to_bytes(x)) == x (own deep comparison and ==) and
consumes exactly the struct; pickle / copy / deepcopy; every value differing
in one place compares unequal in both directions; None == absent.
"""
import itertools

ID = "C10"
LEVEL = "exploration"
FLAVOUR = "plain"
TIMEOUT = 120
RULE = ("R3: every footer and page header of files written for each column kind x v1/v2 x codec x null pattern x "
        "simple/hive, decoded strictly, a write that raises or a footer that does not end where its length says is a "
        "failure, num_rows / num_values / custom key-values / file_path compared with what was written; x option in "
        "{base, stats=False, append, partition_on, non-ASCII custom metadata, make_part_file(fmd=None)} (options at "
        "codec None in the quick tier); points = (route R1|R2) x (struct reachable from FileMetaData/PageHeader) x (presence pattern: every "
        "subset of optional fields for structs with <= 6 optional fields, else none/all/each single/each pair) "
        "+ per-field special values (list lengths 0,1,2,14,15,16,300; string lengths 0,1,127,128,16383,16384; "
        "integer extremes of the declared width, i8 also -1 and -128) + for the full presence pattern and every union "
        "member also routes R2l (long-form list headers), R2L (long-form field headers; quick: highest member of a "
        "union), R1b (strings as bytes) + FileMetaData nestings r x c x k + large payloads "
        "(499000..2000000 bytes at stat_max, kv_value, path, created_by; 498000/510000 bytes as non-ASCII str key-value "
        "and as column-level key-value; each in a fresh process) + aggregate shapes r x c x statistics bytes + name "
        "length (AGG_QUICK / AGG_THOROUGH: many medium payloads, schema-only footers, 6000 chunks) + history: shape "
        "(r,c,k) in {(1,1,0),(1,3,1),(3,3,3)} x op in HIST_OPS x (R1|R2) on a FileMetaData carrying fields fastparquet "
        "never writes, + update_file_custom_metadata / merge on foreign files + extension: unknown field id {12,15} x "
        "16 wire-type payloads inside schema elements; every R2 value is also parsed at an offset of a larger buffer "
        "(position afterwards checked) and from bytes; every non-big point: copy/deepcopy serialise identically, each "
        "one-place neighbour (changed leaf / shorter list / optional field removed, per top-level field) is != in "
        "both directions, R1: None for absent fields is the same structure; non-trivial = the struct has >= 1 field "
        "set and its serialisation was decoded and compared")
ASSUMPTIONS = ["the pinned parse of parquet.thrift is the IDL", "specpq compact-protocol codec is the specification",
               "R1 covers the fields whose integer width the writer's i32/i32list markers can express",
               "== between a structure holding bytes elements in a string list and its parsed form (str elements) "
               "is not required (R1b)",
               "structures changed through the attribute API may mix str and bytes: == with the re-parsed form is "
               "required in one direction only, as for R1"]

ROOTS = ["FileMetaData", "PageHeader"]
MARKERS = {"SchemaElement": ("i32", None), "PageHeader": ("i32", None), "DataPageHeader": ("i32", None),
           "DataPageHeaderV2": ("i32", None), "DictionaryPageHeader": ("i32", None),
           "PageEncodingStats": ("i32", None), "ColumnMetaData": ("i32list", [1, 4]),
           "FileMetaData": ("i32list", [1]), "SortingColumn": ("i32", None), "DecimalType": ("i32", None)}
INTW = {"byte": 8, "i8": 8, "i16": 16, "i32": 32, "i64": 64}


def idl():
    from mc.specpq.thrift import load_idl
    return load_idl()[0]


def reachable(I):
    seen, todo = [], list(ROOTS)
    while todo:
        s = todo.pop(0)
        if s in seen:
            continue
        seen.append(s)
        for fid, (fn, req, typ) in sorted(I["structs"][s]["fields"].items()):
            t = typ[5:-1] if typ.startswith("list<") else typ
            if t in I["structs"]:
                todo.append(t)
    return seen


def r1_compatible(I, sname, fid, typ):
    """can the writer's marker scheme express the declared integer width?"""
    t = typ[5:-1] if typ.startswith("list<") else typ
    if t in I["enums"]:
        t = "i32"
    if t not in INTW:
        return True
    if typ.startswith("list<"):
        return t == "i32"          # write_list always writes I32 elements
    kind, ids = MARKERS.get(sname, (None, None))
    marked = kind == "i32" or (kind == "i32list" and fid in ids)
    return (t == "i32" and marked) or (t == "i64" and not marked)


# ------------------------------------------------------------------ value generation
def base_value(I, typ, variant=0):
    if typ == "bool":
        return variant % 2 == 0
    if typ in INTW:
        return [3, 0, -1][variant % 3] if typ != "byte" and typ != "i8" else [3, 0, 1][variant % 3]
    if typ == "double":
        return 1.5
    if typ == "binary":
        return [b"\x00\xffbin", b"", b"x"][variant % 3]
    if typ == "string":
        return ["text", "", "é中"][variant % 3]
    if typ in I["enums"]:
        vals = sorted(I["enums"][typ].values())
        return vals[variant % len(vals)]
    raise KeyError(typ)


# fields with a recorded defect are exercised only by the points that name them, so that they do not
# mask the rest of the lattice (every other point leaves them unset)
ISOLATED = {("ColumnMetaData", "bloom_filter_offset"), ("RowGroup", "ordinal")}


def default_value(I, sname, depth=0, variant=0, keep=()):
    """all fields present (unions: first member), small values"""
    spec = I["structs"][sname]
    out = {}
    fields = sorted(spec["fields"].items())
    if spec["union"]:
        fields = fields[variant % len(fields):][:1]
    for fid, (fn, req, typ) in fields:
        if (sname, fn) in ISOLATED and fn not in keep:
            continue
        out[fn] = field_value(I, typ, depth, variant)
    return out


def field_value(I, typ, depth, variant=0, n=2):
    if typ.startswith("list<"):
        et = typ[5:-1]
        return [field_value(I, et, depth + 1, variant + i) for i in range(n)]
    if typ in I["structs"]:
        if depth > 4:
            return minimal_value(I, typ)
        return default_value(I, typ, depth + 1, variant)
    return base_value(I, typ, variant)


def minimal_value(I, sname):
    spec = I["structs"][sname]
    out = {}
    fields = sorted(spec["fields"].items())
    if spec["union"]:
        fields = fields[:1]
    for fid, (fn, req, typ) in fields:
        if req == "required" or spec["union"]:
            out[fn] = field_value(I, typ, 9, 0, n=1)
    return out


def special_values(I, typ):
    if typ in INTW:
        b = INTW[typ]
        return [0, 1, -1, (1 << (b - 1)) - 1, -(1 << (b - 1))] if b > 8 else [0, 1, 127, -1, -128]
    if typ in ("binary", "string"):
        out = []
        for n in (0, 1, 127, 128, 16383, 16384):
            out.append(("s" * n) if typ == "string" else bytes([i % 251 for i in range(n)]))
        return out
    if typ.startswith("list<"):
        et = typ[5:-1]
        return [[field_value(I, et, 3, i) for i in range(n)] for n in (0, 1, 2, 14, 15, 16, 300)]
    if typ == "bool":
        return [True, False]
    if typ in I["enums"]:
        return sorted(I["enums"][typ].values())
    return []


def struct_points(I, tier):
    pts = []
    for sname in reachable(I):
        spec = I["structs"][sname]
        fields = sorted(spec["fields"].items())
        if spec["union"]:
            for i in range(len(fields)):
                pts.append({"struct": sname, "kind": "union", "member": fields[i][1][0]})
            continue
        opt = [fn for fid, (fn, req, typ) in fields if req != "required"]
        if len(opt) <= 6:
            subsets = [list(c) for k in range(len(opt) + 1) for c in itertools.combinations(opt, k)]
        else:
            subsets = [[], list(opt)] + [[o] for o in opt] + [list(c) for c in itertools.combinations(opt, 2)]
        for ss in subsets:
            pts.append({"struct": sname, "kind": "presence", "present": ss})
        for fid, (fn, req, typ) in fields:
            for si, sv in enumerate(special_values(I, typ)):
                pts.append({"struct": sname, "kind": "special", "field": fn, "special": si})
    out = []
    for p in pts:
        for route in ("R1", "R2"):
            q = dict(p)
            q["route"] = route
            out.append(q)
    # R2l: the same bytes with every list header in the long form (legal for any size)
    # R2L: every field header in the long form (type byte + zigzag id; mandatory for id deltas > 15);
    #      a parser that loses its place only reads: the bytes are followed by 64 KB of stop bytes (see run)
    # R1b: built through from_fields with every string given as bytes (as the writer does for names / keys)
    for p in pts:
        full = p["kind"] == "union" or (p["kind"] == "presence" and len(p["present"]) == len(
            [1 for f in I["structs"][p["struct"]]["fields"].values() if f[1] != "required"]))
        if not full or not I["structs"][p["struct"]]["fields"]:
            continue
        for route in ("R2l", "R2L", "R1b"):
            if route == "R2L" and p["kind"] == "union" and tier != "thorough" and \
                    p["member"] != I["structs"][p["struct"]]["fields"][max(I["structs"][p["struct"]]["fields"])][0]:
                continue      # quick: of a union only the member with the highest id (largest delta)
            q = dict(p)
            q["route"] = route
            out.append(q)
    return out


def nesting_points(tier):
    pts = []
    rs = (0, 1, 3, 40) if tier == "thorough" else (0, 1, 3)
    cs = (1, 3, 40) if tier == "thorough" else (1, 3)
    for r in rs:
        for c in cs:
            for k in (0, 1, 3):
                for route in ("R1", "R2"):
                    pts.append({"kind": "nest", "r": r, "c": c, "k": k, "route": route})
    return pts


def big_points(tier):
    pts = []
    sizes = (499000, 500001, 2000000) if tier == "thorough" else (499000, 500001)
    for where in ("stat_max", "kv_value", "path", "created_by"):
        for n in sizes:
            for route in ("R1", "R2"):
                pts.append({"kind": "big", "where": where, "n": n, "route": route, "_fresh": True})
    # n = encoded bytes; kv_value_utf8: a str of n/3 three-byte characters (the buffer estimate counts characters);
    # col_kv_value: ColumnMetaData.key_value_metadata (not part of the estimate)
    usizes = (498000, 510000, 1998000) if tier == "thorough" else (498000, 510000)
    for where in ("kv_value_utf8", "col_kv_value"):
        for n in usizes:
            if where == "col_kv_value" and n < 500000 and tier != "thorough":
                continue
            for route in ("R1", "R2"):
                if route == "R2" and n < 500000 and tier != "thorough":
                    continue
                pts.append({"kind": "big", "where": where, "n": n, "route": route, "_fresh": True})
    return pts


AGG_QUICK = [(30, 20, 600, 0), (120, 50, 8, 0), (0, 6000, 0, 100)]
AGG_THOROUGH = AGG_QUICK + [(30, 20, 100, 0), (0, 600, 0, 100), (300, 100, 8, 0), (1, 2000, 200, 100), (400, 1, 1500, 0)]


def agg_points(tier):
    """many medium payloads, none above the 500000-byte floor: r row groups x c columns with min/max of `stat`
    bytes each and column names of `name` extra characters (r = 0: schema-only footer as in _common_metadata)"""
    pts = []
    for r, c, stat, name in (AGG_THOROUGH if tier == "thorough" else AGG_QUICK):
        for route in ("R1", "R2"):
            pts.append({"kind": "agg", "r": r, "c": c, "stat": stat, "name": name, "route": route, "_fresh": True,
                        "shape": "%dx%dx%d+%d" % (r, c, stat, name)})
    return pts


HIST_OPS = ["copy", "deepcopy", "sub_rgs", "file_path_copy", "file_path_alias", "kv_update", "append_r1",
            "set_schema", "del_created_by", "none_created_by"]


def hist_points(tier):
    """history: a foreign-looking FileMetaData (fields fastparquet never writes included) is parsed (R2) or built
    (R1), changed through the attribute API the way merge / append / metadata update do, then serialised"""
    shapes = [(1, 1, 0), (1, 3, 1), (3, 3, 3)] + ([(3, 1, 3), (40, 3, 3)] if tier == "thorough" else [])
    pts = []
    for r, c, k in shapes:
        for op in HIST_OPS:
            for route in ("R1", "R2"):
                pts.append({"kind": "hist", "r": r, "c": c, "k": k, "op": op, "route": route})
    return pts


EXT_WIRES = ["i64", "i16", "i8_neg", "double", "binary", "struct", "list_i64", "list_binary_nonutf8", "list_struct",
             "list_bool", "list_double", "list_i8", "list_list", "set_i32", "map_empty", "map_i32_binary"]


def ext_points(tier):
    """footers of newer writers: a field id the pinned IDL does not know (short-form header), carrying each compact
    wire type, inside the elements of a struct list; the known fields around it must parse unchanged"""
    return [{"kind": "ext", "wire": w, "uid": uid, "route": "R2"} for w in EXT_WIRES for uid in (12, 15)]


def written_points(tier):
    """R3: the structures exactly as the writer builds them (footer and every page header of written files)"""
    from mc import alphabets as A
    pts = []
    for kind in A.ALL_KINDS:
        for v in (1, 2):
            for comp in (None, "SNAPPY"):
                pts.append({"kind": "written", "colkind": kind, "v": v, "comp": comp, "route": "R3"})
    # writer options that change which structures are built / re-serialised
    for kind in A.ALL_KINDS:
        for v in (1, 2):
            for comp in ((None, "SNAPPY") if tier == "thorough" else (None,)):
                for opt in WRITTEN_OPTS:
                    pts.append({"kind": "written", "colkind": kind, "v": v, "comp": comp, "route": "R3", "opt": opt})
    return pts


WRITTEN_OPTS = ["nostats", "append", "partition", "utf8kv", "partfile"]


def explore(run, tier):
    I = idl()
    run.lattice("written", written_points(tier), "run_written")
    run.lattice("structs", struct_points(I, tier), "run")
    run.lattice("nesting", nesting_points(tier), "run")
    run.lattice("big", big_points(tier) + agg_points(tier), "run")
    run.lattice("history", hist_points(tier), "run_hist")
    run.lattice("history_files", [{"kind": "histfile", "op": op, "route": "R2"} for op in HISTFILE_OPS], "run_histfile")
    run.lattice("extension", ext_points(tier), "run_ext")


def crash_sig(point, res):
    s = {"kind": point.get("kind"), "struct": point.get("struct"), "where": point.get("where"),
         "route": point.get("route"), "symptom": res["outcome"],
         "size_class": ">500000" if point.get("n", 0) > 500000 else "<=500000"}
    for k in ("shape", "op", "wire", "opt"):
        if point.get(k) is not None:
            s[k] = point[k]
    return s


# ------------------------------------------------------------------ worker side
def build_value(I, p):
    k = p["kind"]
    if k == "union":
        spec = I["structs"][p["struct"]]
        f = [v for v in spec["fields"].values() if v[0] == p["member"]][0]
        return p["struct"], {p["member"]: field_value(I, f[2], 1)}
    if k == "presence":
        spec = I["structs"][p["struct"]]
        full = default_value(I, p["struct"], keep=p["present"])
        v = {}
        for fid, (fn, req, typ) in sorted(spec["fields"].items()):
            if req == "required" or fn in p["present"]:
                v[fn] = full[fn]
        return p["struct"], v
    if k == "special":
        spec = I["structs"][p["struct"]]
        v = default_value(I, p["struct"], keep=[p["field"]])
        typ = [t for (fn, req, t) in spec["fields"].values() if fn == p["field"]][0]
        v[p["field"]] = special_values(I, typ)[p["special"]]
        return p["struct"], v
    if k == "nest":
        return "FileMetaData", fmd_value(I, p["r"], p["c"], p["k"])
    if k == "big":
        v = fmd_value(I, 1, 1, 1)
        n = p["n"]
        if p["where"] == "stat_max":
            v["row_groups"][0]["columns"][0]["meta_data"]["statistics"] = {"max": b"M" * n, "min": b"m", "null_count": 0}
        elif p["where"] == "kv_value":
            v["key_value_metadata"][0]["value"] = "v" * n
        elif p["where"] == "path":
            v["row_groups"][0]["columns"][0]["file_path"] = "p" * n
        elif p["where"] == "kv_value_utf8":
            v["key_value_metadata"][0]["value"] = "\u4e2d" * (n // 3)
        elif p["where"] == "col_kv_value":
            v["row_groups"][0]["columns"][0]["meta_data"]["key_value_metadata"] = [{"key": "ck", "value": "w" * n}]
        else:
            v["created_by"] = "c" * n
        return "FileMetaData", v
    if k == "agg":
        v = fmd_value(I, p["r"], p["c"], 1, name_pad="n" * p["name"])
        for rg in v["row_groups"]:
            for ch in rg["columns"]:
                ch["meta_data"]["statistics"] = {"max": b"M" * p["stat"], "min": b"m" * p["stat"], "null_count": 0}
        return "FileMetaData", v
    raise KeyError(k)


def fmd_value(I, r, c, k, name_pad=""):
    schema = [{"name": "schema", "num_children": c}]
    for i in range(c):
        schema.append({"name": "col%d%s" % (i, name_pad), "type": 2, "repetition_type": 1, "converted_type": None})
        schema[-1] = {a: b for a, b in schema[-1].items() if b is not None}
    rgs = []
    for g in range(r):
        cols = []
        for i in range(c):
            md = {"type": 2, "encodings": [0, 3], "path_in_schema": ["col%d%s" % (i, name_pad)], "codec": 1,
                  "num_values": 10 + g, "total_uncompressed_size": 100, "total_compressed_size": 90,
                  "data_page_offset": 4 + 1000 * (g * c + i),
                  "statistics": {"max": b"\x09\0\0\0\0\0\0\0", "min": b"\0\0\0\0\0\0\0\0", "null_count": g},
                  "encoding_stats": [{"page_type": 0, "encoding": 0, "count": 1}]}
            cols.append({"file_path": "part.%d.parquet" % g, "file_offset": 4 + 1000 * (g * c + i), "meta_data": md})
        rgs.append({"columns": cols, "total_byte_size": 100 * c, "num_rows": 10 + g})
    v = {"version": 1, "schema": schema, "num_rows": sum(x["num_rows"] for x in rgs), "row_groups": rgs,
         "created_by": "fastparquet-python version 1.0 (build 0)"}
    if k:
        v["key_value_metadata"] = [{"key": "key%d" % i, "value": "value%d" % i} for i in range(k)]
    return v


def canon(I, typ, v):
    """canonical form of a generated / strictly decoded value: strings as bytes"""
    if v is None:
        return None
    if typ.startswith("list<"):
        return [canon(I, typ[5:-1], x) for x in v]
    if typ in I["structs"]:
        spec = I["structs"][typ]
        out = {}
        for fid, (fn, req, t) in spec["fields"].items():
            if v.get(fn) is not None:
                out[fn] = canon(I, t, v[fn])
        return out
    if typ in ("string", "binary"):
        return v.encode("utf8") if isinstance(v, str) else bytes(v)
    if typ == "bool":
        return bool(v)
    return v


def from_fp(I, typ, v, problems, where):
    """fastparquet's id-keyed dicts -> canonical name-keyed form"""
    if v is None:
        return None
    if typ.startswith("list<"):
        if not isinstance(v, list):
            problems.append("%s: list expected, got %s" % (where, type(v).__name__))
            return v
        return [from_fp(I, typ[5:-1], x, problems, where + "[]") for x in v]
    if typ in I["structs"]:
        if hasattr(v, "contents"):
            v = v.contents
        if not isinstance(v, dict):
            problems.append("%s: struct expected, got %s" % (where, type(v).__name__))
            return v
        spec = I["structs"][typ]
        out = {}
        for key, val in v.items():
            if not isinstance(key, int):
                continue
            if key not in spec["fields"]:
                problems.append("%s: unknown field id %r" % (where, key))
                continue
            fn, req, t = spec["fields"][key]
            if val is not None:
                out[fn] = from_fp(I, t, val, problems, where + "." + fn)
        return out
    if typ in ("string", "binary"):
        return v.encode("utf8") if isinstance(v, str) else (bytes(v) if isinstance(v, (bytes, bytearray, memoryview)) else v)
    if typ == "bool":
        return bool(v) if isinstance(v, (bool, int)) else v
    return v


def build_r1(I, sname, v, explicit_none=False, as_bytes=False):
    """Construct through ThriftObject.from_fields exactly as the writer does.
    explicit_none: absent fields are passed as None (crc=None, file_path=None ... in the writer);
    as_bytes: True: every string field is passed as bytes (name=b'schema', key=b'pandas' ... in the writer);
    "all": also the elements of string lists."""
    from fastparquet.cencoding import ThriftObject
    spec = I["structs"][sname]
    kwargs = {}
    for fid, (fn, req, typ) in spec["fields"].items():
        if fn not in v or v[fn] is None:
            if explicit_none:
                kwargs[fn] = None
            continue
        val = v[fn]
        if typ.startswith("list<") and typ[5:-1] in I["structs"]:
            val = [build_r1(I, typ[5:-1], x, explicit_none, as_bytes) for x in val]
        elif typ in I["structs"]:
            val = build_r1(I, typ, val, explicit_none, as_bytes)
        elif as_bytes and typ == "string":
            val = val.encode("utf8") if isinstance(val, str) else val
        elif as_bytes == "all" and typ == "list<string>":
            val = [x.encode("utf8") if isinstance(x, str) else x for x in val]
        kwargs[fn] = val
    kind, ids = MARKERS.get(sname, (None, None))
    if kind == "i32":
        return ThriftObject.from_fields(sname, i32=True, **kwargs)
    if kind == "i32list":
        return ThriftObject.from_fields(sname, i32list=list(ids), **kwargs)
    return ThriftObject.from_fields(sname, **kwargs)


def r1_filter(I, sname, v):
    """drop the fields the writer's marker scheme cannot express (documented R1 domain)"""
    spec = I["structs"][sname]
    out = {}
    for fid, (fn, req, typ) in spec["fields"].items():
        if fn not in v or v[fn] is None:
            continue
        if not r1_compatible(I, sname, fid, typ):
            if req == "required":
                return None
            continue
        val = v[fn]
        t = typ[5:-1] if typ.startswith("list<") else typ
        if t in I["structs"]:
            if typ.startswith("list<"):
                val = [r1_filter(I, t, x) for x in val]
                if any(x is None for x in val):
                    return None
            else:
                val = r1_filter(I, t, val)
                if val is None:
                    if req == "required":
                        return None
                    continue
        out[fn] = val
    if spec["union"] and not out:
        return None
    return out


SPECLESS = set()   # filled lazily: structs fastparquet's specs table does not know


def _mkbad(sig):
    def bad(symptom, detail, **extra):
        s = dict(sig)
        s["symptom"] = symptom
        s.update(extra)
        return {"ok": False, "outcome": symptom, "nontrivial": True, "sig": s, "detail": detail}
    return bad


def _flip(I, typ, val):
    """a value of the same type that differs from val (None: no such value can be derived)"""
    if typ == "bool":
        return not val
    if typ in INTW or typ in I["enums"]:
        return val ^ 1
    if typ in ("string", "binary"):
        return val + ("x" if isinstance(val, str) else b"x")
    if typ.startswith("list<"):
        if not val:
            return None
        e = _flip(I, typ[5:-1], val[-1])
        return None if e is None else list(val[:-1]) + [e]
    if typ in I["structs"]:
        for fid, (fn, req, t) in sorted(I["structs"][typ]["fields"].items()):
            if val.get(fn) is not None:
                e = _flip(I, t, val[fn])
                if e is not None:
                    out = dict(val)
                    out[fn] = e
                    return out
    return None


def neighbours(I, sname, v):
    """values that differ from v in exactly one place: per present top-level field one changed leaf, one list
    shortened by an element, one optional field removed"""
    spec = I["structs"][sname]
    out = []
    for fid, (fn, req, typ) in sorted(spec["fields"].items()):
        if v.get(fn) is None:
            continue
        e = _flip(I, typ, v[fn])
        if e is not None:
            nb = dict(v)
            nb[fn] = e
            out.append(("changed " + fn, nb))
        if typ.startswith("list<") and v[fn]:
            nb = dict(v)
            nb[fn] = list(v[fn][:-1])
            out.append(("shorter " + fn, nb))
        if req != "required" and not spec["union"]:
            nb = dict(v)
            del nb[fn]
            out.append(("without " + fn, nb))
    return out


def _as_bytes(route):
    return {"R1b": "all", "R1s": True}.get(route, False)


def _build(I, tc, ce, np, sname, v, route):
    if route in ("R1", "R1b", "R1s"):
        return build_r1(I, sname, v, as_bytes=_as_bytes(route))
    buf = np.frombuffer(tc.encode(sname, v), dtype=np.uint8).copy()
    return ce.ThriftObject(sname, ce.from_buffer(buf))


def _has_string_list(I, typ, v):
    if typ.startswith("list<"):
        return (typ == "list<string>" and bool(v)) or any(_has_string_list(I, typ[5:-1], e) for e in v)
    if typ in I["structs"]:
        return any(_has_string_list(I, t, v[fn]) for fid, (fn, req, t) in I["structs"][typ]["fields"].items()
                   if v.get(fn) is not None)
    return False


def check_object(I, tc, sname, x, v, route, bad, big=False, extras=True, mutated=False):
    """x: the ThriftObject under test, v: the value it must stand for (name-keyed plain dict).
    Serialises x and applies every oracle; returns the cell result."""
    import copy
    import pickle
    import numpy as np
    from fastparquet import cencoding as ce
    from mc.specpq.thrift import ThriftError
    want = canon(I, sname, v)
    spec_bytes = tc.encode(sname, v)
    # ---- serialise
    try:
        y = bytes(x.to_bytes())
    except Exception as e:
        if big:
            return {"ok": True, "outcome": "refused_too_large", "nontrivial": True,
                    "detail": "%s: %s" % (type(e).__name__, e)}
        return bad("to_bytes_raised", "%s: %s" % (type(e).__name__, e))
    # (2) strict IDL decode yields the value
    try:
        back, end = tc.decode(sname, y, 0, strict=True, tolerate={"empty_list_type0"})
        if end != len(y):
            return bad("trailing_bytes", "%d bytes after the struct" % (len(y) - end))
    except ThriftError as e:
        return bad("not_idl_conformant", "strict decode of to_bytes(): %s" % e, **_idl_field(str(e)))
    got = canon(I, sname, back)
    if got != want:
        return bad("lossy", "to_bytes() decodes to a different value: %s" % _diff(want, got), **_field_of(want, got))
    # (3) length
    if len(y) != len(spec_bytes):
        return bad("length_differs", "to_bytes() is %d bytes, the spec encoding %d" % (len(y), len(spec_bytes)))
    # (1) own parser round trip, deep comparison and ==
    try:
        zio = ce.NumpyIO(np.frombuffer(y + b"\xAA" * 8 + bytes(64), dtype=np.uint8).copy())
        z = ce.ThriftObject(sname, ce.from_buffer(zio))
    except Exception as e:
        return bad("reparse_raised", "%s: %s" % (type(e).__name__, e))
    if zio.tell() != len(y):
        return bad("parse_consumed", "from_buffer(to_bytes(x)) consumed %d of %d bytes" % (zio.tell(), len(y)))
    probs = []
    zz = from_fp(I, sname, z.contents, probs, sname)
    if probs or zz != want:
        return bad("roundtrip_differs", "from_buffer(to_bytes(x)) != x: %s" % (probs or _diff(want, zz)), **_field_of(want, zz))
    # ThriftObject.__eq__ tolerates str-vs-bytes only with the str on the left: accept either direction
    if route == "R1b" and _has_string_list(I, sname, v):
        pass    # string lists are parsed to str elements, which == does not equate with bytes elements
    elif not (z == x or x == z):
        return bad("eq_false", "from_buffer(to_bytes(x)) == x is False in both directions")
    if route.startswith("R2") and not mutated and not (z == x and x == z and not (z != x) and not (x != z)):
        # both sides were parsed (bytes everywhere): the documented one-sided tolerance is not needed
        return bad("eq_false", "parsed x and from_buffer(to_bytes(x)): == is not True in both directions / != is True")
    # pickle
    try:
        pk = pickle.loads(pickle.dumps(x))
        probs = []
        pp = from_fp(I, sname, pk.contents, probs, sname)
        if probs or pp != want:
            return bad("pickle_differs", "pickle round trip: %s" % (probs or _diff(want, pp)), **_field_of(want, pp))
    except Exception as e:
        return bad("pickle_raised", "%s: %s" % (type(e).__name__, e))
    counts = {"bytes": len(y), "tolerated_empty_list_type0": tc.deviations.get("empty_list_type0", 0)}
    if big or not extras:
        return {"ok": True, "outcome": "lossless", "nontrivial": bool(want), "counts": counts}
    # ---- copies serialise identically and are equal; a deep copy is independent of the original
    for how, fn in (("copy", copy.copy), ("deepcopy", copy.deepcopy), ("method_copy", lambda o: o.copy())):
        try:
            cp = fn(x)
            if cp.thrift_name != sname or bytes(cp.to_bytes()) != y:
                return bad("copy_differs", "%s(x) serialises differently from x" % how, how=how)
            if not (cp == x and x == cp):
                return bad("copy_differs", "%s(x) == x is False" % how, how=how)
        except Exception as e:
            return bad("copy_raised", "%s: %s: %s" % (how, type(e).__name__, e), how=how)
    dc = copy.deepcopy(x)
    _scramble(dc.contents)
    if bytes(x.to_bytes()) != y:
        return bad("copy_differs", "changing deepcopy(x) in place changed x", how="deepcopy_shared")
    # ---- inequality: every value that differs in one place must compare unequal, in both directions
    nneg = 0
    for label, nb in neighbours(I, sname, v):
        if canon(I, sname, nb) == want:
            continue
        try:
            o = _build(I, tc, ce, np, sname, nb, route)
        except Exception as e:
            return bad("harness_neighbour", "cannot build the neighbour value (%s): %s: %s" % (label, type(e).__name__, e))
        nneg += 1
        if (x == o) or (o == x) or not (x != o) or not (o != x):
            return bad("eq_true_for_different", "x == (x with %s) is True (or != is False) in some direction: "
                       "x==o %r, o==x %r, x!=o %r, o!=x %r" % (label, x == o, o == x, x != o, o != x),
                       at=label.split()[0])
    counts["unequal_pairs"] = nneg
    # ---- None for an absent field is the same structure as leaving it out (R1: the writer passes crc=None ...)
    if route in ("R1", "R1b"):
        try:
            xn = build_r1(I, sname, v, explicit_none=True, as_bytes=_as_bytes(route))
            if bytes(xn.to_bytes()) != y:
                return bad("none_differs", "fields given as None change the serialisation")
            if not (xn == x and x == xn):
                return bad("none_differs", "x with absent fields given as None == x is False")
        except Exception as e:
            return bad("none_raised", "%s: %s" % (type(e).__name__, e))
    return {"ok": True, "outcome": "lossless", "nontrivial": bool(want), "counts": counts}


def _scramble(d):
    """change every value of a contents dict in place (recursively)"""
    for k in list(d):
        val = d[k]
        if isinstance(val, dict):
            _scramble(val)
        elif isinstance(val, list):
            for e in val:
                if isinstance(e, dict):
                    _scramble(e)
            val.append(0)
        elif isinstance(k, int):
            d[k] = None


def run(p):
    import numpy as np
    from fastparquet import cencoding as ce
    from mc.specpq.thrift import codec
    I = idl()
    tc = codec()
    sname, v = build_value(I, p)
    route = p["route"]
    sig = {"struct": sname, "route": route, "kind": p["kind"]}
    if p["kind"] in ("special", "union"):
        sig["field"] = p.get("field") or p.get("member")
    if p["kind"] == "big":
        sig["where"] = p["where"]
        sig["size_class"] = ">500000" if p["n"] > 500000 else "<=500000"
    if p["kind"] == "agg":
        sig["shape"] = p["shape"]
    bad = _mkbad(sig)

    if route in ("R1", "R1b"):
        try:
            ce.ThriftObject(sname, {})
        except KeyError:
            return {"ok": True, "outcome": "not_constructible_r1", "nontrivial": False}
        v = r1_filter(I, sname, v)
        if v is None:
            return {"ok": True, "outcome": "outside_r1_domain", "nontrivial": False}
        try:
            x = build_r1(I, sname, v, as_bytes=_as_bytes(route))
        except KeyError as e:
            return {"ok": True, "outcome": "not_constructible_r1", "nontrivial": False, "detail": str(e)}
    want = canon(I, sname, v)
    if route in ("R2", "R2l", "R2L"):
        # the bytes a foreign writer may produce: canonical, or with long-form list / field headers
        spec_in = tc.encode(sname, v, long_fields=route == "R2L", long_lists=route == "R2l")
        # R2L: a parser that loses its place must run into stop bytes, not into whatever follows on the heap
        buf = np.frombuffer(spec_in + (bytes(1 << 16) if route == "R2L" else b""), dtype=np.uint8).copy()
        if not _has_spec(ce, sname):
            # struct unknown to fastparquet's tables: only reachable nested inside a known parent
            return {"ok": True, "outcome": "no_standalone_api", "nontrivial": False}
        try:
            x = ce.ThriftObject(sname, ce.from_buffer(buf))
        except Exception as e:
            return bad("parse_raised", "from_buffer raised %s: %s" % (type(e).__name__, e))
        probs = []
        parsed = from_fp(I, sname, x.contents, probs, sname)
        if probs or parsed != want:
            return bad("parse_wrong", "from_buffer(spec bytes) != value: %s" % (probs or _diff(want, parsed)),
                       **_field_of(want, parsed))
        # the same struct inside a larger buffer, read from a NumpyIO positioned on it (page headers are read
        # that way): same value, and the position afterwards is the end of the struct
        pre = b"\x15\x02\x19\x00"
        try:
            nio = ce.NumpyIO(np.frombuffer(pre + spec_in + b"\x15\x04" * 4 + bytes(64), dtype=np.uint8).copy())
            nio.seek(len(pre))
            d2 = ce.from_buffer(nio)
            pos = nio.tell()
            x3 = ce.from_buffer(bytes(spec_in), sname)          # read-only bytes input, name given
        except Exception as e:
            return bad("parse_raised", "from_buffer(NumpyIO at offset / bytes) raised %s: %s" % (type(e).__name__, e))
        if pos != len(pre) + len(spec_in):
            return bad("parse_consumed", "from_buffer consumed %d bytes of a %d-byte struct" % (pos - len(pre), len(spec_in)))
        for what, d in (("NumpyIO at offset", d2), ("bytes input", x3.contents)):
            probs = []
            if probs or from_fp(I, sname, d, probs, sname) != want:
                return bad("parse_wrong", "from_buffer(%s) != value" % what, at=what.split()[0])
    return check_object(I, tc, sname, x, v, route, bad, big=p["kind"] in ("big", "agg"))


# ------------------------------------------------------------------ history
def foreign_fmd(I, r, c, k):
    """fmd_value plus fields that other writers set and fastparquet never does (none of them isolated)"""
    v = fmd_value(I, r, c, k)
    v["column_orders"] = [{"TYPE_ORDER": {}} for _ in range(c)]
    for g, rg in enumerate(v["row_groups"]):
        rg["sorting_columns"] = [{"column_idx": 0, "descending": False, "nulls_first": True}]
        rg["file_offset"] = 4 + 1000 * g * c
        rg["total_compressed_size"] = 90 * c
        for i, ch in enumerate(rg["columns"]):
            ch["offset_index_offset"] = 5000000000 + i
            ch["offset_index_length"] = 77
            ch["column_index_offset"] = 6000000000 + i
            ch["column_index_length"] = 33
            md = ch["meta_data"]
            md["dictionary_page_offset"] = md["data_page_offset"] - 1
            md["key_value_metadata"] = [{"key": "ck", "value": "cv%d" % i}]
            md["statistics"].update({"distinct_count": 3, "max_value": b"\x09\0\0\0\0\0\0\0",
                                     "min_value": b"\0\0\0\0\0\0\0\0"})
    return v


def apply_history(I, op, x, v, route):
    """perform op on the ThriftObject x through the public attribute API and on the plain value v; -> (x, v)"""
    import copy
    if op == "copy":
        return copy.copy(x), v
    if op == "deepcopy":
        return copy.deepcopy(x), v
    if op == "sub_rgs":                      # api.ParquetFile row-group selection / remove_row_groups
        x = copy.copy(x)
        x.row_groups = x.row_groups[:1]
        x.num_rows = sum(rg.num_rows for rg in x.row_groups)
        v["row_groups"] = v["row_groups"][:1]
        v["num_rows"] = sum(rg["num_rows"] for rg in v["row_groups"])
        return x, v
    if op == "file_path_copy":               # util.metadata_from_many, legacy path
        fmd = copy.copy(x)
        rgs = []
        for rg in x.row_groups:
            rg = copy.copy(rg)
            rg.columns = [copy.copy(ch) for ch in rg.columns]
            for ch in rg.columns:
                fp = ch.file_path
                ch.file_path = "/".join(["dé", fp if isinstance(fp, str) else fp.decode()])
            rgs.append(rg)
        fmd.row_groups = rgs
        fmd.num_rows = sum(rg.num_rows for rg in fmd.row_groups)
        for rg in v["row_groups"]:
            for ch in rg["columns"]:
                ch["file_path"] = "dé/" + ch["file_path"]
        return fmd, v
    if op == "file_path_alias":              # util.metadata_from_many, ParquetFile path: in place through wrappers
        for rg in x.row_groups:
            rg.columns[0].file_path = "other.parquet"
        for rg in v["row_groups"]:
            rg["columns"][0]["file_path"] = "other.parquet"
        return x, v
    if op == "kv_update":                    # util.update_custom_metadata (update_file_custom_metadata)
        from fastparquet.util import update_custom_metadata
        update_custom_metadata(x, {"key0": "néw", "key1": None, "added": b"\x00\xffraw", "absent": None})
        kv = [dict(e) for e in v.get("key_value_metadata") or []]
        kv = [e for e in kv if e["key"] != "key1"]
        if not any(e["key"] == "key0" for e in kv):
            kv.append({"key": "key0", "value": None})
        for e in kv:
            if e["key"] == "key0":
                e["value"] = "néw"
        kv.append({"key": "added", "value": b"\x00\xffraw"})
        v["key_value_metadata"] = kv
        return x, v
    if op == "append_r1":                    # append: parsed row groups followed by freshly built ones
        g = len(v["row_groups"])
        extra = fmd_value(I, g + 1, len(v["schema"]) - 1, 0)["row_groups"][-1]
        x.row_groups = x.row_groups + [build_r1(I, "RowGroup", extra)]
        x.num_rows = sum(rg.num_rows for rg in x.row_groups)
        v["row_groups"] = v["row_groups"] + [extra]
        v["num_rows"] = sum(rg["num_rows"] for rg in v["row_groups"])
        return x, v
    if op == "set_schema":                   # util.metadata_from_many: pf0.fmd.schema = v.schema
        x.schema = x.schema
        x.key_value_metadata = x.key_value_metadata or []
        if not v.get("key_value_metadata"):
            v["key_value_metadata"] = []
        return x, v
    if op == "del_created_by":
        del x.created_by
        del v["created_by"]
        return x, v
    if op == "none_created_by":
        x.created_by = None
        del v["created_by"]
        return x, v
    raise KeyError(op)


def run_hist(p):
    import copy
    import numpy as np
    from fastparquet import cencoding as ce
    from mc.specpq.thrift import codec
    I = idl()
    tc = codec()
    route = p["route"]
    bad = _mkbad({"kind": "hist", "op": p["op"], "route": route, "struct": "FileMetaData"})
    v = foreign_fmd(I, p["r"], p["c"], p["k"])
    if route == "R1":
        v = r1_filter(I, "FileMetaData", v)
    try:
        # R1: strings as bytes, like make_metadata / update_custom_metadata build them
        x = _build(I, tc, ce, np, "FileMetaData", v, "R1s" if route == "R1" else "R2")
        before = bytes(x.to_bytes())
        x2, v2 = apply_history(I, p["op"], x, copy.deepcopy(v), route)
    except Exception as e:
        return bad("history_raised", "%s: %s" % (type(e).__name__, e))
    res = check_object(I, tc, "FileMetaData", x2, v2, route, bad, extras=False, mutated=True)
    if res["ok"] and p["op"] in ("copy", "deepcopy", "sub_rgs", "file_path_copy"):
        # these work on copies: the original must still serialise as before
        if bytes(x.to_bytes()) != before:
            return bad("original_changed", "%s changed the structure it was applied to" % p["op"])
    return res


HISTFILE_OPS = ["update_kv_file", "update_kv_metadata_file", "merge_two"]


def _foreign_file(I, tc, rows, kv):
    """a file as another writer would produce it: specpq pages and a footer with fields fastparquet never writes"""
    import struct
    from mc.specpq import writer as W
    spec = {"created_by": "other-writer 1.0", "kv": kv,
            "columns": [{"name": "a", "ptype": 2, "type_length": None, "rep": "required", "ct": None, "lt": None,
                         "scale": None, "precision": None, "nested": None},
                        {"name": "s", "ptype": 6, "type_length": None, "rep": "optional", "ct": 0, "lt": None,
                         "scale": None, "precision": None, "nested": None}],
            "row_groups": [{"a": {"rows": rows[:2], "pages": None, "codec": 0, "dictionary": None, "stats": None},
                            "s": {"rows": [b"x", None], "pages": None, "codec": 0, "dictionary": None, "stats": None}},
                           {"a": {"rows": rows[2:], "pages": None, "codec": 0, "dictionary": None, "stats": None},
                            "s": {"rows": [None] * len(rows[2:]), "pages": None, "codec": 0, "dictionary": None,
                                  "stats": None}}]}
    data = W.write_file(spec)
    flen = struct.unpack("<I", data[-8:-4])[0]
    start = len(data) - 8 - flen
    fmd, _ = tc.decode("FileMetaData", data, start, strict=True)
    fmd["column_orders"] = [{"TYPE_ORDER": {}}, {"TYPE_ORDER": {}}]
    for g, rg in enumerate(fmd["row_groups"]):
        rg["sorting_columns"] = [{"column_idx": 0, "descending": True, "nulls_first": False}]
        rg["file_offset"] = rg["columns"][0]["meta_data"]["data_page_offset"]
        rg["total_compressed_size"] = sum(c["meta_data"]["total_compressed_size"] for c in rg["columns"])
        for c in rg["columns"]:
            c["meta_data"].setdefault("statistics", {})["distinct_count"] = 2
            c["offset_index_offset"] = 5000000000
            c["offset_index_length"] = 77
    fb = tc.encode("FileMetaData", fmd)
    return data[:start] + fb + struct.pack("<I", len(fb)) + data[-4:], fmd


def run_histfile(p):
    """the library's own entry points for re-serialising foreign metadata, on files"""
    import copy
    import os
    import struct
    import fastparquet
    from fastparquet import writer as fw
    from mc.scratch import scratch
    from mc.specpq import file as F
    from mc.specpq.thrift import codec
    I = idl()
    tc = codec()
    bad = _mkbad({"kind": "histfile", "op": p["op"], "route": "R2", "struct": "FileMetaData"})
    d = scratch()
    kv = [("key0", "value0"), ("key1", "value1")]
    data, fmd = _foreign_file(I, tc, [1, 2, 3, 4, 5], kv)
    try:
        if p["op"] in ("update_kv_file", "update_kv_metadata_file"):
            meta = p["op"] == "update_kv_metadata_file"
            path = os.path.join(d, "_metadata" if meta else "f.parquet")
            if meta:
                fb = tc.encode("FileMetaData", fmd)
                data = b"PAR1" + fb + struct.pack("<I", len(fb)) + b"PAR1"
            open(path, "wb").write(data)
            fw.update_file_custom_metadata(path, {"key0": "néw", "key1": None, "added": "v"})
            out = open(path, "rb").read()
            want = copy.deepcopy(fmd)
            want["key_value_metadata"] = [{"key": "key0", "value": "néw"}, {"key": "added", "value": "v"}]
            got = (F.read_footer(out) if meta else F.read_file(out))
            if not meta and got.errors:
                return bad("file_invalid", "after update_file_custom_metadata: %s" % got.errors[0])
            if not meta and out[:got.footer_start] != data[:got.footer_start]:
                return bad("data_changed", "update_file_custom_metadata changed bytes before the footer")
        else:
            data2, fmd2 = _foreign_file(I, tc, [6, 7, 8], kv)
            paths = [os.path.join(d, "part.0.parquet"), os.path.join(d, "part.1.parquet")]
            open(paths[0], "wb").write(data)
            open(paths[1], "wb").write(data2)
            fw.merge(paths)
            out = open(os.path.join(d, "_metadata"), "rb").read()
            want = copy.deepcopy(fmd)
            want["row_groups"] = copy.deepcopy(fmd["row_groups"]) + copy.deepcopy(fmd2["row_groups"])
            for i, rg in enumerate(want["row_groups"]):
                for c in rg["columns"]:
                    c["file_path"] = "part.%d.parquet" % (0 if i < len(fmd["row_groups"]) else 1)
            want["num_rows"] = fmd["num_rows"] + fmd2["num_rows"]
            got = F.read_footer(out)
    except F.FormatError as e:
        return bad("not_idl_conformant" if "does not follow the IDL" in str(e) else "file_invalid", str(e),
                   **_idl_field(str(e).split("IDL: ")[-1]))
    except Exception as e:
        return bad("history_raised", "%s: %s" % (type(e).__name__, e))
    a, b = canon(I, "FileMetaData", want), canon(I, "FileMetaData", got.fmd)
    if a != b:
        return bad("lossy", "footer after %s: %s" % (p["op"], _diff(a, b)), **_field_of(a, b))
    return {"ok": True, "outcome": "lossless", "nontrivial": True}


# ------------------------------------------------------------------ fields of newer IDL versions
def _ext_payload(w):
    """-> (compact wire type, payload bytes) of an unknown field"""
    import struct
    from mc.specpq.thrift import uvarint, zigzag
    d = struct.pack("<d", 1.5)
    return {
        "i64": (6, uvarint(zigzag(1 << 40))),
        "i16": (4, uvarint(zigzag(-300))),
        "i8_neg": (3, b"\xff"),
        "double": (7, d),
        "binary": (8, b"\x03\x00\xff\x00"),
        "struct": (12, b"\x16\x02\x18\x01z\x00"),
        "list_i64": (9, b"\x26" + uvarint(zigzag(5)) + uvarint(zigzag(1 << 40))),
        "list_binary_nonutf8": (9, b"\x18\x02\xff\xfe"),
        "list_struct": (9, b"\x2c\x16\x02\x00\x00"),
        "list_bool": (9, b"\x31\x01\x02\x01"),
        "list_double": (9, b"\x27" + d + d),
        "list_i8": (9, b"\x33\x01\x00\xff"),
        "list_list": (9, b"\x29\x15\x02\x25\x04\x06"),
        "set_i32": (10, b"\x25\x02\x04"),
        "map_empty": (11, b"\x00"),
        "map_i32_binary": (11, b"\x01\x58\x02\x01q"),
    }[w]


def run_ext(p):
    import numpy as np
    from fastparquet import cencoding as ce
    from mc.specpq.thrift import codec
    tc = codec()
    bad = _mkbad({"kind": "ext", "wire": p["wire"], "route": "R2", "struct": "FileMetaData"})
    ct, payload = _ext_payload(p["wire"])
    uid = p["uid"]

    def se(name, nchild):
        # SchemaElement: name (4), num_children (5), unknown field uid, nothing else
        return b"\x48" + bytes([len(name)]) + name + b"\x15" + bytes([nchild * 2]) + bytes([((uid - 5) << 4) | ct]) + payload + b"\x00"
    # FileMetaData: version, schema [root, leaf], num_rows, row_groups [], created_by
    raw = (b"\x15\x02" + b"\x19\x2c" + se(b"schema", 1) + se(b"leaf", 0) + b"\x16\x0e" + b"\x19\x0c" + b"\x28\x02cb" + b"\x00")
    # the spec reader, not strict about unknown ids, defines what the known fields are
    ref, end = tc.decode("FileMetaData", raw, 0, strict=False)
    if end != len(raw) or ref["num_rows"] != 7 or [e["name"] for e in ref["schema"]] != ["schema", "leaf"]:
        return {"ok": False, "outcome": "harness_error", "nontrivial": True, "detail": "ext bytes are not what was meant: %r" % (ref,)}
    try:
        nio = ce.NumpyIO(np.frombuffer(raw + b"\xAA" * 8 + bytes(64), dtype=np.uint8).copy())
        d = ce.from_buffer(nio)
    except Exception as e:
        return bad("parse_raised", "%s: %s" % (type(e).__name__, e))
    known = {}
    try:
        known = {"version": d.get(1), "num_rows": d.get(3), "created_by": d.get(6), "row_groups": d.get(4),
                 "names": [e.get(4) for e in d.get(2)], "children": [e.get(5) for e in d.get(2)]}
    except Exception as e:
        return bad("parse_wrong", "known fields around an unknown %s field: %s: %s in %r" % (p["wire"], type(e).__name__, e, d))
    exp = {"version": 1, "num_rows": 7, "created_by": b"cb", "row_groups": [], "names": [b"schema", b"leaf"],
           "children": [1, 0]}
    if known != exp or nio.tell() != len(raw):
        return bad("parse_wrong", "known fields around an unknown %s field (id %d): expected %r got %r, consumed %d of %d"
                   % (p["wire"], uid, exp, known, nio.tell(), len(raw)))
    return {"ok": True, "outcome": "skipped_unknown", "nontrivial": True}


def run_written(p):
    import os
    import re
    import pandas as pd
    import fastparquet
    from fastparquet import writer as fw
    from mc import alphabets as A, wr
    from mc.scratch import scratch
    from mc.specpq import file as F
    kind = p["colkind"]
    opt = p.get("opt", "base")
    d = scratch()
    errs = {}
    other = {}
    files = 0
    compared = 0
    for pat in (["none", "alt"] if kind in A.NULLABLE_KINDS else ["none"]):
        for scheme in ("simple", "hive"):
            if opt == "partition" and scheme == "simple":
                continue
            if opt == "partfile" and scheme == "hive":
                continue
            df = pd.DataFrame({"c": A.series(kind, 9, pat), "k": A.series("int64", 9, "none", 1, "k")})
            if opt == "partition":
                df["g"] = [0, 1, 0, 1, 0, 1, 0, 1, 0]
            path = os.path.join(d, ("w-%s.parquet" if scheme == "simple" else "wds-%s") % pat)
            cm = {"k": "v"}
            if opt == "utf8kv":
                cm = {"k": "é中" * 100, "ké": "v", "b": b"\x00\xff"}
            kw = dict(compression=p["comp"], file_scheme=scheme, row_group_offsets=[0, 5], write_index=False,
                      custom_metadata=cm, stats=(False if opt == "nostats" else True))
            if opt == "partition":
                kw["partition_on"] = ["g"]
            nrows = len(df)
            try:
                with wr.PageCfg(p["v"], wr.tiny_page_size(df, 4)):
                    if opt == "partfile":
                        # the public helper dask uses; without fmd it builds its own FileMetaData
                        fmd = fw.make_metadata(df, index_cols=[], object_encoding="infer")
                        part = fw.make_part_file(open(path, "wb"), df, fmd.schema, compression=p["comp"], fmd=None)
                        cm = None
                    else:
                        fastparquet.write(path, df, **kw)
                        if opt == "append":
                            fastparquet.write(path, df, append=True, **kw)
                            nrows = 2 * len(df)
            except Exception as e:
                # a structure the writer built could not be serialised (or the write failed earlier): never silent
                other.setdefault("write_raised", "%s %s nulls=%s opt=%s: %s: %s" % (kind, scheme, pat, opt, type(e).__name__, e))
                continue
            for f in wr.listing(path):
                files += 1
                data = open(f, "rb").read()
                base = os.path.basename(f)
                try:
                    if base in ("_metadata", "_common_metadata"):
                        pr = F.read_footer(data)
                    else:
                        pr = F.read_file(data)
                        if pr.errors:
                            other.setdefault("file_invalid", "%s %s nulls=%s: %s" % (kind, base, pat, pr.errors[0]))
                except F.FormatError as e:
                    m = re.search(r"does not follow the IDL: (\w+)\.(\w+)", str(e)) or re.search(r"does not follow the IDL: (\w+): (.{0,30})", str(e))
                    if m:
                        at = "%s.%s" % (m.group(1), m.group(2))
                        errs.setdefault(at, "%s %s nulls=%s: %s" % (kind, os.path.basename(f), pat, e))
                    elif "footer" in str(e) or "magic" in str(e) or "IDL" in str(e):
                        # truncated / over-long footer, page header that cannot be decoded
                        other.setdefault("footer_invalid", "%s %s nulls=%s: %s" % (kind, base, pat, e))
                    continue
                except Exception:
                    continue
                # ---- the values the writer put into the structures are the ones in the bytes
                fm = pr.fmd
                compared += 1
                kvs = {(_s(e["key"])): e.get("value") for e in fm.get("key_value_metadata") or []}
                for key, val in (cm or {}).items():
                    if key not in kvs or _b(kvs[key]) != _b(val):
                        other.setdefault("kv_wrong", "%s %s: custom metadata %r came out as %r" % (kind, base, key, kvs.get(key)))
                if base == "_common_metadata":
                    if fm["row_groups"]:
                        other.setdefault("value_wrong", "%s: _common_metadata with row groups" % kind)
                    continue
                rows = sum(rg["num_rows"] for rg in fm["row_groups"])
                if fm["num_rows"] != rows:
                    other.setdefault("value_wrong", "%s %s: num_rows %d, row groups hold %d" % (kind, base, fm["num_rows"], rows))
                if base == "_metadata" or scheme == "simple":
                    if fm["num_rows"] != nrows:
                        other.setdefault("value_wrong", "%s %s: num_rows %d, %d rows were written" % (kind, base, fm["num_rows"], nrows))
                for rg in fm["row_groups"]:
                    for cc in rg["columns"]:
                        md = cc["meta_data"]
                        if md["num_values"] != rg["num_rows"]:
                            other.setdefault("value_wrong", "%s %s: chunk %r num_values %d in a row group of %d rows"
                                             % (kind, base, md["path_in_schema"], md["num_values"], rg["num_rows"]))
                        st = md.get("statistics")
                        if opt == "nostats" and st and (st.get("max") is not None or st.get("min") is not None
                                                        or st.get("max_value") is not None):
                            other.setdefault("value_wrong", "%s %s: stats=False but min/max stored" % (kind, base))
                        if base == "_metadata" and not cc.get("file_path"):
                            other.setdefault("value_wrong", "%s: _metadata chunk without file_path" % kind)
    sigs = [{"kind": "written", "route": "R3", "symptom": "not_idl_conformant", "at": at, "v": p["v"]} for at in errs]
    for sym in other:
        sigs.append({"kind": "written", "route": "R3", "symptom": sym, "v": p["v"], "opt": opt, "colkind": kind})
    if sigs:
        first = list(errs.values())[0] if errs else list(other.values())[0]
        return {"ok": False, "outcome": sigs[0]["symptom"], "nontrivial": True, "sig": sigs,
                "detail": first, "counts": {"files": files}}
    return {"ok": True, "outcome": "idl_conformant", "nontrivial": files > 0,
            "counts": {"files": files, "footers_compared": compared}}


def _s(x):
    return x if isinstance(x, str) else bytes(x).decode("utf8", "replace")


def _b(x):
    return x.encode("utf8") if isinstance(x, str) else bytes(x)


def _has_spec(ce, sname):
    try:
        ce.ThriftObject(sname, {})
        return True
    except KeyError:
        return False


def _diff(a, b, path=""):
    if isinstance(a, dict) and isinstance(b, dict):
        for k in sorted(set(a) | set(b)):
            if a.get(k) != b.get(k):
                return _diff(a.get(k), b.get(k), path + "." + k)
    if isinstance(a, list) and isinstance(b, list):
        if len(a) != len(b):
            return "%s: list length %d vs %d" % (path, len(a), len(b))
        for i, (x, y) in enumerate(zip(a, b)):
            if x != y:
                return _diff(x, y, path + "[%d]" % i)
    ra, rb = repr(a), repr(b)
    return "%s: expected %s got %s" % (path, ra[:80] + ("..(%d)" % len(ra) if len(ra) > 80 else ""),
                                       rb[:80] + ("..(%d)" % len(rb) if len(rb) > 80 else ""))


def _field_of(a, b, path=""):
    """name of the first differing field (for narrow signatures)"""
    import re
    d = _diff(a, b)
    m = re.match(r"([\.\w\[\]]*):", d)
    f = re.sub(r"\[\d+\]", "[]", m.group(1)) if m else ""
    return {"at": f}


def _idl_field(msg):
    import re
    m = re.match(r"(\w+)\.(\w+)", msg)
    if m:
        return {"at": "%s.%s" % (m.group(1), m.group(2))}
    m = re.match(r"(\w+): unknown field id (\d+)", msg)
    if m:
        return {"at": "%s#%s" % (m.group(1), m.group(2))}
    return {"at": msg[:40]}


LEVEL_TEXT = ("Bounded-exhaustive lattice over IDL-generated metadata values (every optional-field subset of small "
              "structs, single/pair presence for large ones, boundary list/string/integer values, FileMetaData "
              "nestings, payloads across the 500000-byte buffer singly, as non-ASCII text and in aggregate) on the "
              "construction routes built / parsed (canonical and long-form encodings) / written by the writer under "
              "its options / changed through the attribute API after parsing; each value is "
              "serialised by the real code and decoded by a strict decoder driven by the IDL text, so symmetric "
              "errors in fastparquet's own hand-maintained tables are visible; equality is checked in both senses "
              "(equal after a round trip, unequal for every one-place neighbour).")
LEVEL_NOTE = ("Trusted: pinned parse of parquet.thrift, specpq compact protocol, CPython pickle. Large payloads "
              "run one per fresh process so heap corruption cannot leak into other points; memory safety proper "
              "is C12's job.")
TECHNIQUE = "bounded exhaustive enumeration of IDL-generated thrift values, strict IDL-driven decode as oracle"
