"""C10 - metadata serialisation is lossless, IDL-conformant and safe for any size.

Explorer L.  Values are generated from the IDL table for every struct reachable
from FileMetaData and PageHeader.  Two routes:
  R1  built through ThriftObject.from_fields with the writer's i32 markers
  R2  encoded by specpq from the IDL, parsed by from_buffer, re-serialised
Oracle: strict IDL-driven decode of to_bytes(x) yields x; same length as the
spec encoding; from_buffer(to_bytes(x)) == x (own deep comparison and ==);
pickle round trip.
"""
import itertools

ID = "C10"
LEVEL = "exploration"
FLAVOUR = "plain"
TIMEOUT = 120
RULE = ("R3: every footer and page header of files written for each column kind x v1/v2 x codec x null pattern x "
        "simple/hive, decoded strictly; points = (route R1|R2) x (struct reachable from FileMetaData/PageHeader) x (presence pattern: every "
        "subset of optional fields for structs with <= 6 optional fields, else none/all/each single/each pair) "
        "+ per-field special values (list lengths 0,1,2,14,15,16,300; string lengths 0,1,127,128,16383,16384; "
        "integer extremes of the declared width) + FileMetaData nestings r x c x k + large payloads "
        "(499000..2000000 bytes, each in a fresh process); non-trivial = the struct has >= 1 field set and "
        "its serialisation was decoded and compared")
ASSUMPTIONS = ["the pinned parse of parquet.thrift is the IDL", "specpq compact-protocol codec is the specification",
               "R1 covers the fields whose integer width the writer's i32/i32list markers can express"]

ROOTS = ["FileMetaData", "PageHeader"]
MARKERS = {"SchemaElement": ("i32", None), "PageHeader": ("i32", None), "DataPageHeader": ("i32", None),
           "DataPageHeaderV2": ("i32", None), "DictionaryPageHeader": ("i32", None),
           "PageEncodingStats": ("i32", None), "ColumnMetaData": ("i32list", [1, 4]),
           "FileMetaData": ("i32list", [1]), "SortingColumn": ("i32", None), "DecimalType": ("i32", None)}
INTW = {"byte": 8, "i8": 8, "i16": 16, "i32": 32, "i64": 64}


def idl():
    from mc.specpq.thrift import load_idl
    return load_idl()[0]


def reachable(I):
    seen, todo = [], list(ROOTS)
    while todo:
        s = todo.pop(0)
        if s in seen:
            continue
        seen.append(s)
        for fid, (fn, req, typ) in sorted(I["structs"][s]["fields"].items()):
            t = typ[5:-1] if typ.startswith("list<") else typ
            if t in I["structs"]:
                todo.append(t)
    return seen


def r1_compatible(I, sname, fid, typ):
    """can the writer's marker scheme express the declared integer width?"""
    t = typ[5:-1] if typ.startswith("list<") else typ
    if t in I["enums"]:
        t = "i32"
    if t not in INTW:
        return True
    if typ.startswith("list<"):
        return t == "i32"          # write_list always writes I32 elements
    kind, ids = MARKERS.get(sname, (None, None))
    marked = kind == "i32" or (kind == "i32list" and fid in ids)
    return (t == "i32" and marked) or (t == "i64" and not marked)


# ------------------------------------------------------------------ value generation
def base_value(I, typ, variant=0):
    if typ == "bool":
        return variant % 2 == 0
    if typ in INTW:
        return [3, 0, -1][variant % 3] if typ != "byte" and typ != "i8" else [3, 0, 1][variant % 3]
    if typ == "double":
        return 1.5
    if typ == "binary":
        return [b"\x00\xffbin", b"", b"x"][variant % 3]
    if typ == "string":
        return ["text", "", "é中"][variant % 3]
    if typ in I["enums"]:
        vals = sorted(I["enums"][typ].values())
        return vals[variant % len(vals)]
    raise KeyError(typ)


# fields with a recorded defect are exercised only by the points that name them, so that they do not
# mask the rest of the lattice (every other point leaves them unset)
ISOLATED = {("ColumnMetaData", "bloom_filter_offset"), ("RowGroup", "ordinal")}


def default_value(I, sname, depth=0, variant=0, keep=()):
    """all fields present (unions: first member), small values"""
    spec = I["structs"][sname]
    out = {}
    fields = sorted(spec["fields"].items())
    if spec["union"]:
        fields = fields[variant % len(fields):][:1]
    for fid, (fn, req, typ) in fields:
        if (sname, fn) in ISOLATED and fn not in keep:
            continue
        out[fn] = field_value(I, typ, depth, variant)
    return out


def field_value(I, typ, depth, variant=0, n=2):
    if typ.startswith("list<"):
        et = typ[5:-1]
        return [field_value(I, et, depth + 1, variant + i) for i in range(n)]
    if typ in I["structs"]:
        if depth > 4:
            return minimal_value(I, typ)
        return default_value(I, typ, depth + 1, variant)
    return base_value(I, typ, variant)


def minimal_value(I, sname):
    spec = I["structs"][sname]
    out = {}
    fields = sorted(spec["fields"].items())
    if spec["union"]:
        fields = fields[:1]
    for fid, (fn, req, typ) in fields:
        if req == "required" or spec["union"]:
            out[fn] = field_value(I, typ, 9, 0, n=1)
    return out


def special_values(I, typ):
    if typ in INTW:
        b = INTW[typ]
        return [0, 1, -1, (1 << (b - 1)) - 1, -(1 << (b - 1))] if b > 8 else [0, 1, 127]
    if typ in ("binary", "string"):
        out = []
        for n in (0, 1, 127, 128, 16383, 16384):
            out.append(("s" * n) if typ == "string" else bytes([i % 251 for i in range(n)]))
        return out
    if typ.startswith("list<"):
        et = typ[5:-1]
        return [[field_value(I, et, 3, i) for i in range(n)] for n in (0, 1, 2, 14, 15, 16, 300)]
    if typ == "bool":
        return [True, False]
    if typ in I["enums"]:
        return sorted(I["enums"][typ].values())
    return []


def struct_points(I, tier):
    pts = []
    for sname in reachable(I):
        spec = I["structs"][sname]
        fields = sorted(spec["fields"].items())
        if spec["union"]:
            for i in range(len(fields)):
                pts.append({"struct": sname, "kind": "union", "member": fields[i][1][0]})
            continue
        opt = [fn for fid, (fn, req, typ) in fields if req != "required"]
        if len(opt) <= 6:
            subsets = [list(c) for k in range(len(opt) + 1) for c in itertools.combinations(opt, k)]
        else:
            subsets = [[], list(opt)] + [[o] for o in opt] + [list(c) for c in itertools.combinations(opt, 2)]
        for ss in subsets:
            pts.append({"struct": sname, "kind": "presence", "present": ss})
        for fid, (fn, req, typ) in fields:
            for si, sv in enumerate(special_values(I, typ)):
                pts.append({"struct": sname, "kind": "special", "field": fn, "special": si})
    out = []
    for p in pts:
        for route in ("R1", "R2"):
            q = dict(p)
            q["route"] = route
            out.append(q)
    return out


def nesting_points(tier):
    pts = []
    rs = (0, 1, 3, 40) if tier == "thorough" else (0, 1, 3)
    cs = (1, 3, 40) if tier == "thorough" else (1, 3)
    for r in rs:
        for c in cs:
            for k in (0, 1, 3):
                for route in ("R1", "R2"):
                    pts.append({"kind": "nest", "r": r, "c": c, "k": k, "route": route})
    return pts


def big_points(tier):
    pts = []
    sizes = (499000, 500001, 2000000) if tier == "thorough" else (499000, 500001)
    for where in ("stat_max", "kv_value", "path", "created_by"):
        for n in sizes:
            for route in ("R1", "R2"):
                pts.append({"kind": "big", "where": where, "n": n, "route": route, "_fresh": True})
    return pts


def written_points(tier):
    """R3: the structures exactly as the writer builds them (footer and every page header of written files)"""
    from mc import alphabets as A
    pts = []
    for kind in A.ALL_KINDS:
        for v in (1, 2):
            for comp in (None, "SNAPPY"):
                pts.append({"kind": "written", "colkind": kind, "v": v, "comp": comp, "route": "R3"})
    return pts


def explore(run, tier):
    I = idl()
    run.lattice("written", written_points(tier), "run_written")
    run.lattice("structs", struct_points(I, tier), "run")
    run.lattice("nesting", nesting_points(tier), "run")
    run.lattice("big", big_points(tier), "run")


def crash_sig(point, res):
    return {"kind": point.get("kind"), "struct": point.get("struct"), "where": point.get("where"),
            "route": point.get("route"), "symptom": res["outcome"],
            "size_class": ">500000" if point.get("n", 0) > 500000 else "<=500000"}


# ------------------------------------------------------------------ worker side
def build_value(I, p):
    k = p["kind"]
    if k == "union":
        spec = I["structs"][p["struct"]]
        f = [v for v in spec["fields"].values() if v[0] == p["member"]][0]
        return p["struct"], {p["member"]: field_value(I, f[2], 1)}
    if k == "presence":
        spec = I["structs"][p["struct"]]
        full = default_value(I, p["struct"], keep=p["present"])
        v = {}
        for fid, (fn, req, typ) in sorted(spec["fields"].items()):
            if req == "required" or fn in p["present"]:
                v[fn] = full[fn]
        return p["struct"], v
    if k == "special":
        spec = I["structs"][p["struct"]]
        v = default_value(I, p["struct"], keep=[p["field"]])
        typ = [t for (fn, req, t) in spec["fields"].values() if fn == p["field"]][0]
        v[p["field"]] = special_values(I, typ)[p["special"]]
        return p["struct"], v
    if k == "nest":
        return "FileMetaData", fmd_value(I, p["r"], p["c"], p["k"])
    if k == "big":
        v = fmd_value(I, 1, 1, 1)
        n = p["n"]
        if p["where"] == "stat_max":
            v["row_groups"][0]["columns"][0]["meta_data"]["statistics"] = {"max": b"M" * n, "min": b"m", "null_count": 0}
        elif p["where"] == "kv_value":
            v["key_value_metadata"][0]["value"] = "v" * n
        elif p["where"] == "path":
            v["row_groups"][0]["columns"][0]["file_path"] = "p" * n
        else:
            v["created_by"] = "c" * n
        return "FileMetaData", v
    raise KeyError(k)


def fmd_value(I, r, c, k):
    schema = [{"name": "schema", "num_children": c}]
    for i in range(c):
        schema.append({"name": "col%d" % i, "type": 2, "repetition_type": 1, "converted_type": None})
        schema[-1] = {a: b for a, b in schema[-1].items() if b is not None}
    rgs = []
    for g in range(r):
        cols = []
        for i in range(c):
            md = {"type": 2, "encodings": [0, 3], "path_in_schema": ["col%d" % i], "codec": 1,
                  "num_values": 10 + g, "total_uncompressed_size": 100, "total_compressed_size": 90,
                  "data_page_offset": 4 + 1000 * (g * c + i),
                  "statistics": {"max": b"\x09\0\0\0\0\0\0\0", "min": b"\0\0\0\0\0\0\0\0", "null_count": g},
                  "encoding_stats": [{"page_type": 0, "encoding": 0, "count": 1}]}
            cols.append({"file_path": "part.%d.parquet" % g, "file_offset": 4 + 1000 * (g * c + i), "meta_data": md})
        rgs.append({"columns": cols, "total_byte_size": 100 * c, "num_rows": 10 + g})
    v = {"version": 1, "schema": schema, "num_rows": sum(x["num_rows"] for x in rgs), "row_groups": rgs,
         "created_by": "fastparquet-python version 1.0 (build 0)"}
    if k:
        v["key_value_metadata"] = [{"key": "key%d" % i, "value": "value%d" % i} for i in range(k)]
    return v


def canon(I, typ, v):
    """canonical form of a generated / strictly decoded value: strings as bytes"""
    if v is None:
        return None
    if typ.startswith("list<"):
        return [canon(I, typ[5:-1], x) for x in v]
    if typ in I["structs"]:
        spec = I["structs"][typ]
        out = {}
        for fid, (fn, req, t) in spec["fields"].items():
            if v.get(fn) is not None:
                out[fn] = canon(I, t, v[fn])
        return out
    if typ in ("string", "binary"):
        return v.encode("utf8") if isinstance(v, str) else bytes(v)
    if typ == "bool":
        return bool(v)
    return v


def from_fp(I, typ, v, problems, where):
    """fastparquet's id-keyed dicts -> canonical name-keyed form"""
    if v is None:
        return None
    if typ.startswith("list<"):
        if not isinstance(v, list):
            problems.append("%s: list expected, got %s" % (where, type(v).__name__))
            return v
        return [from_fp(I, typ[5:-1], x, problems, where + "[]") for x in v]
    if typ in I["structs"]:
        if hasattr(v, "contents"):
            v = v.contents
        if not isinstance(v, dict):
            problems.append("%s: struct expected, got %s" % (where, type(v).__name__))
            return v
        spec = I["structs"][typ]
        out = {}
        for key, val in v.items():
            if not isinstance(key, int):
                continue
            if key not in spec["fields"]:
                problems.append("%s: unknown field id %r" % (where, key))
                continue
            fn, req, t = spec["fields"][key]
            if val is not None:
                out[fn] = from_fp(I, t, val, problems, where + "." + fn)
        return out
    if typ in ("string", "binary"):
        return v.encode("utf8") if isinstance(v, str) else (bytes(v) if isinstance(v, (bytes, bytearray, memoryview)) else v)
    if typ == "bool":
        return bool(v) if isinstance(v, (bool, int)) else v
    return v


def build_r1(I, sname, v):
    """Construct through ThriftObject.from_fields exactly as the writer does."""
    from fastparquet.cencoding import ThriftObject
    spec = I["structs"][sname]
    kwargs = {}
    for fid, (fn, req, typ) in spec["fields"].items():
        if fn not in v or v[fn] is None:
            continue
        val = v[fn]
        if typ.startswith("list<") and typ[5:-1] in I["structs"]:
            val = [build_r1(I, typ[5:-1], x) for x in val]
        elif typ in I["structs"]:
            val = build_r1(I, typ, val)
        kwargs[fn] = val
    kind, ids = MARKERS.get(sname, (None, None))
    if kind == "i32":
        return ThriftObject.from_fields(sname, i32=True, **kwargs)
    if kind == "i32list":
        return ThriftObject.from_fields(sname, i32list=list(ids), **kwargs)
    return ThriftObject.from_fields(sname, **kwargs)


def r1_filter(I, sname, v):
    """drop the fields the writer's marker scheme cannot express (documented R1 domain)"""
    spec = I["structs"][sname]
    out = {}
    for fid, (fn, req, typ) in spec["fields"].items():
        if fn not in v or v[fn] is None:
            continue
        if not r1_compatible(I, sname, fid, typ):
            if req == "required":
                return None
            continue
        val = v[fn]
        t = typ[5:-1] if typ.startswith("list<") else typ
        if t in I["structs"]:
            if typ.startswith("list<"):
                val = [r1_filter(I, t, x) for x in val]
                if any(x is None for x in val):
                    return None
            else:
                val = r1_filter(I, t, val)
                if val is None:
                    if req == "required":
                        return None
                    continue
        out[fn] = val
    if spec["union"] and not out:
        return None
    return out


SPECLESS = set()   # filled lazily: structs fastparquet's specs table does not know


def run(p):
    import pickle
    import numpy as np
    from fastparquet import cencoding as ce
    from mc.specpq.thrift import codec, ThriftError
    I = idl()
    tc = codec()
    sname, v = build_value(I, p)
    route = p["route"]
    sig = {"struct": sname, "route": route, "kind": p["kind"]}
    if p["kind"] in ("special", "union"):
        sig["field"] = p.get("field") or p.get("member")
    if p["kind"] == "big":
        sig["where"] = p["where"]
        sig["size_class"] = ">500000" if p["n"] > 500000 else "<=500000"

    def bad(symptom, detail, **extra):
        s = dict(sig)
        s["symptom"] = symptom
        s.update(extra)
        return {"ok": False, "outcome": symptom, "nontrivial": True, "sig": s, "detail": detail}

    if route == "R1":
        try:
            ce.ThriftObject(sname, {})
        except KeyError:
            return {"ok": True, "outcome": "not_constructible_r1", "nontrivial": False}
        v = r1_filter(I, sname, v)
        if v is None:
            return {"ok": True, "outcome": "outside_r1_domain", "nontrivial": False}
        try:
            x = build_r1(I, sname, v)
        except KeyError as e:
            return {"ok": True, "outcome": "not_constructible_r1", "nontrivial": False, "detail": str(e)}
    want = canon(I, sname, v)
    spec_bytes = tc.encode(sname, v)
    if route == "R2":
        buf = np.frombuffer(spec_bytes, dtype=np.uint8).copy()
        try:
            x = ce.ThriftObject(sname, ce.from_buffer(buf)) if _has_spec(ce, sname) else None
            raw = ce.from_buffer(np.frombuffer(spec_bytes, dtype=np.uint8).copy()) if x is None else None
        except Exception as e:
            return bad("parse_raised", "from_buffer raised %s: %s" % (type(e).__name__, e))
        if x is None:
            # struct unknown to fastparquet's tables: only reachable nested inside a known parent
            return {"ok": True, "outcome": "no_standalone_api", "nontrivial": False}
        probs = []
        parsed = from_fp(I, sname, x.contents, probs, sname)
        if probs or parsed != want:
            return bad("parse_wrong", "from_buffer(spec bytes) != value: %s" % (probs or _diff(want, parsed)),
                       **_field_of(want, parsed))
    # ---- serialise
    try:
        y = bytes(x.to_bytes())
    except Exception as e:
        if p["kind"] == "big":
            return {"ok": True, "outcome": "refused_too_large", "nontrivial": True,
                    "detail": "%s: %s" % (type(e).__name__, e)}
        return bad("to_bytes_raised", "%s: %s" % (type(e).__name__, e))
    # (2) strict IDL decode yields the value
    try:
        back, end = tc.decode(sname, y, 0, strict=True, tolerate={"empty_list_type0"})
        if end != len(y):
            return bad("trailing_bytes", "%d bytes after the struct" % (len(y) - end))
    except ThriftError as e:
        return bad("not_idl_conformant", "strict decode of to_bytes(): %s" % e, **_idl_field(str(e)))
    got = canon(I, sname, back)
    if got != want:
        return bad("lossy", "to_bytes() decodes to a different value: %s" % _diff(want, got), **_field_of(want, got))
    # (3) length
    if len(y) != len(spec_bytes):
        return bad("length_differs", "to_bytes() is %d bytes, the spec encoding %d" % (len(y), len(spec_bytes)))
    # (1) own parser round trip, deep comparison and ==
    try:
        z = ce.ThriftObject(sname, ce.from_buffer(np.frombuffer(y, dtype=np.uint8).copy()))
    except Exception as e:
        return bad("reparse_raised", "%s: %s" % (type(e).__name__, e))
    probs = []
    zz = from_fp(I, sname, z.contents, probs, sname)
    if probs or zz != want:
        return bad("roundtrip_differs", "from_buffer(to_bytes(x)) != x: %s" % (probs or _diff(want, zz)), **_field_of(want, zz))
    # ThriftObject.__eq__ tolerates str-vs-bytes only with the str on the left: accept either direction
    if not (z == x or x == z):
        return bad("eq_false", "from_buffer(to_bytes(x)) == x is False in both directions")
    # pickle
    try:
        pk = pickle.loads(pickle.dumps(x))
        probs = []
        pp = from_fp(I, sname, pk.contents, probs, sname)
        if probs or pp != want:
            return bad("pickle_differs", "pickle round trip: %s" % (probs or _diff(want, pp)), **_field_of(want, pp))
    except Exception as e:
        return bad("pickle_raised", "%s: %s" % (type(e).__name__, e))
    return {"ok": True, "outcome": "lossless", "nontrivial": bool(want),
            "counts": {"bytes": len(y), "tolerated_empty_list_type0": tc.deviations.get("empty_list_type0", 0)}}


def run_written(p):
    import os
    import re
    import pandas as pd
    import fastparquet
    from mc import alphabets as A, wr
    from mc.scratch import scratch
    from mc.specpq import file as F
    kind = p["colkind"]
    d = scratch()
    errs = {}
    files = 0
    for pat in (["none", "alt"] if kind in A.NULLABLE_KINDS else ["none"]):
        for scheme in ("simple", "hive"):
            df = pd.DataFrame({"c": A.series(kind, 9, pat), "k": A.series("int64", 9, "none", 1, "k")})
            path = os.path.join(d, "w.parquet" if scheme == "simple" else "wds")
            try:
                with wr.PageCfg(p["v"], wr.tiny_page_size(df, 4)):
                    fastparquet.write(path, df, compression=p["comp"], file_scheme=scheme, row_group_offsets=[0, 5],
                                      write_index=False, custom_metadata={"k": "v"}, stats=True)
            except Exception:
                continue
            for f in wr.listing(path):
                files += 1
                data = open(f, "rb").read()
                try:
                    if os.path.basename(f) in ("_metadata", "_common_metadata"):
                        F.read_footer(data)
                    else:
                        F.read_file(data)
                except F.FormatError as e:
                    m = re.search(r"does not follow the IDL: (\w+)\.(\w+)", str(e)) or re.search(r"does not follow the IDL: (\w+): (.{0,30})", str(e))
                    if m:
                        at = "%s.%s" % (m.group(1), m.group(2))
                        errs.setdefault(at, "%s %s nulls=%s: %s" % (kind, os.path.basename(f), pat, e))
                except Exception:
                    pass
    if errs:
        sigs = [{"kind": "written", "route": "R3", "symptom": "not_idl_conformant", "at": at, "v": p["v"]} for at in errs]
        return {"ok": False, "outcome": "not_idl_conformant", "nontrivial": True, "sig": sigs,
                "detail": list(errs.values())[0], "counts": {"files": files}}
    return {"ok": True, "outcome": "idl_conformant", "nontrivial": files > 0, "counts": {"files": files}}


def _has_spec(ce, sname):
    try:
        ce.ThriftObject(sname, {})
        return True
    except KeyError:
        return False


def _diff(a, b, path=""):
    if isinstance(a, dict) and isinstance(b, dict):
        for k in sorted(set(a) | set(b)):
            if a.get(k) != b.get(k):
                return _diff(a.get(k), b.get(k), path + "." + k)
    if isinstance(a, list) and isinstance(b, list):
        if len(a) != len(b):
            return "%s: list length %d vs %d" % (path, len(a), len(b))
        for i, (x, y) in enumerate(zip(a, b)):
            if x != y:
                return _diff(x, y, path + "[%d]" % i)
    ra, rb = repr(a), repr(b)
    return "%s: expected %s got %s" % (path, ra[:80] + ("..(%d)" % len(ra) if len(ra) > 80 else ""),
                                       rb[:80] + ("..(%d)" % len(rb) if len(rb) > 80 else ""))


def _field_of(a, b, path=""):
    """name of the first differing field (for narrow signatures)"""
    import re
    d = _diff(a, b)
    m = re.match(r"([\.\w\[\]]*):", d)
    f = re.sub(r"\[\d+\]", "[]", m.group(1)) if m else ""
    return {"at": f}


def _idl_field(msg):
    import re
    m = re.match(r"(\w+)\.(\w+)", msg)
    if m:
        return {"at": "%s.%s" % (m.group(1), m.group(2))}
    m = re.match(r"(\w+): unknown field id (\d+)", msg)
    if m:
        return {"at": "%s#%s" % (m.group(1), m.group(2))}
    return {"at": msg[:40]}


LEVEL_TEXT = ("Bounded-exhaustive lattice over IDL-generated metadata values (every optional-field subset of small "
              "structs, single/pair presence for large ones, boundary list/string/integer values, FileMetaData "
              "nestings, payloads across the 500000-byte buffer) on two construction routes; each value is "
              "serialised by the real code and decoded by a strict decoder driven by the IDL text, so symmetric "
              "errors in fastparquet's own hand-maintained tables are visible.")
LEVEL_NOTE = ("Trusted: pinned parse of parquet.thrift, specpq compact protocol, CPython pickle. Large payloads "
              "run one per fresh process so heap corruption cannot leak into other points; memory safety proper "
              "is C12's job.")
TECHNIQUE = "bounded exhaustive enumeration of IDL-generated thrift values, strict IDL-driven decode as oracle"
