"""C15 - LIST and MAP columns are assembled into the right per-row lists and dicts.

specpq writes nested columns from explicit Python values with every page split
of the value stream; the real reader must reproduce the values.
"""
import itertools

ID = "C15"
LEVEL = "exploration"
FLAVOUR = "plain"
TIMEOUT = 600
RULE = ("cell = (shape: optional|required LIST of optional|required element, optional|required MAP<required key, "
        "optional value>) x element type (INT32, INT64, UTF8, DOUBLE) x PLAIN|dictionary x v1|v2; inside a cell: "
        "every sequence of <= 3 rows (quick) / <= 4 rows (thorough) over the row alphabet {None, [], [x], [None], "
        "[x, None], [x, y, z]} (restricted to what the schema allows) x every split of the level stream into 1, 2 "
        "or 3 pages at arbitrary entry positions incl. inside a row (v2: at row boundaries only) x 1-2 row groups; "
        "non-trivial = file with >= 1 row decoded and compared")
ASSUMPTIONS = ["specpq writer/reader implement Dremel shredding/assembly for 3-level LIST and MAP (self-checked)",
               "map keys distinct within a row"]

CREATED_BY = "parquet-mr version 1.12.3 (build f8dced182c4c1fbdec6ccb3185537b5a01e6ed6b)"
T_INT32, T_INT64, T_DOUBLE, T_BYTE_ARRAY = 1, 2, 5, 6

ELEM = {
    "int32": (T_INT32, None, [7, -1, 2 ** 31 - 1]),
    "int64": (T_INT64, None, [7, -1, 2 ** 63 - 1]),
    "utf8": (T_BYTE_ARRAY, 0, [b"a", "é".encode(), b""]),
    "double": (T_DOUBLE, None, [1.5, -0.0, 1e300]),
}
SHAPES = ["list_oo", "list_or", "list_ro", "list_rr", "map_o", "map_r"]


def points(tier):
    pts = []
    for shape in SHAPES:
        for et in ELEM:
            for enc in ("PLAIN", "RLE_DICTIONARY"):
                for v in (1, 2):
                    maxrows = 4 if tier == "thorough" else 3
                    if tier == "thorough":
                        # split thorough cells by first row to keep tasks short
                        for first in range(6):
                            pts.append({"shape": shape, "elem": et, "enc": enc, "v": v, "maxrows": maxrows, "first": first})
                    else:
                        pts.append({"shape": shape, "elem": et, "enc": enc, "v": v, "maxrows": maxrows, "first": None})
    return pts


def explore(run, tier):
    run.lattice("nested", points(tier), "run")


def crash_sig(point, res):
    import re
    m = re.search(r"^MARK (.*)$", res.get("log_tail", ""), flags=re.M)
    return {"shape": point["shape"], "elem": point["elem"], "enc": point["enc"], "v": point["v"],
            "symptom": res["outcome"], "case": m.group(1) if m else "?"}


def row_alphabet(shape, x, y, z):
    outer_opt = shape in ("list_oo", "list_or", "map_o")
    elem_opt = shape in ("list_oo", "list_ro", "map_o", "map_r")   # map value is optional
    rows = []
    if outer_opt:
        rows.append(None)
    rows.append([])
    rows.append([x])
    if elem_opt:
        rows.append([None])
        rows.append([x, None])
    rows.append([x, y, z])
    return rows


def _splits(n, boundaries=None):
    """all splits of n entries into 1, 2, 3 pages; boundaries: allowed cut positions"""
    cuts = [c for c in range(1, n) if boundaries is None or c in boundaries]
    out = [[n]] if n else [[0]]
    for a in cuts:
        out.append([a, n - a])
    for a, b in itertools.combinations(cuts, 2):
        out.append([a, b - a, n - b])
    return out


def _cont_null_only(rows, split):
    """does some page start with the continuation of a row whose continued elements (up to the next
    row start or the page end) are all null elements?"""
    ent = []   # (is_row_start, is_null_element)
    for r in rows:
        if r is None or len(r) == 0:
            ent.append((True, False))
        else:
            for i, v in enumerate(r):
                ent.append((i == 0, v is None))
    pos = 0
    for k in split[:-1]:
        pos += k
        if pos < len(ent) and not ent[pos][0]:
            end = pos + split[split.index(k) + 1] if False else None
            j = pos
            allnull = True
            # continued entries within the next page
            nxt = split[[sum(split[:i + 1]) for i in range(len(split))].index(pos) + 1]
            while j < pos + nxt and not ent[j][0]:
                allnull = allnull and ent[j][1]
                j += 1
            if allnull:
                return True
    return False


def run(p):
    import io
    import fastparquet
    from mc.specpq import writer as W, file as F
    from mc import oracles as O
    from mc.scratch import mark
    shape, et, enc, ver = p["shape"], p["elem"], p["enc"], p["v"]
    ptype, ct, pool = ELEM[et]
    x, y, z = pool
    is_map = shape.startswith("map")
    alphabet = row_alphabet(shape, x, y, z)
    files = rows_checked = 0
    sigs = {}
    detail = [""]

    def bad(symptom, msg, **extra):
        s = {"shape": shape, "elem": et, "enc": enc, "v": ver, "symptom": symptom}
        s.update(extra)
        k = repr(sorted(s.items()))
        if k not in sigs:
            sigs[k] = s
            if not detail[0]:
                detail[0] = msg

    def logical(v):
        if v is None:
            return None
        if ct == 0:
            return v.decode()
        return v

    if is_map:
        keys = [b"k1", b"k2", b"k3"]
        col = {"name": "c", "nested": "map", "rep": "optional" if shape == "map_o" else "required",
               "key": {"ptype": T_BYTE_ARRAY, "rep": "required", "ct": 0},
               "value": {"ptype": ptype, "rep": "optional", "ct": ct}}
    else:
        col = {"name": "c", "nested": "list", "rep": "optional" if shape[5] == "o" else "required",
               "elem": {"ptype": ptype, "rep": "optional" if shape[6] == "o" else "required", "ct": ct}}
    dictionary = list(pool) if enc != "PLAIN" else None
    first_file = True
    for nrows in range(1, p["maxrows"] + 1):
        for combo in itertools.product(range(len(alphabet)), repeat=nrows):
            if p["first"] is not None and combo[0] != p["first"] % len(alphabet):
                continue
            if p["first"] is not None and p["first"] >= len(alphabet):
                continue
            rows = [alphabet[i] for i in combo]
            if is_map:
                wrows = [None if r is None else [(keys[j], v) for j, v in enumerate(r)] for r in rows]
                exp = [None if r is None else {keys[j].decode(): logical(v) for j, v in enumerate(r)} for r in rows]
            else:
                wrows = rows
                exp = [None if r is None else [logical(v) for v in r] for r in rows]
            # level entries per row
            ent = [1 if (r is None or len(r) == 0) else len(r) for r in rows]
            n = sum(ent)
            bounds = set(itertools.accumulate(ent))
            splits = _splits(n, bounds if ver == 2 else None)
            for split in splits:
                for nrg in ((1, 2) if (len(split) == 1 and nrows >= 2) else (1,)):
                    pages = [{"n": k, "enc": enc, "v": ver} for k in split]
                    if nrg == 1:
                        chunk = {"rows": wrows, "codec": 0, "pages": pages}
                        if is_map:
                            chunk["dictionary_value"] = dictionary
                            if dictionary is not None:
                                chunk["pages_key"] = [{"n": k, "enc": "PLAIN", "v": ver} for k in split]
                        else:
                            chunk["dictionary"] = dictionary
                        rgs = [{"c": chunk}]
                    else:
                        a = nrows // 2
                        rgs = []
                        for part in (wrows[:a], wrows[a:]):
                            m = sum(1 if (r is None or len(r) == 0) else len(r) for r in part)
                            ch = {"rows": part, "codec": 0, "pages": [{"n": m, "enc": enc, "v": ver}]}
                            if is_map:
                                ch["dictionary_value"] = dictionary
                                if dictionary is not None:
                                    ch["pages_key"] = [{"n": m, "enc": "PLAIN", "v": ver}]
                            else:
                                ch["dictionary"] = dictionary
                            rgs.append({"c": ch})
                    try:
                        data = W.write_file({"created_by": CREATED_BY, "columns": [col], "row_groups": rgs})
                    except ValueError as e:
                        raise AssertionError("spec writer refused %r: %s" % (rows, e))
                    what = "rows=%r split=%s rgs=%d" % (rows, split, nrg)
                    if first_file:
                        pr = F.read_file(data)
                        assert not pr.errors, pr.errors
                        got0 = F.column_rows(pr, "c")
                        assert repr(got0) == repr(wrows), ("specpq self round trip", got0, wrows)
                        first_file = False
                    files += 1
                    mark(what)
                    ctx = {"pages": len(split), "rgs": nrg,
                           "split_inside_row": bool(set(itertools.accumulate(split[:-1])) - bounds),
                           "cont_null_only": _cont_null_only(rows, split)}
                    try:
                        df = fastparquet.ParquetFile(io.BytesIO(data)).to_pandas()
                    except Exception as e:
                        bad("read_raised", "%s: %s: %s" % (what, type(e).__name__, str(e)[:160]),
                            exc=type(e).__name__, **ctx)
                        continue
                    if list(df.columns) != ["c"]:
                        bad("wrong_columns", "%s: columns %r" % (what, list(df.columns)), **ctx)
                        continue
                    got = O.series_to_list(df["c"])
                    rows_checked += len(exp)
                    i = O.first_diff(got, exp)
                    if i is not None:
                        bad("wrong_value", "%s: row %s is %r, file encodes %r" % (
                            what, i, got[i] if i >= 0 else len(got), exp[i] if i >= 0 else len(exp)), **ctx)
    ok = not sigs
    return {"ok": ok, "outcome": "assembled" if ok else "wrong", "nontrivial": rows_checked > 0,
            "counts": {"files": files, "rows": rows_checked}, "sig": list(sigs.values()) or None,
            "detail": detail[0]}


LEVEL_TEXT = ("Bounded-exhaustive: every row sequence up to 3 (quick) / 4 (thorough) rows over the complete row alphabet "
              "of each LIST/MAP shape, with every split of the level stream into up to three pages (including splits "
              "inside a row), plain and dictionary values, v1 and v2 pages, one and two row groups, written by an "
              "independent Dremel shredder and assembled by the real reader; compared row by row with the Python values.")
LEVEL_NOTE = ("Trusted: specpq shredder (self round trip checked per cell). Three-level LIST and standard MAP shapes only; "
              "element types INT32/INT64/UTF8/DOUBLE.")
TECHNIQUE = "bounded exhaustive enumeration of row sequences x page splits of nested columns, real reader vs Python values"
