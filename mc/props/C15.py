"""C15 - LIST and MAP columns are assembled into the right per-row lists and dicts.

specpq writes nested columns from explicit Python values with every page split
of the value stream; the real reader must reproduce the values.

Families of cells (point key "fam"):
  base    the original lattice (all shapes x 4 element types x PLAIN|dictionary x v1|v2)
  types   element types whose values need a conversion (DATE, TIMESTAMP_MICROS, UINT_32), BOOLEAN, INT32 map keys
  nullpos row alphabet with a null element before a value
  mixed   chunks whose pages differ in encoding (dictionary fallback), other dictionary contents, dictionary-encoded
          map keys, key / value chunks paged differently
  names   other column names and other names of the inner groups
  levels  RLE-run level streams and long rows
  rg2     two row groups of several pages each, cut at every row
  multi   the nested column next to other columns, read completely, by column selection, per row group
"""
import itertools
import math

ID = "C15"
LEVEL = "exploration"
FLAVOUR = "plain"
TIMEOUT = 600
RULE = ("base cell = (shape: optional|required LIST of optional|required element, optional|required MAP<required key, "
        "optional value>) x element type (INT32, INT64, UTF8, DOUBLE) x PLAIN|dictionary x v1|v2; inside a cell: "
        "every sequence of <= 3 rows (quick) / <= 4 rows (thorough) over the row alphabet {None, [], [x], [None], "
        "[x, None], [x, y, z]} (restricted to what the schema allows) x every split of the level stream into 1, 2 "
        "or 3 pages at arbitrary entry positions incl. inside a row (v2: at row boundaries only) x 1-2 row groups. "
        "Further families, each the same sequences x splits with <= 2 rows (thorough: <= 3 rows for types, nullpos, "
        "multi on v1 pages; more shapes / element types / both encodings / v2 pages) unless stated: types = element DATE, TIMESTAMP_MICROS, UINT_32 (PLAIN and dictionary), BOOLEAN (PLAIN), INT32 map "
        "keys; nullpos = sequences containing [None, y] or [x, None, z]; mixed = every non-uniform assignment of "
        "PLAIN|PLAIN_DICTIONARY to the pages of a chunk, dictionary page = reversed pool plus an unused label | 300 "
        "labels (9-bit indices) | one label (0-bit indices), map keys dictionary-encoded, key chunk in one page while "
        "the value chunk is split and vice versa; names = column named key|value|element|list|'a b', inner groups "
        "named bag/array_element | array/item | map, middle group of a MAP without annotation; levels = every "
        "<= 3 row sequence in one page with RLE-run repetition and definition levels, and six long-row programs "
        "(rows of 9, 10, 17 entries, 9 one-entry rows) x every 1- and 2-page split x auto|RLE-run levels; rg2 = "
        "every sequence of 2..3 rows cut into two row groups at every row x every split of either chunk into <= 2 "
        "pages; multi = file with a flat, a LIST, a MAP, a LIST<UTF8> and a second MAP column x every <= 2 row "
        "sequence x 1-2 pages x 1-2 row groups read by to_pandas(), to_pandas(columns=...), iter_row_groups() and "
        "pf[i]; non-trivial = file with >= 1 row decoded and compared")
ASSUMPTIONS = ["specpq writer/reader implement Dremel shredding/assembly for 3-level LIST and MAP (self-checked)",
               "map keys distinct within a row",
               "the known-finding models (Python port of the v1 assembly loop with its continuation defect; layout "
               "predicates of the v2 page decoder's defects) only classify failures, they never make a file pass"]

CREATED_BY = "parquet-mr version 1.12.3 (build f8dced182c4c1fbdec6ccb3185537b5a01e6ed6b)"
T_BOOLEAN, T_INT32, T_INT64, T_DOUBLE, T_BYTE_ARRAY = 0, 1, 2, 5, 6
DAY_NS = 86400 * 10 ** 9
DICT_ENCS = ("PLAIN_DICTIONARY", "RLE_DICTIONARY")

ELEM = {
    "int32": (T_INT32, None, [7, -1, 2 ** 31 - 1]),
    "int64": (T_INT64, None, [7, -1, 2 ** 63 - 1]),
    "utf8": (T_BYTE_ARRAY, 0, [b"a", "é".encode(), b""]),
    "double": (T_DOUBLE, None, [1.5, -0.0, 1e300]),
    # physical values; _logical() gives what a reader has to return
    "date": (T_INT32, 6, [1, -1, 19000]),
    "ts_us": (T_INT64, 10, [10 ** 6, -1, 1600000000123456]),
    "uint32": (T_INT32, 13, [7, -1, -2 ** 31]),
    "bool": (T_BOOLEAN, None, [True, False, True]),
}
BASE_ELEMS = ["int32", "int64", "utf8", "double"]
SHAPES = ["list_oo", "list_or", "list_ro", "list_rr", "map_o", "map_r"]
ELEM_OPT = ("list_oo", "list_ro", "map_o", "map_r")      # map value is optional
OUTER_OPT = ("list_oo", "list_or", "map_o")

NAME_VARIANTS = {
    "col_key": {"name": "key"}, "col_value": {"name": "value"}, "col_element": {"name": "element"},
    "col_list": {"name": "list"}, "col_space": {"name": "a b"},
    "hive": {"group_name": "bag", "elem_name": "array_element"},         # LIST only
    "legacy": {"group_name": "array", "elem_name": "item"},              # LIST only
    "map_group": {"group_name": "map"},                                    # MAP only
    "kv_plain": {"kv_ct": None},                                           # MAP only: middle group not annotated
}


def _base_points(tier):
    pts = []
    for shape in SHAPES:
        for et in BASE_ELEMS:
            for enc in ("PLAIN", "RLE_DICTIONARY"):
                for v in (1, 2):
                    maxrows = 4 if tier == "thorough" else 3
                    if tier == "thorough":
                        # split thorough cells by first row to keep tasks short
                        for first in range(6):
                            pts.append({"shape": shape, "elem": et, "enc": enc, "v": v, "maxrows": maxrows, "first": first})
                    else:
                        pts.append({"shape": shape, "elem": et, "enc": enc, "v": v, "maxrows": maxrows, "first": None})
    return pts


def points(tier):
    th = tier == "thorough"
    pts = _base_points(tier)
    small = 3 if th else 2

    def pt(fam, shape, et, enc, v, maxrows, **kw):
        d = {"fam": fam, "shape": shape, "elem": et, "enc": enc, "v": v, "maxrows": maxrows, "first": None}
        d.update(kw)
        pts.append(d)
    # types
    for shape in (SHAPES if th else ("list_oo", "map_o")):
        for et in ("date", "ts_us", "uint32", "bool"):
            for enc in ("PLAIN", "RLE_DICTIONARY"):
                if et == "bool" and enc != "PLAIN":
                    continue
                pt("types", shape, et, enc, 1, small)
                if th:
                    pt("types", shape, et, enc, 2, 2)
    for shape in ("map_o", "map_r") if th else ("map_o",):
        for enc in ("PLAIN", "RLE_DICTIONARY"):
            pt("types", shape, "int32", enc, 1, small, keyt="int32")
    # nullpos
    for shape in ELEM_OPT:
        for et in BASE_ELEMS:
            for enc in ("PLAIN", "RLE_DICTIONARY"):
                pt("nullpos", shape, et, enc, 1, small, alpha="ext")
                if th:
                    pt("nullpos", shape, et, enc, 2, 2, alpha="ext")
    # mixed
    for shape in SHAPES:
        for et in (BASE_ELEMS if th else ("int32", "utf8")):
            for v in ((1, 2) if th else (1,)):
                pt("mixed", shape, et, "mixed", v, 2)
    # names
    for shape in ("list_oo", "list_rr", "map_o", "map_r"):
        for var in NAME_VARIANTS:
            if var in ("hive", "legacy") and shape.startswith("map"):
                continue
            if var in ("map_group", "kv_plain") and shape.startswith("list"):
                continue
            for enc in (("PLAIN", "RLE_DICTIONARY") if th else ("PLAIN",)):
                pt("names", shape, "int32", enc, 1, 2, variant=var)
    # levels
    for shape in SHAPES:
        for enc in ("PLAIN", "RLE_DICTIONARY"):
            for v in ((1, 2) if th else (1,)):
                pt("levels", shape, "int32", enc, v, 3)
    # rg2
    for shape in (SHAPES if th else ("list_oo", "list_rr", "map_o")):
        for et in (("int32", "utf8") if th else ("int32",)):
            for enc in ("PLAIN", "RLE_DICTIONARY"):
                pt("rg2", shape, et, enc, 1, 3)
    # multi
    for enc in ("PLAIN", "RLE_DICTIONARY"):
        pt("multi", "list_oo", "int32", enc, 1, small)
    return pts


def explore(run, tier):
    run.lattice("nested", points(tier), "run")


def crash_sig(point, res):
    import re
    m = re.search(r"^MARK (.*)$", res.get("log_tail", ""), flags=re.M)
    s = {"shape": point["shape"], "elem": point["elem"], "enc": point["enc"], "v": point["v"],
         "symptom": res["outcome"], "case": m.group(1) if m else "?"}
    if point.get("fam"):
        s["fam"] = point["fam"]
    return s


def row_alphabet(shape, x, y, z, ext=False):
    outer_opt = shape in OUTER_OPT
    elem_opt = shape in ELEM_OPT
    rows = []
    if outer_opt:
        rows.append(None)
    rows.append([])
    rows.append([x])
    if elem_opt:
        rows.append([None])
        rows.append([x, None])
    rows.append([x, y, z])
    if ext and elem_opt:
        # a null element BEFORE a value: element order with nulls, continuations that start with a null
        rows.append([None, y])
        rows.append([x, None, z])
    return rows


def _splits(n, boundaries=None, maxpages=3):
    """all splits of n entries into 1, 2, 3 pages; boundaries: allowed cut positions"""
    cuts = [c for c in range(1, n) if boundaries is None or c in boundaries]
    out = [[n]] if n else [[0]]
    for a in cuts:
        out.append([a, n - a])
    if maxpages >= 3:
        for a, b in itertools.combinations(cuts, 2):
            out.append([a, b - a, n - b])
    return out


def _nent(rows):
    return [1 if (r is None or len(r) == 0) else len(r) for r in rows]


def _cont_null_only(rows, split):
    """does some page start with the continuation of a row whose continued elements (up to the next
    row start or the page end) are all null elements?"""
    ent = []   # (is_row_start, is_null_element)
    for r in rows:
        if r is None or len(r) == 0:
            ent.append((True, False))
        else:
            for i, v in enumerate(r):
                ent.append((i == 0, v is None))
    ends = list(itertools.accumulate(split))
    for pi, pos in enumerate(ends[:-1]):
        if pos < len(ent) and not ent[pos][0]:
            j = pos
            allnull = True
            while j < ends[pi + 1] and not ent[j][0]:
                allnull = allnull and ent[j][1]
                j += 1
            if allnull:
                return True
    return False


# ---------------------------------------------------------------- models of the known defects (classification only)
def _entries(rows, pick=None):
    """level entries of one leaf: (starts_row, kind, value); rows hold logical values"""
    ent = []
    for r in rows:
        if r is None:
            ent.append((True, "null_row", None))
        elif len(r) == 0:
            ent.append((True, "empty", None))
        else:
            for i, it in enumerate(r):
                v = it if pick is None else pick(i, it)
                ent.append((i == 0, "null_elem" if v is None else "value", v))
    return ent


def _kf_assemble_v1(ent, ns, nrows):
    """Python port of cencoding._assemble_objects + the row index handling of core.read_col for v1 pages,
    INCLUDING the known defect (`vali > 0`): null elements that continue a row on the next page are not added to
    that row but stay in the buffer and open the next row.  Returns None when the port cannot run (then nothing
    is classified as known)."""
    out = [None] * nrows
    row_idx = 0
    pos = 0
    try:
        for n in ns:
            page = ent[pos:pos + n]
            pos += n
            i = row_idx
            part = []
            vali = 0
            started = have_null = False
            for start, kind, val in page:
                if start:
                    if started:
                        out[i] = None if have_null else part
                        part = []
                        i += 1
                    else:
                        if vali > 0:
                            out[i - 1].extend(part)
                            part = []
                        started = True
                if kind == "value":
                    part.append(val)
                    vali += 1
                elif kind == "null_elem":
                    part.append(None)
                have_null = kind == "null_row"
            if started:
                out[i] = None if have_null else part
            else:
                out[i - 1].extend(part)
            row_idx = i + (1 if any(e[0] for e in page) else 0)
    except (IndexError, AttributeError):
        return None
    return out


def _v2_flags(leaves, outer_required):
    """layout predicates under which read_data_page_v2 is known not to assemble nested pages.
    leaves: [(entries, [(n, enc), ...])] of one row group's nested column"""
    plain = nonull = req = mixed = False
    for ent, pages in leaves:
        pos = 0
        if len(set(enc in DICT_ENCS for _, enc in pages)) == 2:
            mixed = True        # the PLAIN branch addresses its output by entry, the dictionary branch by row
        for n, enc in pages:
            page = ent[pos:pos + n]
            pos += n
            if enc in DICT_ENCS:
                if all(e[1] == "value" for e in page):
                    nonull = True       # `defi` is only decoded for pages with nulls: UnboundLocalError
                if outer_required:
                    req = True          # assembled with null=True whatever the schema says
            else:
                if any(e[1] != "null_row" for e in page):
                    plain = True        # PLAIN pages are stored entry by entry like a flat column
    return {"v2_plain": plain, "v2_dict_nonull": nonull, "v2_dict_req": req, "v2_mixed": mixed}


# ---------------------------------------------------------------- oracle
def _is_coll(v):
    return isinstance(v, (list, dict))


def _diff_kind(g, e):
    """coarse class of a wrong row (g, e canonical)"""
    if e is None:
        return "null_as_row" if _is_coll(g) else "null_as_scalar"
    if g is None:
        return "empty_as_null" if len(e) == 0 else "row_as_null"
    if not _is_coll(g):
        return "scalar_row"
    if type(g) is not type(e):
        return "wrong_container"
    if isinstance(e, list):
        if len(g) < len(e):
            return "null_elems_dropped" if g == [v for v in e if v is not None] else "elems_missing"
        if len(g) > len(e):
            return "elems_extra"
        try:
            same = sorted(map(repr, g)) == sorted(map(repr, e))
        except Exception:
            same = False
        return "elem_order" if same else "elem_value"
    if set(g) != set(e):
        if set(g) < set(e):
            return "pairs_missing"
        return "pairs_extra" if set(g) > set(e) else "keys_differ"
    return "map_value"


def _raw_faults(raw, exp):
    """what the canonical comparison cannot see: container types, the representation of nulls, the order of the
    keys of a dict, the sign of zero.  -> (symptom, kind) or None"""
    from mc import oracles as O

    def elem_fault(r, e):
        if e is None:
            return None if r is None else ("null_not_none", "element")
        if isinstance(e, float) and e == 0.0:
            c = O.canon_cell(r)
            if isinstance(c, float) and math.copysign(1.0, c) != math.copysign(1.0, e):
                return ("wrong_value", "zero_sign")
        return None
    for r, e in zip(raw, exp):
        if e is None:
            if r is not None:
                return ("null_not_none", "row")
        elif isinstance(e, list):
            if type(r) is not list:
                return ("wrong_container", type(r).__name__)
            for ri, ei in zip(r, e):
                f = elem_fault(ri, ei)
                if f:
                    return f
        else:
            if type(r) is not dict:
                return ("wrong_container", type(r).__name__)
            if [O.canon_cell(k) for k in r] != list(e):
                return ("key_order", "dict")
            for k, rv in r.items():
                f = elem_fault(rv, e[O.canon_cell(k)])
                if f:
                    return f
    return None


def _judge(raw, exp, model=None):
    """-> None | (symptom, kind, row index)"""
    from mc import oracles as O
    got = [O.canon_cell(x) for x in raw]
    i = O.first_diff(got, exp)
    if i is not None:
        if i < 0:
            return ("wrong_value", "row_count", -1)
        if model is not None and model != exp and O.first_diff(got, model) is None:
            return ("wrong_value", "kf_cont_null_model", i)
        return ("wrong_value", _diff_kind(got[i], exp[i]), i)
    f = _raw_faults(raw, exp)
    if f:
        return (f[0], f[1], None)
    return None


def _logical(et, v):
    if v is None:
        return None
    if et == "utf8":
        return v.decode()
    if et == "date":
        return ("ts", v * DAY_NS)
    if et == "ts_us":
        return ("ts", v * 1000)
    if et == "uint32":
        return v & 0xFFFFFFFF
    return v


def _big_dictionary(et, pool):
    """300 labels, the pool last: 9-bit indices"""
    if et in ("int32", "int64"):
        fill = list(range(1000, 1297))
    elif et == "utf8":
        fill = [b"u%03d" % i for i in range(297)]
    else:
        fill = [i + 0.25 for i in range(297)]
    return fill + list(pool)


class _Cell:
    """one column description + bookkeeping of a cell"""

    def __init__(self, p, pool=None):
        self.p = p
        self.shape, self.et, self.enc, self.ver = p["shape"], p["elem"], p["enc"], p["v"]
        self.fam = p.get("fam", "base")
        self.ptype, self.ct, self.pool = ELEM[self.et]
        if pool is not None:
            self.pool = pool
        self.is_map = self.shape.startswith("map")
        self.outer_required = self.shape not in OUTER_OPT
        var = NAME_VARIANTS.get(p.get("variant"), {})
        self.name = var.get("name", "c")
        self.keyt = p.get("keyt", "utf8")
        self.keys = [b"k1", b"k2", b"k3"] if self.keyt == "utf8" else [5, -6, 2 ** 31 - 1]
        if self.is_map:
            kd = ({"ptype": T_BYTE_ARRAY, "rep": "required", "ct": 0} if self.keyt == "utf8"
                  else {"ptype": T_INT32, "rep": "required", "ct": None})
            self.col = {"name": self.name, "nested": "map", "rep": "optional" if self.shape == "map_o" else "required",
                        "key": kd, "value": {"ptype": self.ptype, "rep": "optional", "ct": self.ct}}
        else:
            self.col = {"name": self.name, "nested": "list", "rep": "optional" if self.shape[5] == "o" else "required",
                        "elem": {"ptype": self.ptype, "rep": "optional" if self.shape[6] == "o" else "required",
                                 "ct": self.ct}}
        for k in ("group_name", "elem_name", "kv_ct"):
            if k in var:
                self.col[k] = var[k]
        self.files = self.rows_checked = self.files_ok = 0
        self.sigs = {}
        self.detail = ""
        self.first_file = True

    # -- values
    def klog(self, k):
        return k.decode() if isinstance(k, bytes) else k

    def key(self, j):
        """key of the j-th entry of a row (long rows need more than the three pool keys)"""
        if j < len(self.keys):
            return self.keys[j]
        return (b"k%d" % (j + 1)) if self.keyt == "utf8" else 100 + j

    def wrows(self, rows):
        if self.is_map:
            return [None if r is None else [(self.key(j), v) for j, v in enumerate(r)] for r in rows]
        return rows

    def expected(self, rows):
        if self.is_map:
            return [None if r is None else {self.klog(self.key(j)): _logical(self.et, v) for j, v in enumerate(r)}
                    for r in rows]
        return [None if r is None else [_logical(self.et, v) for v in r] for r in rows]

    # -- layout
    def rg(self, rows, pages, key_pages=None, dictionary="auto", key_dictionary="auto"):
        """one row group of the nested column. pages: [{"n","enc","v",...}] of the element / value chunk;
        key_pages default: same pages, PLAIN (what the original lattice did)"""
        if dictionary == "auto":
            dictionary = list(self.pool) if any(pg["enc"] in DICT_ENCS for pg in pages) else None
        d = {"rows": rows, "pages": pages, "dictionary": dictionary}
        if self.is_map:
            if key_pages is None:
                key_pages = [dict(pg, enc="PLAIN") for pg in pages]
            if key_dictionary == "auto":
                key_dictionary = list(self.keys) if any(pg["enc"] in DICT_ENCS for pg in key_pages) else None
            d["key_pages"], d["key_dictionary"] = key_pages, key_dictionary
        return d

    def chunk(self, g):
        ch = {"rows": self.wrows(g["rows"]), "codec": 0}
        if self.is_map:
            ch["pages_value"] = g["pages"]
            ch["pages_key"] = g["key_pages"]
            ch["dictionary_value"] = g["dictionary"]
            ch["dictionary_key"] = g["key_dictionary"]
        else:
            ch["pages"] = g["pages"]
            ch["dictionary"] = g["dictionary"]
        return ch

    def leaves(self, g):
        """[(entries of logical values, [(n, enc)])] of a row group"""
        rows = g["rows"]
        if self.is_map:
            return [(_entries(rows, lambda i, it: self.klog(self.key(i))), [(pg["n"], pg["enc"]) for pg in g["key_pages"]]),
                    (_entries(rows, lambda i, it: _logical(self.et, it)), [(pg["n"], pg["enc"]) for pg in g["pages"]])]
        return [(_entries(rows, lambda i, it: _logical(self.et, it)), [(pg["n"], pg["enc"]) for pg in g["pages"]])]

    def kf_model(self, rgs):
        """rows the v1 reader returns if nothing but its known continuation defect is wrong"""
        out = []
        for g in rgs:
            cols = []
            for ent, pages in self.leaves(g):
                a = _kf_assemble_v1(ent, [n for n, _ in pages], len(g["rows"]))
                if a is None:
                    return None
                cols.append(a)
            if self.is_map:
                out.extend(dict(zip(k, v)) if (k is not None and v is not None) else None for k, v in zip(*cols))
            else:
                out.extend(cols[0])
        return out

    def context(self, rgs):
        ctx = {"pages": max(len(g["pages"]) for g in rgs), "rgs": len(rgs)}
        inside = cont = False
        for g in rgs:
            bounds = set(itertools.accumulate(_nent(g["rows"])))
            for pages in ([g["pages"]] + ([g["key_pages"]] if self.is_map else [])):
                split = [pg["n"] for pg in pages]
                inside = inside or bool(set(itertools.accumulate(split[:-1])) - bounds)
                cont = cont or _cont_null_only(g["rows"], split)
        ctx["split_inside_row"], ctx["cont_null_only"] = inside, cont
        if self.ver == 2:
            fl = {"v2_plain": False, "v2_dict_nonull": False, "v2_dict_req": False, "v2_mixed": False}
            for g in rgs:
                for k, v in _v2_flags(self.leaves(g), self.outer_required).items():
                    fl[k] = fl[k] or v
            ctx.update(fl)
        return ctx

    # -- bookkeeping
    def bad(self, symptom, msg, **extra):
        s = {"shape": self.shape, "elem": self.et, "enc": self.enc, "v": self.ver, "symptom": symptom}
        if self.fam != "base":
            s["fam"] = self.fam
        for k in ("variant", "keyt"):
            if self.p.get(k):
                s[k] = self.p[k]
        s.update(extra)
        k = repr(sorted(s.items()))
        if k not in self.sigs:
            self.sigs[k] = s
            if not self.detail:
                self.detail = msg

    def write(self, rgs):
        from mc.specpq import writer as W, file as F
        spec = {"created_by": CREATED_BY, "columns": [self.col],
                "row_groups": [{self.name: self.chunk(g)} for g in rgs]}
        try:
            data = W.write_file(spec)
        except ValueError as e:
            raise AssertionError("spec writer refused %r: %s" % ([g["rows"] for g in rgs], e))
        if self.first_file:
            pr = F.read_file(data)
            assert not pr.errors, pr.errors
            got0 = F.column_rows(pr, self.name)
            want = [r for g in rgs for r in self.wrows(g["rows"])]
            assert repr(got0) == repr(want), ("specpq self round trip", got0, want)
            self.first_file = False
        return data

    def check(self, rgs, what, **more):
        """write the file, read it with to_pandas(), compare"""
        import io
        import fastparquet
        from mc.scratch import mark
        data = self.write(rgs)
        self.files += 1
        mark(what)
        ctx = self.context(rgs)
        ctx.update(more)
        exp = self.expected([r for g in rgs for r in g["rows"]])
        try:
            df = fastparquet.ParquetFile(io.BytesIO(data)).to_pandas()
        except Exception as e:
            self.bad("read_raised", "%s: %s: %s" % (what, type(e).__name__, str(e)[:160]),
                     exc=type(e).__name__, **ctx)
            return
        if list(df.columns) != [self.name]:
            self.bad("wrong_columns", "%s: columns %r" % (what, list(df.columns)), **ctx)
            return
        raw = df[self.name].tolist()
        self.rows_checked += len(exp)
        model = self.kf_model(rgs) if self.ver == 1 else None
        j = _judge(raw, exp, model)
        if j is None:
            self.files_ok += 1
            return
        symptom, kind, i = j
        from mc import oracles as O
        got = [O.canon_cell(x) for x in raw]
        if i is None:
            msg = "%s: %s (%s): read %r, file encodes %r" % (what, symptom, kind, raw, exp)
        elif i < 0:
            msg = "%s: %d rows read, file encodes %d" % (what, len(got), len(exp))
        else:
            msg = "%s: row %s is %r, file encodes %r" % (what, i, got[i], exp[i])
        self.bad(symptom, msg, kind=kind, **ctx)

    def result(self):
        ok = not self.sigs
        return {"ok": ok, "outcome": "assembled" if ok else "wrong", "nontrivial": self.rows_checked > 0,
                "counts": {"files": self.files, "rows": self.rows_checked, "files_ok": self.files_ok},
                "sig": list(self.sigs.values()) or None, "detail": self.detail}


# ---------------------------------------------------------------- enumerators
def _programs(c, p, minrows=1):
    x, y, z = c.pool
    ext = p.get("alpha") == "ext"
    alphabet = row_alphabet(c.shape, x, y, z, ext=ext)
    nbase = len(row_alphabet(c.shape, x, y, z))
    for nrows in range(minrows, p["maxrows"] + 1):
        for combo in itertools.product(range(len(alphabet)), repeat=nrows):
            if p["first"] is not None and combo[0] != p["first"] % len(alphabet):
                continue
            if p["first"] is not None and p["first"] >= len(alphabet):
                continue
            if ext and all(i < nbase for i in combo):
                continue    # sequences without a new row belong to the other families
            yield [alphabet[i] for i in combo]


def _pages(split, enc, ver, **kw):
    return [dict({"n": k, "enc": enc, "v": ver}, **kw) for k in split]


def _enum_splits(c, p):
    """the original lattice: every split into <= 3 pages; two row groups for one-page files"""
    enc, ver = c.enc, c.ver
    for rows in _programs(c, p):
        nrows = len(rows)
        ent = _nent(rows)
        n = sum(ent)
        bounds = set(itertools.accumulate(ent))
        for split in _splits(n, bounds if ver == 2 else None):
            for nrg in ((1, 2) if (len(split) == 1 and nrows >= 2) else (1,)):
                if nrg == 1:
                    rgs = [c.rg(rows, _pages(split, enc, ver))]
                else:
                    a = nrows // 2
                    rgs = [c.rg(part, _pages([sum(_nent(part))], enc, ver)) for part in (rows[:a], rows[a:])]
                c.check(rgs, "rows=%r split=%s rgs=%d" % (rows, split, nrg))


def _enum_mixed(c, p):
    ver = c.ver
    D = "PLAIN_DICTIONARY"
    pool = list(c.pool)
    for rows in _programs(c, p):
        ent = _nent(rows)
        n = sum(ent)
        bounds = set(itertools.accumulate(ent))
        for split in _splits(n, bounds if ver == 2 else None):
            k = len(split)
            what = "rows=%r split=%s" % (rows, split)
            if k >= 2:
                # dictionary fallback and its mirror images: pages of one chunk differ in encoding
                for vec in itertools.product((D, "PLAIN"), repeat=k):
                    if len(set(vec)) < 2:
                        continue
                    pages = [{"n": m, "enc": e, "v": ver} for m, e in zip(split, vec)]
                    c.check([c.rg(rows, pages, key_pages=[dict(pg) for pg in pages] if c.is_map else None)],
                            what + " encs=%s" % "".join("D" if e == D else "P" for e in vec), layout="page_encodings")
            if k <= 2:
                pages = _pages(split, D, ver)
                kp = [dict(pg) for pg in pages] if c.is_map else None        # map keys dictionary-encoded too
                c.check([c.rg(rows, pages, key_pages=kp, dictionary=pool[::-1] + [_unused(c.et)],
                              key_dictionary=(list(c.keys)[::-1] + [b"unused"]) if c.is_map else None)],
                        what + " dict=reversed+unused", layout="dict_permuted")
                c.check([c.rg(rows, pages, key_pages=kp, dictionary=_big_dictionary(c.et, pool))],
                        what + " dict=300", layout="dict_300")
            if c.is_map and k == 2:
                for enc in ("PLAIN", D):
                    one = _pages([n], enc, ver)
                    two = _pages(split, enc, ver)
                    c.check([c.rg(rows, two, key_pages=[dict(pg, enc="PLAIN") for pg in one])],
                            what + " enc=%s keys in one page" % enc, layout="key_value_paging")
                    c.check([c.rg(rows, one, key_pages=[dict(pg, enc="PLAIN") for pg in two])],
                            what + " enc=%s values in one page" % enc, layout="key_value_paging")
    # a dictionary of one label: indices of width 0
    x = pool[0]
    one = _Cell(p, pool=[x, x, x])
    one.first_file = False
    seen = set()
    for rows in _programs(one, p):
        if repr(rows) in seen:
            continue
        seen.add(repr(rows))
        ent = _nent(rows)
        n = sum(ent)
        bounds = set(itertools.accumulate(ent))
        for split in _splits(n, bounds if ver == 2 else None, maxpages=2):
            one.check([one.rg(rows, _pages(split, D, ver), dictionary=[x])],
                      "rows=%r split=%s dict=one label" % (rows, split), layout="dict_1")
    c.files += one.files
    c.rows_checked += one.rows_checked
    c.files_ok += one.files_ok
    for k, s in one.sigs.items():
        c.sigs.setdefault(k, s)
    c.detail = c.detail or one.detail


def _unused(et):
    return {"int32": 12345, "int64": 12345, "utf8": b"unused", "double": 0.125}[et]


def _long_programs(c):
    x, y, z = c.pool
    outer_opt, elem_opt = c.shape in OUTER_OPT, c.shape in ELEM_OPT
    l17 = ([x, y, z] * 6)[:17]
    l9 = ([z, y, x] * 3)[:9]
    progs = [[l17, [], [x]],
             [[x], l17],
             [l9, l9],
             [[x]] * 9 + [l17],       # nine one-entry rows: an RLE run of repetition level 0 also with "auto"
             [[], l9, [], l17]]
    if elem_opt:
        progs.append([[x, None] * 5, l17, [None] * 9])
    else:
        progs.append([[]] * 9 + [l9])
    if outer_opt:
        progs = [pr + [None] for pr in progs[:3]] + [[None] + pr for pr in progs[3:]]
    return progs


def _enum_levels(c, p):
    enc, ver = c.enc, c.ver
    # every short sequence with RLE-run levels (the "auto" program of specpq bit-packs short streams)
    for rows in _programs(c, p):
        n = sum(_nent(rows))
        c.check([c.rg(rows, _pages([n], enc, ver, rep_prog="rle", def_prog="rle"))],
                "rows=%r split=[%d] levels=rle" % (rows, n), levels="rle")
    for rows in _long_programs(c):
        ent = _nent(rows)
        n = sum(ent)
        bounds = set(itertools.accumulate(ent))
        for split in _splits(n, bounds if ver == 2 else None, maxpages=2):
            for prog in ("auto", "rle"):
                c.check([c.rg(rows, _pages(split, enc, ver, rep_prog=prog, def_prog=prog))],
                        "long rows=%r split=%s levels=%s" % ([r if r is None else len(r) for r in rows], split, prog),
                        levels=prog, long=True)


def _enum_rg2(c, p):
    enc, ver = c.enc, c.ver
    for rows in _programs(c, p, minrows=2):
        nrows = len(rows)
        for a in range(1, nrows):
            parts = (rows[:a], rows[a:])
            sp = []
            for part in parts:
                ent = _nent(part)
                sp.append(_splits(sum(ent), set(itertools.accumulate(ent)) if ver == 2 else None, maxpages=2))
            for s1 in sp[0]:
                for s2 in sp[1]:
                    if len(s1) == 1 and len(s2) == 1 and a == nrows // 2:
                        continue    # in the original lattice
                    c.check([c.rg(parts[0], _pages(s1, enc, ver)), c.rg(parts[1], _pages(s2, enc, ver))],
                            "rows=%r | %r splits=%s | %s" % (parts[0], parts[1], s1, s2))


def _run_multi(p):
    """a nested column next to other columns; other ways to read"""
    import io
    import pandas as pd
    import fastparquet
    from mc.specpq import writer as W
    from mc.scratch import mark
    enc, ver = p["enc"], p["v"]
    cells = {"c": _Cell(dict(p, shape="list_oo", elem="int32")),
             "m": _Cell(dict(p, shape="map_o", elem="int32")),
             "d": _Cell(dict(p, shape="list_ro", elem="utf8")),
             "m2": _Cell(dict(p, shape="map_r", elem="double"))}
    for nm, cl in cells.items():
        cl.name = cl.col["name"] = nm
    main = cells["c"]
    alph = {nm: row_alphabet(cl.shape, *cl.pool) for nm, cl in cells.items()}
    flatcol = {"name": "f", "ptype": T_INT64, "rep": "optional", "ct": None}
    order = ["f", "c", "m", "d", "m2"]
    na = len(alph["c"])

    def judge(what, read, colname, raw, exp, model=None):
        if colname == "f":
            from mc import oracles as O
            got = [O.canon_cell(v) for v in raw]
            if O.first_diff(got, exp) is not None:
                main.bad("wrong_value", "%s [%s] flat column: %r, file encodes %r" % (what, read, got, exp),
                         kind="flat_column", read=read, column="flat")
                return False
            return True
        j = _judge(raw, exp, model)
        if j is not None:
            main.bad(j[0], "%s [%s] column %s: read %r, file encodes %r" % (what, read, colname, raw, exp),
                     kind=j[1], read=read, column=cells[colname].shape)
            return False
        return True
    for nrows in range(1, p["maxrows"] + 1):
        for combo in itertools.product(range(na), repeat=nrows):
            rows = {"f": [None if i % 2 else i + 10 for i in combo]}
            for k, nm in enumerate(("c", "m", "d", "m2")):
                rows[nm] = [alph[nm][(i + k) % len(alph[nm])] for i in combo]
            ent = _nent(rows["c"])
            n = sum(ent)
            layouts = [("1rg", [n], None)] + [("1rg", [a, n - a], None) for a in range(1, n)]
            if nrows >= 2:
                layouts.append(("2rg", None, nrows // 2))
            for lname, split, cut in layouts:
                parts = [(0, nrows)] if cut is None else [(0, cut), (cut, nrows)]
                rgs = []
                crgs = []
                for lo, hi in parts:
                    rgspec = {"f": {"rows": rows["f"][lo:hi], "codec": 0}}
                    for nm, cl in cells.items():
                        part = rows[nm][lo:hi]
                        m = sum(_nent(part))
                        sp = split if (nm == "c" and split is not None) else [m]
                        g = cl.rg(part, _pages(sp, enc, ver))
                        if nm == "c":
                            crgs.append(g)
                        rgspec[nm] = cl.chunk(g)
                    rgs.append(rgspec)
                cmodel = main.kf_model(crgs) if ver == 1 else None
                data = W.write_file({"created_by": CREATED_BY, "columns": [flatcol if nm == "f" else cells[nm].col for nm in order],
                                     "row_groups": rgs})
                what = "combo=%r layout=%s split=%s" % (list(combo), lname, split)
                main.files += 1
                mark(what)
                exp = {nm: cells[nm].expected(rows[nm]) for nm in cells}
                exp["f"] = rows["f"]
                reads = [("full", None), ("cols", ["m2", "c"]), ("cols", ["f", "d"]), ("cols", ["m"]), ("iter", None),
                         ("slice", None)]
                okfile = True
                for read, sel in reads:
                    try:
                        pf = fastparquet.ParquetFile(io.BytesIO(data))
                        if read == "iter":
                            df = pd.concat(list(pf.iter_row_groups()), ignore_index=True)
                        elif read == "slice":
                            df = pd.concat([pf[i].to_pandas() for i in range(len(pf.row_groups))], ignore_index=True)
                        elif sel is None:
                            df = pf.to_pandas()
                        else:
                            df = pf.to_pandas(columns=sel)
                    except Exception as e:
                        main.bad("read_raised", "%s [%s %s]: %s: %s" % (what, read, sel, type(e).__name__, str(e)[:160]),
                                 exc=type(e).__name__, read=read)
                        okfile = False
                        continue
                    want = order if sel is None else sel
                    if sorted(df.columns) != sorted(want):
                        main.bad("wrong_columns", "%s [%s %s]: columns %r" % (what, read, sel, list(df.columns)), read=read)
                        okfile = False
                        continue
                    for nm in want:
                        main.rows_checked += nrows
                        okfile = judge(what, read, nm, df[nm].tolist(), exp[nm], cmodel if nm == "c" else None) and okfile
                main.files_ok += 1 if okfile else 0
    return main.result()


ENUM = {"base": _enum_splits, "types": _enum_splits, "nullpos": _enum_splits, "names": _enum_splits,
        "mixed": _enum_mixed, "levels": _enum_levels, "rg2": _enum_rg2}


def run(p):
    fam = p.get("fam", "base")
    if fam == "multi":
        return _run_multi(p)
    c = _Cell(p)
    ENUM[fam](c, p)
    return c.result()


LEVEL_TEXT = ("Bounded-exhaustive: every row sequence up to 3 (quick) / 4 (thorough) rows over the complete row alphabet "
              "of each LIST/MAP shape, with every split of the level stream into up to three pages (including splits "
              "inside a row), plain and dictionary values, v1 and v2 pages, one and two row groups, written by an "
              "independent Dremel shredder and assembled by the real reader; compared row by row with the Python values "
              "(canonical values, then container types, None-ness of nulls, key order of dicts, sign of zero). "
              "Seven further families with shorter sequences vary one more dimension each: element types that need a "
              "conversion, null elements before values, per-page encodings and dictionary contents, column and group "
              "names, RLE-run level streams and long rows, several pages in each of two row groups, and other columns "
              "/ other read calls.")
LEVEL_NOTE = ("Trusted: specpq shredder (self round trip checked per cell). Three-level LIST and standard MAP shapes only; "
              "element types INT32/INT64/UTF8/DOUBLE in the full lattice, DATE/TIMESTAMP_MICROS/UINT_32/BOOLEAN and INT32 "
              "keys on short sequences. Failures of v2 pages are known findings only for the layouts named by the "
              "v2_* predicates; v2 files outside them must read correctly.")
TECHNIQUE = "bounded exhaustive enumeration of row sequences x page splits of nested columns, real reader vs Python values"
