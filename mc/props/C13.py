"""C13 - row-level filtering returns exactly the rows that satisfy the predicate."""
import itertools

ID = "C13"
LEVEL = "exploration"
FLAVOUR = "plain"
TIMEOUT = 600
RULE = ("cell = filter-column kind x page version x page size (default | >= 3 pages per chunk) x codec; inside: every "
        "2-row-group dataset over 6 row-group contents (3 rows each, nulls included) x filter programs of C05 (flat = "
        "AND, nested = OR of ANDs) x output columns (all, without the filter column, only the payload) observed "
        "through to_pandas(filters, row_filter=True) and count(filters, row_filter=True); plus every boolean mask of "
        "the right length for a 6-row, 2-row-group, multi-page frame (2^6 masks) x output columns, wrong-length masks "
        "must raise; plus hive-partitioned datasets with conditions on partition columns. Oracle: pure-Python "
        "evaluation row by row; rows in order; every column aligned by row id; non-trivial = a filtered read whose "
        "expected result has >= 1 row")
ASSUMPTIONS = ["rows whose filter value is NULL/NaN are don't-care for != and not in, excluded otherwise"]

CONTENTS = [(1, 2, 3), (3, 2, 1), (2, 2, 2), (1, None, 3), (None, None, None), (2, None, 2)]


def points(tier):
    pts = []
    kinds = ["int64", "str", "float64", "Int64", "cat", "dt"] if tier == "thorough" else ["int64", "str", "float64", "Int64", "cat"]
    for kind in kinds:
        for ver in (1, 2):
            for tiny in (False, True):
                for codec in ((None, "SNAPPY") if tier == "thorough" else (None,)):
                    for first in range(len(CONTENTS)):
                        pts.append({"m": "F", "kind": kind, "v": ver, "tiny": tiny, "codec": codec, "first": first})
    for ver in (1, 2):
        for tiny in (False, True):
            for payload in ("int", "str_null", "cat"):
                pts.append({"m": "M", "v": ver, "tiny": tiny, "payload": payload})
    for pk in ("int", "str"):
        pts.append({"m": "P", "pkind": pk})
    return pts


def explore(run, tier):
    run.lattice("row-filter", points(tier), "run")


def crash_sig(point, res):
    s = {"m": point["m"], "symptom": res["outcome"]}
    for k in ("kind", "v", "tiny", "payload"):
        if k in point:
            s[k] = point[k]
    return s


def run(p):
    return globals()["run_" + p["m"]](p)


class Acc:
    def __init__(self, base):
        self.base = base
        self.sigs = {}
        self.detail = ""
        self.ctx = {}
        self.evals = 0
        self.nontriv = 0

    def bad(self, symptom, msg, **extra):
        s = dict(self.base)
        s["symptom"] = symptom
        s.update(self.ctx)
        s.update(extra)
        k = repr(sorted(s.items(), key=str))
        if k not in self.sigs:
            self.sigs[k] = s
            if not self.detail:
                self.detail = msg

    def result(self):
        ok = not self.sigs
        return {"ok": ok, "outcome": "exact" if ok else "inexact", "nontrivial": self.nontriv > 0,
                "counts": {"filter_evals": self.evals, "with_rows": self.nontriv},
                "sig": list(self.sigs.values()) or None, "detail": self.detail}


def check_rows(a, what, df_out, must, maybe, table, cols):
    """df_out rows must be exactly `must` (+ optionally some of `maybe`), in order, aligned by rid"""
    from mc import oracles as O
    if "rid" in df_out.columns:
        got = O.series_to_list(df_out["rid"])
    else:
        got = None
    n_lo, n_hi = len(must), len(must) + len(maybe)
    if not (n_lo <= len(df_out) <= n_hi):
        a.bad("wrong_rows", "%s: %d rows returned, expected %d%s" % (what, len(df_out), n_lo, "" if not maybe else "..%d" % n_hi))
        return
    if got is not None:
        allowed = set(must) | set(maybe)
        if any(r not in allowed for r in got) or any(r not in got for r in must):
            a.bad("wrong_rows", "%s: rows %r returned, exactly %r qualify%s" % (what, got, must, " (+ optional %r)" % maybe if maybe else ""))
            return
        if got != sorted(got):
            a.bad("wrong_order", "%s: rows %r are not in original order" % (what, got))
            return
        for col in df_out.columns:
            if col == "rid":
                continue
            vals = O.series_to_list(df_out[col])
            exp = [table[col][r] for r in got]
            i = O.first_diff(vals, exp)
            if i is not None:
                a.bad("misaligned", "%s: column %s of row rid=%s is %r, the row holds %r" % (what, col, got[i], vals[i], exp[i]), col=col)
                return
    else:
        # no row id requested: compare the value multiset order with the must rows when nothing is optional
        if not maybe:
            for col in df_out.columns:
                vals = O.series_to_list(df_out[col])
                exp = [table[col][r] for r in must]
                i = O.first_diff(vals, exp)
                if i is not None:
                    a.bad("misaligned", "%s: column %s row %d is %r, expected %r" % (what, col, i, vals[i], exp[i]), col=col)
                    return


def run_F(p):
    import os
    import pandas as pd
    import fastparquet
    from mc.scratch import scratch
    from mc import oracles as O, wr
    from mc.props import C05
    kind, ver, tiny, codec = p["kind"], p["v"], p["tiny"], p["codec"]
    a = Acc({"m": "F", "kind": kind, "v": ver, "tiny": tiny})
    progs = C05.filter_programs(kind, True)
    d = scratch()
    for second in CONTENTS:
        contents = (CONTENTS[p["first"]], second)
        df, offs = C05.make_frame(kind, contents)
        if df is None:
            continue
        n = len(df)
        df["pay"] = ["p%d" % i if i % 3 else None for i in range(n)]
        df["num"] = [float(i) * 1.5 for i in range(n)]
        path = os.path.join(d, "t.parquet")
        with wr.PageCfg(ver, wr.tiny_page_size(df, 1) if tiny else None):
            fastparquet.write(path, df, row_group_offsets=offs, write_index=False, compression=codec, stats=True)
        pf = fastparquet.ParquetFile(path)
        cells = O.series_to_list(df["x"])
        if kind == "dt":
            cells = [None if c is None else pd.Timestamp(c[1]) for c in cells]
        rids = list(df["rid"])
        table = {c: dict(zip(rids, O.series_to_list(df[c]))) for c in df.columns}
        for shape, filt in progs:
            groups = [filt] if shape == "flat" else filt
            must, maybe = [], []
            for x, r in zip(cells, rids):
                mm, dc = C05.row_matches(groups, {"x": x})
                if mm:
                    must.append(r)
                elif dc:
                    maybe.append(r)
            for cols in (None, ["rid", "pay"], ["num"], ["x", "rid"]):
                a.ctx = {"shape": shape if len(groups) == 1 else "or", "cols": "all" if cols is None else "+".join(cols),
                         "ops": ",".join(sorted({c[1] for g in groups for c in g}))}
                what = "%s v%d tiny=%s rgs=%r filter=%r cols=%r" % (kind, ver, tiny, contents, filt, cols)
                a.evals += 1
                if must:
                    a.nontriv += 1
                try:
                    out = pf.to_pandas(filters=filt, row_filter=True, columns=cols)
                except TypeError as e:
                    if kind == "cat" and "Unordered Categoricals" in str(e):
                        continue      # ordering comparison on an unordered categorical: refusing is a valid answer
                    a.bad("read_raised", "%s: %s: %s" % (what, type(e).__name__, str(e)[:150]), exc=type(e).__name__)
                    continue
                except Exception as e:
                    a.bad("read_raised", "%s: %s: %s" % (what, type(e).__name__, str(e)[:150]), exc=type(e).__name__)
                    continue
                check_rows(a, what, out, must, maybe, table, cols)
            try:
                cnt = int(pf.count(filters=filt, row_filter=True))
                if not (len(must) <= cnt <= len(must) + len(maybe)):
                    a.ctx = {"shape": shape if len(groups) == 1 else "or", "via": "count",
                             "ops": ",".join(sorted({c[1] for g in groups for c in g}))}
                    a.bad("wrong_count", "%s rgs=%r filter=%r: count()=%d, %d rows qualify" % (kind, contents, filt, cnt, len(must)))
            except TypeError as e:
                if not (kind == "cat" and "Unordered Categoricals" in str(e)):
                    a.ctx = {"via": "count"}
                    a.bad("read_raised", "count: %s" % e, exc="TypeError")
            except Exception as e:
                a.ctx = {"via": "count"}
                a.bad("read_raised", "count(filters=%r, row_filter=True): %s: %s" % (filt, type(e).__name__, str(e)[:100]), exc=type(e).__name__)
    return a.result()


def run_M(p):
    """caller-supplied boolean masks"""
    import os
    import numpy as np
    import pandas as pd
    import fastparquet
    from mc.scratch import scratch
    from mc import oracles as O, wr
    ver, tiny, payload = p["v"], p["tiny"], p["payload"]
    a = Acc({"m": "M", "v": ver, "tiny": tiny, "payload": payload})
    n = 6
    rid = list(range(n))
    if payload == "int":
        pay = pd.Series([10, 11, 12, 13, 14, 15], dtype="int64")
    elif payload == "str_null":
        pay = pd.Series(["a", None, "c", None, "e", "f"], dtype=object)
    else:
        pay = pd.Series(pd.Categorical(["u", "v", None, "u", "w", "v"]))
    df = pd.DataFrame({"rid": rid, "pay": pay, "f": [0.5, None, 2.5, 3.5, None, 5.5]})
    d = scratch()
    path = os.path.join(d, "t.parquet")
    with wr.PageCfg(ver, wr.tiny_page_size(df, 1) if tiny else None):
        fastparquet.write(path, df, row_group_offsets=[0, 3], write_index=False)
    pf = fastparquet.ParquetFile(path)
    table = {c: dict(zip(rid, O.series_to_list(df[c]))) for c in df.columns}
    for bits in itertools.product([False, True], repeat=n):
        mask = np.array(bits, dtype=bool)
        must = [r for r, b in zip(rid, bits) if b]
        for cols in (None, ["pay"], ["rid", "f"]):
            a.ctx = {"cols": "all" if cols is None else "+".join(cols),
                     "rg_pattern": "%d%d" % (min(sum(bits[:3]), 2) if sum(bits[:3]) < 3 else 3, min(sum(bits[3:]), 2) if sum(bits[3:]) < 3 else 3)}
            what = "mask=%s v%d tiny=%s payload=%s cols=%r" % ("".join("1" if b else "0" for b in bits), ver, tiny, payload, cols)
            a.evals += 1
            if must:
                a.nontriv += 1
            try:
                out = pf.to_pandas(row_filter=mask, columns=cols)
            except Exception as e:
                a.bad("read_raised", "%s: %s: %s" % (what, type(e).__name__, str(e)[:150]), exc=type(e).__name__)
                continue
            check_rows(a, what, out, must, [], table, cols)
    for wrong in (n - 1, n + 1, 0):
        a.ctx = {"wrong_len": wrong}
        try:
            pf.to_pandas(row_filter=np.ones(wrong, dtype=bool))
            a.bad("wrong_length_accepted", "a mask of length %d was accepted for %d rows" % (wrong, n))
        except Exception:
            pass
    return a.result()


def run_P(p):
    """conditions on partition columns must be honoured exactly"""
    import os
    import pandas as pd
    import fastparquet
    from mc.scratch import scratch
    from mc import oracles as O
    from mc.props import C05
    pk = p["pkind"]
    a = Acc({"m": "P", "pkind": pk})
    pv = {"int": [1, 2], "str": ["a", "b"]}[pk]
    df = pd.DataFrame({"p": [pv[0], pv[0], pv[1], pv[1], pv[0], pv[0], pv[1], pv[1]],
                       "x": [1, 2, 3, 4, 5, 6, 7, 8], "rid": list(range(8))})
    d = scratch()
    path = os.path.join(d, "ds")
    fastparquet.write(path, df, file_scheme="hive", partition_on=["p"], row_group_offsets=[0, 4], write_index=False, stats=True)
    pf = fastparquet.ParquetFile(path)
    full = pf.to_pandas()
    order = O.series_to_list(full["rid"])            # dataset order (partitioned datasets reorder rows)
    table = {c: dict(zip(order, O.series_to_list(full[c]))) for c in full.columns}
    progs = []
    for v in pv:
        progs.append([[("p", "==", v)]])
        progs.append([[("p", "!=", v)]])
        progs.append([[("p", "in", [v])]])
        for xo, xv in (("<=", 2), (">=", 7), ("==", 5), (">", 2)):
            progs.append([[("p", "==", v), ("x", xo, xv)]])
            progs.append([[("p", "==", v), ("x", xo, xv)], [("x", ">=", 7)]])
            progs.append([[("p", "==", v)], [("p", "!=", v), ("x", xo, xv)]])
    for groups in progs:
        must = []
        for r in order:
            mm, dc = C05.row_matches(groups, {"p": table["p"][r], "x": table["x"][r]})
            if mm:
                must.append(r)
        for cols in (None, ["rid", "x"], ["rid", "p"]):
            a.ctx = {"shape": "or" if len(groups) > 1 else "and", "cols": "all" if cols is None else "+".join(cols),
                     "mixed": any(len({c[0] for c in g}) > 1 for g in groups)}
            what = "hive %s filter=%r cols=%r" % (pk, groups, cols)
            a.evals += 1
            if must:
                a.nontriv += 1
            try:
                out = pf.to_pandas(filters=groups, row_filter=True, columns=cols)
            except Exception as e:
                a.bad("read_raised", "%s: %s: %s" % (what, type(e).__name__, str(e)[:150]), exc=type(e).__name__)
                continue
            got = O.series_to_list(out["rid"])
            if got != must:
                a.bad("wrong_rows", "%s: rows %r returned, exactly %r qualify" % (what, got, must))
                continue
            for col in out.columns:
                vals = O.series_to_list(out[col])
                exp = [table[col][r] for r in got]
                if O.first_diff(vals, exp) is not None:
                    a.bad("misaligned", "%s: column %s is %r, rows hold %r" % (what, col, vals, exp), col=col)
    return a.result()


LEVEL_TEXT = ("Bounded-exhaustive lattice: filter-column kinds x v1/v2 x single/multi-page chunks x all 2-row-group datasets "
              "over six row-group contents x ~90 filter programs x four output column sets, plus all 64 boolean masks of "
              "a 6-row two-row-group multi-page frame x payload kinds, plus partition-column conditions; every result is "
              "compared row by row (identity, order, alignment of every column by row id) with a pure-Python evaluation.")
LEVEL_NOTE = ("Trusted: pure-Python predicate evaluation; three rows per row group; NULL semantics of != / not in left open "
              "(both outcomes accepted).")
TECHNIQUE = "bounded exhaustive enumeration of datasets x filter programs / masks x output columns vs pure-Python evaluation"
