"""C13 - row-level filtering returns exactly the rows that satisfy the predicate."""
import itertools

ID = "C13"
LEVEL = "exploration"
FLAVOUR = "plain"
TIMEOUT = 600
RULE = ("F: cell = filter-column kind x page version x page size (default | one row per page) x codec; inside: every "
        "2-row-group dataset over 6 row-group contents of 3 rows (nulls included) plus a 2-row content paired in both "
        "orders with two of them (plain, with a null) and with itself, so row groups of unequal size "
        "occur (thorough: every pair over 8 contents of 2, 3 and 4 rows) x filter programs of C05 (flat = AND, nested = OR "
        "of ANDs) + programs that also condition a second data column (float without nulls, text with nulls) + for the timestamp kind (quick: single-page chunks) every operator against a constant one nanosecond past a stored value x "
        "output columns (all, without the filter column, only the payload, filter column + row id) observed through "
        "to_pandas(filters, row_filter=True), count(filters, row_filter=True), read_row_group_file(rg, columns, "
        "row_filter=filters) for every row group (no pruning there) and the concatenation of "
        "iter_row_groups(filters, row_filter=True) (quick: the last two on single-page chunks only - the direct read "
        "for the second row group of every dataset and the first row group of the datasets whose second content "
        "is the first of the list, which covers every content in both positions, the iterator on v1 pages for "
        "the nullable-integer filter column; thorough: everywhere). M: every boolean mask of the right length x output columns for a "
        "6-row frame in the layouts 3+3, 2+4 rows (single / one-row pages), one row group with pages of 2 and of 3 "
        "rows, and every mask (2^12) of a 12-row frame whose dictionary-encoded column spans two data pages; "
        "wrong-length masks must raise. I: frames with a text index column / range-index metadata with start and "
        "step / a two-level index x page version x page size, 2+4 rows: every mask and every filter program (also "
        "on the index column): index labels must follow the selected rows. P: hive and drill datasets with one or "
        "two partition levels: conditions on partition columns (==, !=, <, >=, in, not in; flat and nested; mixed "
        "with data conditions) through to_pandas and count. Oracle: pure-Python evaluation row by row; rows in "
        "order; every column aligned by row id; returned column labels and their order, column dtypes (same as "
        "the unfiltered read), a fresh 0..n-1 row index, count() == number of rows returned; non-trivial = a "
        "filtered read whose expected result has >= 1 row")
ASSUMPTIONS = ["rows whose filter value is NULL/NaN are don't-care for != and not in, excluded otherwise",
               "to_pandas and count must agree with each other also on the don't-care rows"]

CONTENTS = [(1, 2, 3), (3, 2, 1), (2, 2, 2), (1, None, 3), (None, None, None), (2, None, 2), (2, 3), (1, None, 3, 2)]
NCONT = {"quick": 7, "thorough": 8}
PARTNERS = (0, 3)         # quick tier: the 2-row content meets these 3-row contents (both orders) and itself
WHY_NOT_IN = "rg_dropped_bound_in_list"


def points(tier):
    pts = []
    nc = NCONT[tier]
    deep = tier == "thorough"
    kinds = ["int64", "str", "float64", "Int64", "cat", "dt"]
    for kind in kinds:
        for ver in (1, 2):
            for tiny in (False, True):
                if kind == "dt" and tiny and not deep:
                    continue      # quick: the time column on single-page chunks
                for codec in ((None, "SNAPPY") if deep else (None,)):
                    for first in range(nc):
                        # the direct row-group read and the iterator sit above the page decoder: the quick tier asks
                        # them on single-page chunks only (the iterator on v1 and for the nullable-integer filter
                        # column only), the thorough tier everywhere
                        pts.append({"m": "F", "kind": kind, "v": ver, "tiny": tiny, "codec": codec, "first": first,
                                    "ncont": nc, "rg_file": 2 if deep else 0 if tiny else 1,
                                    "iter": deep or (ver == 1 and not tiny and kind == "Int64")})
    for ver in (1, 2):
        for payload in ("int", "str_null", "cat"):
            for tiny in (False, True):
                for lay in ("3+3", "2+4"):
                    pts.append({"m": "M", "v": ver, "tiny": tiny, "payload": payload, "layout": lay})
            for lay in ("6p2", "6p3"):
                pts.append({"m": "M", "v": ver, "tiny": True, "payload": payload, "layout": lay})
        for part in range(4):
            pts.append({"m": "M", "v": ver, "tiny": True, "payload": "cat", "layout": "12cat", "part": part})
    for ix in ("text", "range", "multi"):
        for ver in (1, 2):
            for tiny in (False, True):
                pts.append({"m": "I", "index": ix, "v": ver, "tiny": tiny})
    for pk in ("int", "str"):
        for scheme in ("hive", "drill"):
            for levels in (1, 2):
                pts.append({"m": "P", "pkind": pk, "scheme": scheme, "levels": levels})
    return pts


def explore(run, tier):
    run.lattice("row-filter", points(tier), "run")


def crash_sig(point, res):
    s = {"m": point["m"], "symptom": res["outcome"]}
    for k in ("kind", "v", "tiny", "payload", "layout", "index", "scheme", "levels"):
        if k in point:
            s[k] = point[k]
    return s


def run(p):
    return globals()["run_" + p["m"]](p)


class Acc:
    def __init__(self, base):
        self.base = base
        self.sigs = {}
        self.detail = ""
        self.ctx = {}
        self.evals = 0
        self.nontriv = 0

    def bad(self, symptom, msg, **extra):
        s = dict(self.base)
        s["symptom"] = symptom
        s.update(self.ctx)
        s.update(extra)
        k = repr(sorted(s.items(), key=str))
        if k not in self.sigs:
            self.sigs[k] = s
            if not self.detail:
                self.detail = msg

    def result(self):
        ok = not self.sigs
        return {"ok": ok, "outcome": "exact" if ok else "inexact", "nontrivial": self.nontriv > 0,
                "counts": {"filter_evals": self.evals, "with_rows": self.nontriv},
                "sig": list(self.sigs.values()) or None, "detail": self.detail}


def _dt(s):
    """dtype of a column as a comparable token (categoricals: only that they are categorical, and their order flag)"""
    import pandas as pd
    if isinstance(s.dtype, pd.CategoricalDtype):
        return "category ordered=%s" % bool(s.dtype.ordered)
    return str(s.dtype)


def ref_dtypes(frame):
    return {str(c): _dt(frame[c]) for c in frame.columns}


def check_rows(a, what, df_out, must, maybe, table, cols, want_cols=None, ref=None, kf=None, key=None,
               plain_index=True):
    """df_out rows must be exactly `must` (+ optionally some of `maybe`), in order, aligned by rid.

    want_cols: the column labels the frame must carry, in order; ref: column -> dtype token of the unfiltered read;
    kf(got_rids | None, n_rows) -> True when the discrepancy is exactly the known 'not in' pruning loss;
    key = (column, value -> rid): a column with unique values that identifies the rows when rid is not requested
    """
    from mc import oracles as O
    if want_cols is not None and [str(c) for c in df_out.columns] != [str(c) for c in want_cols]:
        a.bad("wrong_columns", "%s: columns %r returned, %r requested" % (what, [str(c) for c in df_out.columns], list(want_cols)))
        return
    got = None
    if "rid" in df_out.columns:
        got = O.series_to_list(df_out["rid"])
    elif key is not None and key[0] in df_out.columns:
        try:
            got = [key[1][v] for v in O.series_to_list(df_out[key[0]])]
        except (KeyError, TypeError):
            a.bad("misaligned", "%s: column %s holds %r, values no row has" % (what, key[0], O.series_to_list(df_out[key[0]])), col=key[0])
            return
    n_lo, n_hi = len(must), len(must) + len(maybe)
    if not (n_lo <= len(df_out) <= n_hi):
        extra = {"why": WHY_NOT_IN} if kf is not None and kf(got, len(df_out)) else {}
        a.bad("wrong_rows", "%s: %d rows returned, expected %d%s" % (what, len(df_out), n_lo, "" if not maybe else "..%d" % n_hi), **extra)
        return
    if got is not None:
        allowed = set(must) | set(maybe)
        if any(r not in allowed for r in got) or any(r not in got for r in must) or len(set(got)) != len(got):
            extra = {"why": WHY_NOT_IN} if kf is not None and kf(got, len(df_out)) else {}
            a.bad("wrong_rows", "%s: rows %r returned, exactly %r qualify%s" % (what, got, must, " (+ optional %r)" % maybe if maybe else ""), **extra)
            return
        if got != sorted(got):
            a.bad("wrong_order", "%s: rows %r are not in original order" % (what, got))
            return
        for col in df_out.columns:
            if col == "rid":
                continue
            vals = O.series_to_list(df_out[col])
            exp = [table[col][r] for r in got]
            i = O.first_diff(vals, exp)
            if i is not None:
                a.bad("misaligned", "%s: column %s of row rid=%s is %r, the row holds %r" % (what, col, got[i], vals[i], exp[i]), col=col)
                return
    else:
        # no row id requested: compare the value multiset order with the must rows when nothing is optional
        if not maybe:
            for col in df_out.columns:
                vals = O.series_to_list(df_out[col])
                exp = [table[col][r] for r in must]
                i = O.first_diff(vals, exp)
                if i is not None:
                    a.bad("misaligned", "%s: column %s row %d is %r, expected %r" % (what, col, i, vals[i], exp[i]), col=col)
                    return
    if plain_index and list(df_out.index) != list(range(len(df_out))):
        a.bad("wrong_index", "%s: the frame written without an index comes back with row labels %r" % (what, list(df_out.index)[:8]))
        return
    if ref is not None:
        for col in df_out.columns:
            if _dt(df_out[col]) != ref[str(col)]:
                a.bad("wrong_dtype", "%s: column %s comes back as %s, the unfiltered read gives %s" % (what, col, _dt(df_out[col]), ref[str(col)]), col=str(col))
                return


def not_in_loss(groups, rg_x, rg_must, rg_maybe):
    """-> kf(got, n): is the result exactly what the known unsound 'not in' pruning produces: some row groups whose
    min or max is an element of a 'not in' list of the program are dropped whole, everything else is exact"""
    lists = [c[2] for g in groups for c in g if c[1] == "not in" and c[0] == "x"]
    elig = []
    for gi, xs in rg_x.items():
        nn = [x for x in xs if x is not None]
        if nn and any(min(nn) in l or max(nn) in l for l in lists):
            elig.append(gi)

    def kf(got, n):
        for k in range(1, len(elig) + 1):
            for D in itertools.combinations(elig, k):
                if not any(rg_must[gi] for gi in D):
                    continue
                if got is not None:
                    ok = len(set(got)) == len(got)
                    for gi in rg_x:
                        here = set(r for r in got if r in rg_must[gi] or r in rg_maybe[gi])
                        if gi in D:
                            ok = ok and not here
                        else:
                            ok = ok and set(rg_must[gi]) <= here
                    ok = ok and all(any(r in rg_must[gi] or r in rg_maybe[gi] for gi in rg_x) for r in got)
                else:
                    lo = sum(len(rg_must[gi]) for gi in rg_x if gi not in D)
                    hi = lo + sum(len(rg_maybe[gi]) for gi in rg_x if gi not in D)
                    ok = lo <= n <= hi
                if ok:
                    return True
        return False
    return kf if elig else None


def extra_programs(kind):
    """programs that condition a second data column as well (num: float, no nulls; pay: text with nulls)"""
    from mc.props import C05
    c = lambda v: C05.kval(kind, v)
    progs = [("flat", [("x", ">=", c(2)), ("num", "<", 4.0)]),
             ("flat", [("x", "!=", c(2)), ("pay", "==", "p1")]),
             ("nested", [[("pay", "in", ["p1", "p4"])], [("x", ">", c(2)), ("num", "<=", 3.0)]]),
             ("nested", [[("pay", ">", "p2"), ("x", "<=", c(2))], [("x", "==", c(3))]])]
    if kind == "dt":
        # constants between two ticks of the column's resolution (a nanosecond past a stored value): every
        # operator must compare with the constant as given
        import pandas as pd
        between = c(2) + pd.Timedelta(1, "ns")
        progs += [("flat", [("x", op, between)]) for op in ("==", "!=", "<", "<=", ">", ">=")]
        progs.append(("flat", [("x", ">=", between), ("num", "<", 40.0)]))
    return progs


def run_F(p):
    import os
    import pandas as pd
    import fastparquet
    from mc.scratch import scratch
    from mc import oracles as O, wr
    from mc.props import C05
    kind, ver, tiny, codec = p["kind"], p["v"], p["tiny"], p["codec"]
    a = Acc({"m": "F", "kind": kind, "v": ver, "tiny": tiny})
    conts = CONTENTS[:p.get("ncont", 6)]
    progs = C05.filter_programs(kind, True) + extra_programs(kind)
    d = scratch()
    for si, second in enumerate(conts):
        fi = p["first"]
        if len(conts) == 7 and (fi == 6 or si == 6) and not (fi == si or fi in PARTNERS or si in PARTNERS):
            continue
        contents = (conts[fi], second)
        df, offs = C05.make_frame(kind, contents)
        if df is None:
            continue
        n = len(df)
        df["pay"] = ["p%d" % i if i % 3 else None for i in range(n)]
        df["num"] = [float(i) * 1.5 for i in range(n)]
        path = os.path.join(d, "t.parquet")
        with wr.PageCfg(ver, wr.tiny_page_size(df, 1) if tiny else None):
            fastparquet.write(path, df, row_group_offsets=offs, write_index=False, compression=codec, stats=True)
        pf = fastparquet.ParquetFile(path)
        cells = O.series_to_list(df["x"])
        if kind == "dt":
            cells = [None if c is None else pd.Timestamp(c[1]) for c in cells]
        rids = list(df["rid"])
        table = {c: dict(zip(rids, O.series_to_list(df[c]))) for c in df.columns}
        rows = [{"x": x, "pay": table["pay"][r], "num": table["num"][r]} for x, r in zip(cells, rids)]
        key = ("num", {v: r for r, v in table["num"].items()})
        rg_of = {r: r // 10 for r in rids}
        rg_x = {}
        for x, r in zip(cells, rids):
            rg_x.setdefault(rg_of[r], []).append(x)
        allcols = [str(c) for c in df.columns]
        colsets = (None, ["rid", "pay"], ["num"], ["x", "rid"])
        refs = {}
        for cols in colsets:
            refs[repr(cols)] = ref_dtypes(pf.to_pandas(columns=cols))
        for shape, filt in progs:
            groups = [filt] if shape == "flat" else filt
            must, maybe = [], []
            for row, r in zip(rows, rids):
                mm, dc = C05.row_matches(groups, row)
                if mm:
                    must.append(r)
                elif dc:
                    maybe.append(r)
            rg_must = {gi: [r for r in must if rg_of[r] == gi] for gi in rg_x}
            rg_maybe = {gi: [r for r in maybe if rg_of[r] == gi] for gi in rg_x}
            kf = not_in_loss(groups, rg_x, rg_must, rg_maybe)
            sctx = {"shape": shape if len(groups) == 1 else "or",
                    "ops": ",".join(sorted({c[1] for g in groups for c in g}))}
            if any(c[0] != "x" for g in groups for c in g):
                sctx["two_columns"] = True
            n_all = None
            for cols in colsets:
                a.ctx = dict(sctx, cols="all" if cols is None else "+".join(cols))
                what = "%s v%d tiny=%s rgs=%r filter=%r cols=%r" % (kind, ver, tiny, contents, filt, cols)
                a.evals += 1
                if must:
                    a.nontriv += 1
                try:
                    out = pf.to_pandas(filters=filt, row_filter=True, columns=cols)
                except TypeError as e:
                    if kind == "cat" and "Unordered Categoricals" in str(e):
                        continue      # ordering comparison on an unordered categorical: refusing is a valid answer
                    a.bad("read_raised", "%s: %s: %s" % (what, type(e).__name__, str(e)[:150]), exc=type(e).__name__)
                    continue
                except Exception as e:
                    a.bad("read_raised", "%s: %s: %s" % (what, type(e).__name__, str(e)[:150]), exc=type(e).__name__)
                    continue
                if cols is None:
                    n_all = len(out)
                check_rows(a, what, out, must, maybe, table, cols, want_cols=cols or allcols, ref=refs[repr(cols)],
                           kf=kf, key=key)
            # the same question put to every row group directly (no pruning on this path) ...
            for cols in ((), (["rid", "pay"],), (["rid", "pay"], allcols))[p.get("rg_file", 0)]:
                for gi, rg in enumerate(pf.row_groups):
                    if p.get("rg_file") == 1 and gi == 0 and si != 0:
                        continue      # a direct read does not depend on the other row group: see RULE
                    a.ctx = dict(sctx, cols="+".join(cols) if len(cols) < 4 else "all", via="rg_file")
                    what = "%s v%d tiny=%s rgs=%r read_row_group_file(rg %d, %r, row_filter=%r)" % (kind, ver, tiny, contents, gi, cols, filt)
                    a.evals += 1
                    try:
                        out = pf.read_row_group_file(rg, list(cols), None, row_filter=filt)
                    except TypeError as e:
                        if not (kind == "cat" and "Unordered Categoricals" in str(e)):
                            a.bad("read_raised", "%s: %s: %s" % (what, type(e).__name__, str(e)[:150]), exc=type(e).__name__)
                        continue
                    except Exception as e:
                        a.bad("read_raised", "%s: %s: %s" % (what, type(e).__name__, str(e)[:150]), exc=type(e).__name__)
                        continue
                    check_rows(a, what, out, rg_must[gi], rg_maybe[gi], table, cols, want_cols=cols, key=key)
            # ... and to the row-group iterator
            a.ctx = dict(sctx, cols="all", via="iter")
            what = "%s v%d tiny=%s rgs=%r iter_row_groups(filters=%r, row_filter=True)" % (kind, ver, tiny, contents, filt)
            try:
                if not p.get("iter"):
                    raise StopIteration
                a.evals += 1
                parts = list(pf.iter_row_groups(filters=filt, row_filter=True))
                if parts:
                    out = pd.concat(parts, ignore_index=True)
                    check_rows(a, what, out, must, maybe, table, None, want_cols=allcols, kf=kf, key=key)
                elif must:
                    extra = {"why": WHY_NOT_IN} if kf is not None and kf([], 0) else {}
                    a.bad("wrong_rows", "%s: nothing returned, rows %r qualify" % (what, must), **extra)
            except StopIteration:
                pass
            except TypeError as e:
                if not (kind == "cat" and "Unordered Categoricals" in str(e)):
                    a.bad("read_raised", "%s: %s: %s" % (what, type(e).__name__, str(e)[:150]), exc=type(e).__name__)
            except Exception as e:
                a.bad("read_raised", "%s: %s: %s" % (what, type(e).__name__, str(e)[:150]), exc=type(e).__name__)
            a.ctx = dict(sctx, via="count")
            try:
                cnt = int(pf.count(filters=filt, row_filter=True))
                if not (len(must) <= cnt <= len(must) + len(maybe)):
                    extra = {"why": WHY_NOT_IN} if kf is not None and kf(None, cnt) else {}
                    a.bad("wrong_count", "%s rgs=%r filter=%r: count()=%d, %d rows qualify" % (kind, contents, filt, cnt, len(must)), **extra)
                elif n_all is not None and cnt != n_all:
                    a.bad("count_differs", "%s rgs=%r filter=%r: count()=%d, to_pandas returns %d rows" % (kind, contents, filt, cnt, n_all))
            except TypeError as e:
                if not (kind == "cat" and "Unordered Categoricals" in str(e)):
                    a.bad("read_raised", "count: %s" % e, exc="TypeError")
            except Exception as e:
                a.bad("read_raised", "count(filters=%r, row_filter=True): %s: %s" % (filt, type(e).__name__, str(e)[:100]), exc=type(e).__name__)
    return a.result()


def _page_rows(pf, path, column):
    """rows per data page of every chunk of `column` (layout facts for the coverage record)"""
    from fastparquet.cencoding import ThriftObject
    from fastparquet import encoding
    out = []
    with open(path, "rb") as f:
        for rg in pf.row_groups:
            for col in rg.columns:
                cmd = col.meta_data
                if ".".join(cmd.path_in_schema) != column:
                    continue
                off = min(cmd.dictionary_page_offset or cmd.data_page_offset, cmd.data_page_offset)
                f.seek(off)
                buf = encoding.NumpyIO(f.read(cmd.total_compressed_size))
                ns = []
                while buf.tell() < cmd.total_compressed_size:
                    ph = ThriftObject.from_buffer(buf, "PageHeader")
                    if ph.type == 0:
                        ns.append(ph.data_page_header.num_values)
                    elif ph.type == 3:
                        ns.append(ph.data_page_header_v2.num_values)
                    buf.seek(ph.compressed_page_size, 1)
                out.append(ns)
    return out


M_LAYOUTS = {"3+3": (6, [0, 3], 1), "2+4": (6, [0, 2], 1), "6p2": (6, [0], 2), "6p3": (6, [0], 3), "12cat": (12, [0], None)}


def run_M(p):
    """caller-supplied boolean masks"""
    import os
    import numpy as np
    import pandas as pd
    import fastparquet
    from mc.scratch import scratch
    from mc import oracles as O, wr
    ver, tiny, payload = p["v"], p["tiny"], p["payload"]
    lay = p.get("layout", "3+3")
    a = Acc({"m": "M", "v": ver, "tiny": tiny, "payload": payload, "layout": lay})
    n, offs, rpp = M_LAYOUTS[lay]
    rid = list(range(n))
    if payload == "int":
        pay = pd.Series([10, 11, 12, 13, 14, 15], dtype="int64")
    elif payload == "str_null":
        pay = pd.Series(["a", None, "c", None, "e", "f"], dtype=object)
    elif n == 6:
        pay = pd.Series(pd.Categorical(["u", "v", None, "u", "w", "v"]))
    else:
        pay = pd.Series(pd.Categorical(["u", "v", None, "u", "w", "v", "w", None, "u", "v", None, "w"]))
    df = pd.DataFrame({"rid": rid, "pay": pay, "f": [0.5, None, 2.5, 3.5, None, 5.5] * (n // 6)})
    d = scratch()
    path = os.path.join(d, "t.parquet")
    size = None
    if lay == "12cat":
        size = 9        # int64 / float64: one row per page; the one-byte codes of the categorical: 8 + 4 rows
    elif tiny:
        size = wr.tiny_page_size(df, rpp)
    with wr.PageCfg(ver, size):
        fastparquet.write(path, df, row_group_offsets=offs, write_index=False)
    pf = fastparquet.ParquetFile(path)
    layout = _page_rows(pf, path, "pay")
    if lay == "12cat" and not (len(layout) == 1 and len(layout[0]) >= 2 and min(layout[0]) >= 2):
        a.bad("harness_layout", "the categorical column was meant to span two data pages of several rows, the file has %r" % layout)
    if lay in ("6p2", "6p3") and _page_rows(pf, path, "rid") != [[rpp] * (6 // rpp)]:
        a.bad("harness_layout", "rid was meant to have %d rows per page, the file has %r" % (rpp, _page_rows(pf, path, "rid")))
    table = {c: dict(zip(rid, O.series_to_list(df[c]))) for c in df.columns}
    allcols = [str(c) for c in df.columns]
    colsets = (None,) if lay == "12cat" else (None, ["pay"], ["rid", "f"])
    refs = {repr(cols): ref_dtypes(pf.to_pandas(columns=cols)) for cols in colsets}
    bounds = list(offs) + [n]
    free = n if lay != "12cat" else n - 2
    for tailbits in itertools.product([False, True], repeat=free):
        bits = tailbits if lay != "12cat" else (bool(p["part"] & 2), bool(p["part"] & 1)) + tailbits
        mask = np.array(bits, dtype=bool)
        must = [r for r, b in zip(rid, bits) if b]
        pat = ""
        for lo, hi in zip(bounds[:-1], bounds[1:]):
            k = sum(bits[lo:hi])
            pat += "0" if k == 0 else "F" if k == hi - lo else "1" if k == 1 else "2"
        for cols in colsets:
            a.ctx = {"cols": "all" if cols is None else "+".join(cols), "rg_pattern": pat}
            what = "mask=%s v%d tiny=%s layout=%s payload=%s cols=%r" % ("".join("1" if b else "0" for b in bits), ver, tiny, lay, payload, cols)
            a.evals += 1
            if must:
                a.nontriv += 1
            try:
                out = pf.to_pandas(row_filter=mask, columns=cols)
            except Exception as e:
                a.bad("read_raised", "%s: %s: %s" % (what, type(e).__name__, str(e)[:150]), exc=type(e).__name__)
                continue
            check_rows(a, what, out, must, [], table, cols, want_cols=cols or allcols, ref=refs[repr(cols)])
    if lay != "12cat" or p["part"] == 0:
        for wrong in (n - 1, n + 1, 0):
            a.ctx = {"wrong_len": wrong - n if wrong else "empty"}
            try:
                pf.to_pandas(row_filter=np.ones(wrong, dtype=bool))
                a.bad("wrong_length_accepted", "a mask of length %d was accepted for %d rows" % (wrong, n))
            except Exception:
                pass
    res = a.result()
    res["counts"]["max_pages_per_chunk"] = max(len(x) for x in layout)
    return res


def run_I(p):
    """frames with an index: the row labels must follow the selected rows"""
    import os
    import numpy as np
    import pandas as pd
    import fastparquet
    from mc.scratch import scratch
    from mc import oracles as O, wr
    from mc.props import C05
    ix, ver, tiny = p["index"], p["v"], p["tiny"]
    a = Acc({"m": "I", "index": ix, "v": ver, "tiny": tiny})
    n = 6
    rid = list(range(n))
    df = pd.DataFrame({"x": pd.array([1, None, 3, 3, 2, 1], dtype="Int64"), "rid": rid,
                       "pay": ["a", None, "c", None, "e", "f"]})
    labels = {"text": ["ka", "kb", "kc", "kd", "ke", "kf"], "range": [5, 10, 15, 20, 25, 30],
              "multi": [("ka", 7), ("kb", 7), ("kc", 8), ("kd", 8), ("ke", 9), ("kf", 9)]}[ix]
    if ix == "text":
        df.index = pd.Index(labels, name="k", dtype=object)
    elif ix == "range":
        df.index = pd.RangeIndex(5, 35, 5)
    else:
        df.index = pd.MultiIndex.from_tuples(labels, names=["k", "l"])
    d = scratch()
    path = os.path.join(d, "t.parquet")
    with wr.PageCfg(ver, wr.tiny_page_size(df, 1) if tiny else None):
        fastparquet.write(path, df, row_group_offsets=[0, 2], stats=True)
    pf = fastparquet.ParquetFile(path)
    lab = dict(zip(rid, labels))
    table = {c: dict(zip(rid, O.series_to_list(df[c]))) for c in df.columns}
    full = pf.to_pandas()
    got_full = [tuple(v) if isinstance(v, tuple) else v for v in full.index.tolist()]
    if got_full != labels:
        a.bad("harness_layout", "the unfiltered read gives row labels %r, written %r" % (got_full, labels))
        return a.result()

    def look(what, out, must, maybe):
        data = out.reset_index(drop=True)
        before = len(a.sigs)
        check_rows(a, what, data, must, maybe, table, None, plain_index=False)
        if len(a.sigs) != before or "rid" not in out.columns:
            return
        got = O.series_to_list(out["rid"])
        have = [tuple(v) if isinstance(v, tuple) else v for v in out.index.tolist()]
        want = [lab[r] for r in got]
        if have != want:
            a.bad("index_labels", "%s: rows %r come back labelled %r, they were written as %r" % (what, got, have, want))
        elif list(out.index.names) != list(full.index.names):
            a.bad("index_names", "%s: index names %r, the unfiltered read gives %r" % (what, list(out.index.names), list(full.index.names)))

    for bits in itertools.product([False, True], repeat=n):
        mask = np.array(bits, dtype=bool)
        must = [r for r, b in zip(rid, bits) if b]
        for cols in (None, ["rid"]):
            a.ctx = {"by": "mask", "cols": "all" if cols is None else "+".join(cols)}
            what = "index=%s v%d tiny=%s mask=%s cols=%r" % (ix, ver, tiny, "".join("1" if b else "0" for b in bits), cols)
            a.evals += 1
            if must:
                a.nontriv += 1
            try:
                out = pf.to_pandas(row_filter=mask, columns=cols)
            except Exception as e:
                a.bad("read_raised", "%s: %s: %s" % (what, type(e).__name__, str(e)[:150]), exc=type(e).__name__)
                continue
            look(what, out, must, [])
    progs = C05.filter_programs("Int64", True)
    if ix in ("text", "multi"):
        progs = progs + [("flat", [("k", ">=", "kc")]), ("flat", [("k", "in", ["ka", "ke"]), ("x", "<", 3)]),
                         ("nested", [[("k", "==", "kb")], [("x", "==", 3), ("k", "!=", "kc")]]),
                         ("nested", [[("k", "<", "kc")], [("k", ">", "kd")]])]
    cells = O.series_to_list(df["x"])
    rg_of = {r: (0 if r < 2 else 1) for r in rid}
    rg_x = {0: cells[:2], 1: cells[2:]}
    for shape, filt in progs:
        groups = [filt] if shape == "flat" else filt
        must, maybe = [], []
        for r in rid:
            mm, dc = C05.row_matches(groups, {"x": cells[r], "k": labels[r][0] if ix == "multi" else labels[r]})
            if mm:
                must.append(r)
            elif dc:
                maybe.append(r)
        rg_must = {gi: [r for r in must if rg_of[r] == gi] for gi in rg_x}
        rg_maybe = {gi: [r for r in maybe if rg_of[r] == gi] for gi in rg_x}
        kf = not_in_loss(groups, rg_x, rg_must, rg_maybe)
        for cols in (None, ["rid"]):
            a.ctx = {"by": "filter", "cols": "all" if cols is None else "+".join(cols),
                     "ops": ",".join(sorted({c[1] for g in groups for c in g}))}
            if any(c[0] == "k" for g in groups for c in g):
                a.ctx["on_index"] = True
            what = "index=%s v%d tiny=%s filter=%r cols=%r" % (ix, ver, tiny, filt, cols)
            a.evals += 1
            if must:
                a.nontriv += 1
            try:
                out = pf.to_pandas(filters=filt, row_filter=True, columns=cols)
            except Exception as e:
                if ix == "multi" and isinstance(e, TypeError) and "Unordered Categoricals" in str(e):
                    continue      # the levels of a multi-index are read as categoricals: refusing to order them is valid
                a.bad("read_raised", "%s: %s: %s" % (what, type(e).__name__, str(e)[:150]), exc=type(e).__name__)
                continue
            if kf is not None and kf(O.series_to_list(out["rid"]) if "rid" in out.columns else None, len(out)):
                continue          # the known 'not in' pruning loss is reported by the F cells
            look(what, out, must, maybe)
    return a.result()


def run_P(p):
    """conditions on partition columns must be honoured exactly"""
    import os
    import pandas as pd
    import fastparquet
    from mc.scratch import scratch
    from mc import oracles as O
    from mc.props import C05
    pk = p["pkind"]
    scheme, levels = p.get("scheme", "hive"), p.get("levels", 1)
    a = Acc({"m": "P", "pkind": pk, "scheme": scheme, "levels": levels})
    pv = {"int": [1, 2], "str": ["a", "b"]}[pk]
    df = pd.DataFrame({"p": [pv[0], pv[0], pv[1], pv[1], pv[0], pv[0], pv[1], pv[1]],
                       "x": [1, 2, 3, 4, 5, 6, 7, 8], "rid": list(range(8))})
    part = ["p"]
    if levels == 2:
        df["q"] = ["u", "w", "u", "w", "u", "w", "u", "w"]
        df["x"] = [1, 2, 3, None, 5, 6, 7, 8]
        part = ["p", "q"]
    d = scratch()
    path = os.path.join(d, "ds")
    fastparquet.write(path, df, file_scheme=scheme, partition_on=part, row_group_offsets=[0, 4], write_index=False, stats=True)
    pf = fastparquet.ParquetFile(path)
    pc, qc = ("p", "q") if scheme == "hive" else ("dir0", "dir1")
    full = pf.to_pandas()
    order = O.series_to_list(full["rid"])            # dataset order (partitioned datasets reorder rows)
    table = {c: dict(zip(order, O.series_to_list(full[c]))) for c in full.columns}
    if sorted(order) != list(range(8)) or any(table[pc][r] != df["p"][r] for r in order):
        a.bad("harness_layout", "the unfiltered read of the partitioned dataset does not give the written rows back")
        return a.result()
    progs = []
    for v in pv:
        progs.append([[(pc, "==", v)]])
        progs.append([[(pc, "!=", v)]])
        progs.append([[(pc, "in", [v])]])
        progs.append([[(pc, "not in", [v])]])
        progs.append([[(pc, "<", v)]])
        progs.append([[(pc, ">=", v)]])
        progs.append([[(pc, ">", v), ("x", "<=", 7)]])
        progs.append([[(pc, "not in", [v]), ("x", ">", 3)], [("x", "==", 1)]])
        for xo, xv in (("<=", 2), (">=", 7), ("==", 5), (">", 2)):
            progs.append([[(pc, "==", v), ("x", xo, xv)]])
            progs.append([[(pc, "==", v), ("x", xo, xv)], [("x", ">=", 7)]])
            progs.append([[(pc, "==", v)], [(pc, "!=", v), ("x", xo, xv)]])
        if levels == 2:
            for w in ("u", "w"):
                progs.append([[(qc, "==", w)]])
                progs.append([[(pc, "==", v), (qc, "==", w)]])
                progs.append([[(pc, "==", v), (qc, "!=", w)], [("x", "==", 1)]])
                progs.append([[(pc, "==", v)], [(qc, "<=", w), ("x", ">", 4)]])
                progs.append([[(qc, "in", [w]), ("x", "<", 6)], [(pc, "not in", [v]), (qc, ">", w)]])
    variants = []
    for groups in progs:
        variants.append((groups, groups, "or" if len(groups) > 1 else "and"))
        if len(groups) == 1:
            variants.append((groups, groups[0], "flat"))
    for groups, filt, shape in variants:
        must = []
        for r in order:
            row = {pc: table[pc][r], "x": table["x"][r]}
            if levels == 2:
                row[qc] = table[qc][r]
            mm, dc = C05.row_matches(groups, row)
            if mm:
                must.append(r)
        sctx = {"shape": shape, "mixed": any(len({c[0] for c in g}) > 1 for g in groups),
                "ops": ",".join(sorted({c[1] for g in groups for c in g}))}
        n_all = None
        for cols in (None, ["rid", "x"], ["rid", pc]):
            a.ctx = dict(sctx, cols="all" if cols is None else "+".join(cols))
            what = "%s %s levels=%d filter=%r cols=%r" % (scheme, pk, levels, filt, cols)
            a.evals += 1
            if must:
                a.nontriv += 1
            try:
                out = pf.to_pandas(filters=filt, row_filter=True, columns=cols)
            except Exception as e:
                a.bad("read_raised", "%s: %s: %s" % (what, type(e).__name__, str(e)[:150]), exc=type(e).__name__)
                continue
            if cols is None:
                n_all = len(out)
            want_cols = cols or [str(c) for c in full.columns]
            if [str(c) for c in out.columns] != want_cols:
                a.bad("wrong_columns", "%s: columns %r returned, %r requested" % (what, [str(c) for c in out.columns], want_cols))
                continue
            got = O.series_to_list(out["rid"])
            if got != must:
                a.bad("wrong_rows", "%s: rows %r returned, exactly %r qualify" % (what, got, must))
                continue
            for col in out.columns:
                vals = O.series_to_list(out[col])
                exp = [table[col][r] for r in got]
                if O.first_diff(vals, exp) is not None:
                    a.bad("misaligned", "%s: column %s is %r, rows hold %r" % (what, col, vals, exp), col=col)
        a.ctx = dict(sctx, via="count")
        try:
            cnt = int(pf.count(filters=filt, row_filter=True))
            if cnt != len(must):
                a.bad("wrong_count", "%s %s levels=%d filter=%r: count()=%d, %d rows qualify" % (scheme, pk, levels, filt, cnt, len(must)))
            elif n_all is not None and cnt != n_all:
                a.bad("count_differs", "%s %s filter=%r: count()=%d, to_pandas returns %d rows" % (scheme, pk, filt, cnt, n_all))
        except Exception as e:
            a.bad("read_raised", "count(filters=%r, row_filter=True): %s: %s" % (filt, type(e).__name__, str(e)[:100]), exc=type(e).__name__)
    return a.result()


LEVEL_TEXT = ("Bounded-exhaustive lattice: filter-column kinds x v1/v2 x single/multi-page chunks x 2-row-group datasets "
              "over row-group contents of 3 and 2 rows (equal and unequal sizes, both orders) x ~100 filter programs (one "
              "or two conditioned columns) x four output column sets, asked through to_pandas, count, the direct "
              "row-group read and the row-group iterator; all boolean masks of 6-row frames in five row-group / page "
              "layouts (pages of 1, 2, 3 and all rows) and of a 12-row frame with a two-page dictionary-encoded column; "
              "frames with a text, range or two-level index; hive / drill datasets with one or two partition levels; "
              "every result is compared row by row (identity, order, alignment of every column and of the index labels "
              "by row id, column labels, dtypes, count) with a pure-Python evaluation.")
LEVEL_NOTE = ("Trusted: pure-Python predicate evaluation; two row groups of 2-4 rows; NULL semantics of != / not in left "
              "open (both outcomes accepted, but to_pandas and count must agree).")
TECHNIQUE = "bounded exhaustive enumeration of datasets x filter programs / masks x output columns vs pure-Python evaluation"
