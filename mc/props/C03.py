"""C03 - valid flat Parquet files from any writer decode to exactly what they encode.

Files are produced by specpq's layout-program writer with a foreign created_by
and read by the real ParquetFile(...).to_pandas().
"""
import itertools
import struct

ID = "C03"
LEVEL = "exploration"
FLAVOUR = "plain"
TIMEOUT = 240
RULE = ("complete products per sub-lattice: D1 dictionary pages (physical type x index bit width x v1/v2 x "
        "PLAIN_DICTIONARY/RLE_DICTIONARY; inside a cell: run program x n x required/optional+null pattern x "
        "categories argument), D2 plain pages (type/logical type x codec x page version+compressed flag; "
        "inside: every 1-,2-,3-page split x 1-2 row groups x null pattern x level run program), D3 delta "
        "(int32/int64 x miniblock width 0..64 x count x block shape x v1/v2), D4 RLE booleans, D5 dictionary "
        "fallback, D6 unsupported layouts (must raise), D8 dictionaries filling their index width, D9 foreign chunk "
        "statistics {absent, null_count, full, min/max only} x six level run layouts x four page splits on a "
        "20-value column (incl. PLAIN booleans). D1c dictionaries of converted types (DATE, TIMESTAMP, INT96, "
        "DECIMAL on INT32 and on byte arrays, UINT_32, TIME_MILLIS) x v1/v2 x categories, and dictionary pages "
        "under LZ4_RAW. D10 chunks of 2-3 dictionary-encoded or RLE-boolean pages (four splits x null patterns x "
        "RLE_/PLAIN_DICTIONARY x categories) and 2-3 row groups with different, overlapping dictionaries. D3b "
        "delta pages x logical type x codec/compressed flag x {required, optional without nulls} x page splits x "
        "miniblock sizes 32/64/128 (small values only). D5c chunks with dictionary fallback / pure dictionary "
        "chunks read as categorical: asked for by the caller (refusal or values by label), or implied by the "
        "pandas metadata of an arrow-style writer {with, without encoding_stats, without created_by}. D11 every "
        "ordered choice of 3 of 8 (quick: of the first 6) column kinds in one two-row-group file x per-column "
        "null_count statistics. D12 "
        "writer habits (PLAIN_DICTIONARY-labelled dictionary page, dictionary_page_offset 0, no created_by, empty "
        "row groups, zero-value pages). D2 also runs DECIMAL on FIXED_LEN_BYTE_ARRAY / BYTE_ARRAY; in the quick "
        "tier the combos outside the main list and LZ4_RAW run with 1- and 2-page splits only. An integer column "
        "must yield integer cells unless the column dtype is float64. "
        "evaluations = cells; counts.files = files decoded; "
        "a cell is non-trivial when >= 1 file with >= 1 value was decoded and compared")
ASSUMPTIONS = ["specpq writer emits valid Parquet (self-checked by specpq reader on every file in thorough tier, "
               "on every cell's first file in quick tier)", "cramjam codecs trusted", "flat columns only",
               "python-lzo is not installed (D6 LZO_CODEC: pages labelled LZO must be refused)",
               "pandas metadata of foreign files (D5c) is the arrow layout: pandas_type categorical, numpy_type = "
               "type of the codes, metadata.num_categories"]

CREATED_BY = "parquet-mr version 1.12.3 (build f8dced182c4c1fbdec6ccb3185537b5a01e6ed6b)"

T_BOOLEAN, T_INT32, T_INT64, T_INT96, T_FLOAT, T_DOUBLE, T_BYTE_ARRAY, T_FLBA = range(8)
QUICK_WIDTHS = [0, 1, 2, 3, 7, 8, 9, 16, 24, 25, 32]


# ----------------------------------------------------------------------------- type combos
def _ts_lt(unit, utc):
    return {"TIMESTAMP": {"isAdjustedToUTC": utc, "unit": {unit: {}}}}


def int96(ns_since_epoch):
    day, ns = divmod(ns_since_epoch, 86400 * 10 ** 9)
    return struct.pack("<qi", ns, day + 2440588)


# name -> (ptype, type_length, ct, lt, scale, precision, physical pool, expected canonical fn, dtype check)
def combos():
    from mc.specpq.file import CT
    nan = float("nan")
    inf = float("inf")
    I32 = [0, 1, -1, 2 ** 31 - 1, -2 ** 31, 123456]
    I64 = [0, 1, -1, 2 ** 63 - 1, -2 ** 63, 1234567890123]
    TS_MS = [0, 1, -1, 1600000000000, -86400000, 253402300799000 // 100]
    TS_US = [0, 1, -1, 1600000000000000, -86400000000, 4102444800000000]
    TS_NS = [0, 1, -1, 1600000000000000000, -86400000000000, 2 ** 62]
    c = {}
    c["bool"] = (T_BOOLEAN, None, None, None, None, None, [True, False, False, True, True, False],
                 lambda v: bool(v), ("b", 1))
    c["int32"] = (T_INT32, None, None, None, None, None, I32, lambda v: v, ("i", 4))
    c["int64"] = (T_INT64, None, None, None, None, None, I64, lambda v: v, ("i", 8))
    c["float"] = (T_FLOAT, None, None, None, None, None, [0.0, -0.0, 1.5, -2.25, inf, 3.4028234663852886e38],
                  lambda v: float(v), ("f", 4))
    c["double"] = (T_DOUBLE, None, None, None, None, None, [0.0, -0.0, 1.5, -inf, 1e308, 5e-324],
                   lambda v: float(v), ("f", 8))
    c["double_nan"] = (T_DOUBLE, None, None, None, None, None, [0.0, nan, 1.5, nan, 2.0, 3.0],
                       lambda v: None if v != v else float(v), ("f", 8))
    c["bytes"] = (T_BYTE_ARRAY, None, None, None, None, None, [b"", b"a", b"\x00\xff", b"xyz" * 100, b"a", b"b"],
                  lambda v: v, ("O", None))
    c["utf8"] = (T_BYTE_ARRAY, None, CT["UTF8"], None, None, None,
                 [b"", "é中".encode(), b"abc", b"x" * 300, b"abc", b"z"], lambda v: v.decode(), ("O", None))
    c["utf8_lt"] = (T_BYTE_ARRAY, None, CT["UTF8"], {"STRING": {}}, None, None,
                    [b"q", "é".encode(), b"abc", b"", b"abc", b"z"], lambda v: v.decode(), ("O", None))
    c["json"] = (T_BYTE_ARRAY, None, CT["JSON"], None, None, None,
                 [b'{"a": 1}', b"[1, 2]", b'"s"', b"null", b"3", b"{}"], None, ("O", None))
    c["flba4"] = (T_FLBA, 4, None, None, None, None, [b"abcd", b"\0\0\0\0", b"wxyz", b"\xff\xfe\xfd\xfc", b"abcd", b"1234"],
                  lambda v: v, ("S", 4))
    for name, ctn, bits, signed in (("int8", "INT_8", 8, True), ("int16", "INT_16", 16, True),
                                    ("int32c", "INT_32", 32, True), ("uint8", "UINT_8", 8, False),
                                    ("uint16", "UINT_16", 16, False), ("uint32", "UINT_32", 32, False)):
        if signed:
            pool = [0, 1, -1, 2 ** (bits - 1) - 1, -2 ** (bits - 1), 5]
            exp = (lambda v: v)
            phys = pool
        else:
            pool = [0, 1, 2 ** bits - 1, 2 ** (bits - 1), 7, 5]
            phys = [(v - 2 ** 32 if v >= 2 ** 31 else v) for v in pool]
            exp = (lambda b: (lambda v: v & (2 ** b - 1)))(bits)
        c[name] = (T_INT32, None, CT[ctn], None, None, None, phys, exp, ("i" if signed else "u", bits // 8))
    c["int64c"] = (T_INT64, None, CT["INT_64"], None, None, None, I64, lambda v: v, ("i", 8))
    c["uint64"] = (T_INT64, None, CT["UINT_64"], None, None, None, [0, 1, -1, -2 ** 63, 2 ** 63 - 1, 5],
                   lambda v: v & (2 ** 64 - 1), ("u", 8))
    c["date"] = (T_INT32, None, CT["DATE"], None, None, None, [0, 1, -1, 18000, -25567, 47482],
                 lambda v: ("ts", v * 86400 * 10 ** 9), ("M", 8))
    c["time_ms"] = (T_INT32, None, CT["TIME_MILLIS"], None, None, None, [0, 1, 86399999, 3600000, 1000, 5],
                    lambda v: ("td", v * 10 ** 6), ("m", 8))
    c["time_us"] = (T_INT64, None, CT["TIME_MICROS"], None, None, None, [0, 1, 86399999999, 3600000000, 1000, 5],
                    lambda v: ("td", v * 10 ** 3), ("m", 8))
    c["ts_ms"] = (T_INT64, None, CT["TIMESTAMP_MILLIS"], None, None, None, TS_MS, lambda v: ("ts", v * 10 ** 6), ("M", 8))
    c["ts_us"] = (T_INT64, None, CT["TIMESTAMP_MICROS"], None, None, None, TS_US, lambda v: ("ts", v * 10 ** 3), ("M", 8))
    c["ts_ms_lt"] = (T_INT64, None, CT["TIMESTAMP_MILLIS"], _ts_lt("MILLIS", True), None, None, TS_MS,
                     lambda v: ("ts", v * 10 ** 6), ("M", 8))
    c["ts_us_lt"] = (T_INT64, None, CT["TIMESTAMP_MICROS"], _ts_lt("MICROS", False), None, None, TS_US,
                     lambda v: ("ts", v * 10 ** 3), ("M", 8))
    c["ts_ns_lt"] = (T_INT64, None, None, _ts_lt("NANOS", True), None, None, TS_NS, lambda v: ("ts", v), ("M", 8))
    c["int96"] = (T_INT96, None, None, None, None, None,
                  [int96(v) for v in (0, 1, 1600000000000000000, 86400 * 10 ** 9 - 1, 86400 * 10 ** 9, 10 ** 18)],
                  lambda b: ("ts", struct.unpack("<qi", b)[0] + (struct.unpack("<qi", b)[1] - 2440588) * 86400 * 10 ** 9),
                  ("M", 8))
    c["dec32"] = (T_INT32, None, CT["DECIMAL"], None, 2, 9, [0, 1, -1, 12345, -99999, 5],
                  lambda v: v / 100.0, ("f", 8))
    c["dec64"] = (T_INT64, None, CT["DECIMAL"], None, 3, 18, [0, 1, -1, 123456789, -5, 1000],
                  lambda v: v / 1000.0, ("f", 8))
    # DECIMAL stored as big-endian two's complement bytes: fixed width (parquet-mr legacy, Hive, Impala) and
    # variable width with minimal length (avro-parquet)
    unscaled = [0, 1, -1, 12345, -99999, 2 ** 38 + 7]
    dec = (lambda b: int.from_bytes(b, "big", signed=True) / 100.0)
    for name, ptype, tl in (("dec_flba5", T_FLBA, 5), ("dec_flba16", T_FLBA, 16), ("dec_ba", T_BYTE_ARRAY, None)):
        phys = [v.to_bytes(tl or (v.bit_length() + 8) // 8, "big", signed=True) for v in unscaled]
        c[name] = (ptype, tl, CT["DECIMAL"], None, 2, 12, phys, dec, ("f", 8))
    return c


QUICK_COMBOS = ["bool", "int32", "int64", "double", "double_nan", "utf8", "bytes", "uint8", "uint32", "uint64",
                "ts_us", "ts_ns_lt", "date", "flba4", "dec32", "int96"]
# combos outside QUICK_COMBOS run in the quick tier at codec 0 x {v1, v2 without flag} only (D2)
QUICK_COMBOS_LIGHT = ["float", "utf8_lt", "json", "int8", "int16", "int32c", "uint16", "int64c", "time_ms", "time_us",
                      "ts_ms", "ts_ms_lt", "ts_us_lt", "dec64", "dec_flba5", "dec_flba16", "dec_ba"]
# BOOLEAN is never dictionary-encoded by the format (no dictionary encoding defined for it)
DICT_TYPES = ["int32", "int64", "float", "double", "utf8", "bytes", "flba4"]
# dictionaries whose entries need a logical conversion (D1c)
DICT_CONV_TYPES = ["date", "ts_us", "ts_ms", "int96", "dec32", "uint32", "time_ms", "dec_ba", "dec_flba5"]
DICT_CONV_TYPES_QUICK = ["date", "ts_us", "int96", "dec32", "uint32", "time_ms", "dec_ba"]
# delta-encoded columns of these types (D3b); values are kept small (miniblock widths < 29, see KF-C03-delta-w29)
DELTA_TYPES = ["int32", "int64", "date", "uint8", "uint32", "dec32", "dec64", "ts_us", "time_ms", "time_us"]
DELTA_TYPES_QUICK = ["int32", "int64", "date", "uint8", "dec32", "ts_us", "time_ms"]
ARROW_CREATED_BY = "parquet-cpp-arrow version 12.0.0"
NULLPATS = ["none", "first", "last", "alt", "all"]


def nullmask(pat, n):
    return [{"none": False, "first": i == 0, "last": i == n - 1, "alt": i % 2 == 1, "all": True}[pat] for i in range(n)]


# ----------------------------------------------------------------------------- points
def points(tier):
    pts = []
    widths = range(0, 33) if tier == "thorough" else QUICK_WIDTHS
    for t in DICT_TYPES:
        for w in widths:
            for v in (1, 2):
                for enc in ("PLAIN_DICTIONARY", "RLE_DICTIONARY"):
                    for cats in (0, 1):
                        if cats and t == "bool":
                            continue
                        pts.append({"d": "D1", "type": t, "width": w, "v": v, "enc": enc, "cats": cats, "tier": tier})
    # D7: dictionary pages x codec x page version / compressed flag (few widths)
    for t in DICT_TYPES:
        for w in ((1, 3, 8, 12) if tier == "thorough" else (3,)):
            for codec in ([1, 2, 6, 7, 4] if tier == "thorough" else [1, 6]):
                for pv in ("v1", "v2c", "v2u", "v2a"):
                    for cats in (0, 1):
                        pts.append({"d": "D1", "type": t, "width": w, "v": 1 if pv == "v1" else 2,
                                    "enc": "RLE_DICTIONARY", "cats": cats, "tier": tier, "codec": codec, "pv": pv})
    # D8: dictionaries that fill their index width (indices >= 128 at width 8, >= 32768 at width 16)
    for t in ("int64", "utf8"):
        for dsize, widths in ((129, (8,)), (200, (8, 16, 32)), (256, (8,)), (257, (9,)), (40000, (16,))):
            if dsize == 40000 and (tier != "thorough" and t != "int64"):
                continue
            for w in widths:
                for v in (1, 2):
                    for cats in (0, 1):
                        if cats and dsize > 256:
                            continue
                        pts.append({"d": "D8", "type": t, "dsize": dsize, "width": w, "v": v, "cats": cats})
    # D9: chunk statistics of a foreign writer (absent / null_count only / full / min-max without null_count) x
    # level run layouts on a 20-value column
    for t in (("int32", "int64", "double", "utf8", "uint32", "ts_us") if tier == "thorough" else ("int64", "double", "utf8")):
        for v in (1, 2):
            for st in ("none", "nc", "full", "minmax"):
                pts.append({"d": "D9", "type": t, "v": v, "stats": st})
    cb = list(combos()) if tier == "thorough" else QUICK_COMBOS
    codecs = [0, 1, 2, 6, 7, 4] if tier == "thorough" else [0, 1, 6]
    for t in cb:
        for codec in codecs:
            for pv in ("v1", "v2c", "v2u", "v2a"):
                pts.append({"d": "D2", "type": t, "codec": codec, "pv": pv, "tier": tier})
    for lv in (0, 1):
        ws = range(0, 65 if lv else 33) if tier == "thorough" else [w for w in (0, 1, 2, 7, 8, 9, 16, 24, 28, 29, 32, 33, 56, 57, 64) if w <= (64 if lv else 32)]
        for w in ws:
            for count in (1, 2, 31, 32, 33, 128, 129, 257):
                pts.append({"d": "D3", "longval": lv, "width": w, "count": count})
    for v in (1, 2):
        for codec in (0, 1):
            pts.append({"d": "D4", "v": v, "codec": codec})
    for t in DICT_TYPES:
        for v in (1, 2):
            pts.append({"d": "D5", "type": t, "v": v})
    for kind in ("DELTA_LENGTH_BYTE_ARRAY", "DELTA_BYTE_ARRAY", "BYTE_STREAM_SPLIT", "BIT_PACKED_LEVELS", "DELTA_NULLS",
                 "LZO_CODEC"):
        for v in (1, 2):
            pts.append({"d": "D6", "kind": kind, "v": v})
    pts += points_wave4(tier)
    return pts


def points_wave4(tier):
    """sub-lattices added after the fourth review (new "d" names: C12's points_native does not pick them up)"""
    thorough = tier == "thorough"
    pts = []
    # D2 light: the remaining type combos at codec 0 (thorough runs every combo x every codec already)
    if not thorough:
        for t in QUICK_COMBOS_LIGHT:
            for pv in ("v1", "v2a"):
                pts.append({"d": "D2", "type": t, "codec": 0, "pv": pv, "tier": tier, "light": 1})
        # a codec outside fastparquet's decompress-into set (LZ4_RAW hands back a buffer object)
        for t in ("int64", "utf8", "bool", "double"):
            for pv in ("v1", "v2c", "v2u", "v2a"):
                pts.append({"d": "D2", "type": t, "codec": 7, "pv": pv, "tier": tier, "light": 1})
        for t in ("int64", "utf8"):
            for pv in ("v1", "v2c", "v2u", "v2a"):
                for cats in (0, 1):
                    pts.append({"d": "D1c", "type": t, "width": 3, "v": 1 if pv == "v1" else 2, "enc": "RLE_DICTIONARY",
                                "cats": cats, "tier": tier, "codec": 7, "pv": pv})
    # D1c: dictionaries of converted / logical types
    for t in (DICT_CONV_TYPES if thorough else DICT_CONV_TYPES_QUICK):
        for w in ((1, 2, 3, 8, 12) if thorough else (2,)):
            for v in (1, 2):
                for cats in (0, 1):
                    pts.append({"d": "D1c", "type": t, "width": w, "v": v, "enc": "RLE_DICTIONARY", "cats": cats,
                                "tier": tier})
    # D10: chunks of several dictionary-encoded / RLE-boolean pages, row groups with different dictionaries
    for t in (DICT_TYPES + ["ts_us", "date"] if thorough else ["int64", "utf8", "double", "flba4", "ts_us"]):
        for w in ((3, 8, 9, 17) if thorough else (3, 9)):
            for v in (1, 2):
                for cats in (0, 1):
                    pts.append({"d": "D10", "kind": "dict", "type": t, "width": w, "v": v, "cats": cats, "tier": tier})
    for v in (1, 2):
        for codec in (0, 1):
            pts.append({"d": "D10", "kind": "bool", "v": v, "codec": codec, "tier": tier})
    # D3b: delta pages x logical type x codec / compressed flag x page splits x miniblock shapes
    for t in (DELTA_TYPES if thorough else DELTA_TYPES_QUICK):
        for codec, pv in ([(c, q) for c in (0, 1, 2, 6, 7, 4) for q in ("v1", "v2c", "v2u", "v2a")] if thorough else
                          [(0, "v1"), (0, "v2a"), (1, "v1"), (1, "v2c"), (1, "v2u"), (1, "v2a")]):
            pts.append({"d": "D3b", "type": t, "codec": codec, "pv": pv, "tier": tier})
    # D5c: dictionary fallback / pure dictionary chunks read as categoricals: asked for by the caller, or implied by
    # the pandas metadata of a foreign writer (with and without ColumnMetaData.encoding_stats)
    for t in (DICT_TYPES if thorough else ["int64", "utf8", "double"]):
        for v in (1, 2):
            for layout in ("fallback", "dict"):
                for mode in ("cats", "pm_es", "pm_noes", "pm_nocreator"):
                    if layout == "dict" and mode == "cats":
                        continue    # D1
                    pts.append({"d": "D5c", "type": t, "v": v, "layout": layout, "mode": mode})
    # D11: files of three columns (types, encodings, null statistics differ per column), two row groups
    for v in (1, 2):
        for st in (0, 1):
            for codec in ((0, 1, 6, 7) if thorough else (1,)):
                pts.append({"d": "D11", "v": v, "stats": st, "codec": codec, "kinds": 8 if thorough else 6})
    # D9 on PLAIN booleans (pages of more than 8 values)
    for v in (1, 2):
        for st in ("none", "nc"):
            pts.append({"d": "D9", "type": "bool", "v": v, "stats": st})
    # D12: header habits of real writers
    for kind in ("dict_enc_plain_dictionary", "dict_offset_zero", "no_created_by", "empty_row_group", "empty_page"):
        for v in (1, 2):
            pts.append({"d": "D12", "kind": kind, "v": v})
    return pts


def points_native(tier):
    """D1 + D3 at quick size, used by C12 under the sanitised build"""
    return [p for p in points("quick") if p["d"] in ("D1", "D3", "D4")]


def explore(run, tier):
    run.lattice("foreign-files", points(tier), "run")


def crash_sig(point, res):
    s = {"d": point["d"], "symptom": res["outcome"]}
    for k in ("type", "width", "v", "enc", "longval", "count", "codec", "pv", "kind", "cats", "dsize", "stats",
              "layout", "mode"):
        if k in point:
            s[k] = point[k]
    return s


# ----------------------------------------------------------------------------- worker side
class Cell:
    def __init__(self, point):
        self.point = point
        self.files = 0
        self.values = 0
        self.sigs = {}
        self.detail = ""

    def bad(self, symptom, detail, **extra):
        s = {"d": self.point["d"], "symptom": symptom}
        s.update(getattr(self, "ctx", {}))
        for k in ("type", "width", "v", "enc", "longval", "count", "codec", "pv", "kind", "cats", "dsize", "stats",
                  "layout", "mode"):
            if k in self.point:
                s[k] = self.point[k]
        s.update(extra)
        key = repr(sorted(s.items()))
        if key not in self.sigs:
            self.sigs[key] = s
            if not self.detail:
                self.detail = detail

    def result(self, outcome_ok="decoded"):
        ok = not self.sigs
        return {"ok": ok, "outcome": outcome_ok if ok else "wrong", "nontrivial": self.values > 0,
                "counts": {"files": self.files, "values": self.values},
                "sig": list(self.sigs.values()) or None, "detail": self.detail}


def _col(name, combo, rep):
    ptype, tl, ct, lt, scale, prec = combo[:6]
    return {"name": name, "ptype": ptype, "type_length": tl, "rep": rep, "ct": ct, "lt": lt,
            "scale": scale, "precision": prec}


def read_back(data, categories=None, via="bytes"):
    import io
    import fastparquet
    if via == "bytes":
        pf = fastparquet.ParquetFile(io.BytesIO(data))
    else:
        from mc.scratch import scratch
        import os
        path = os.path.join(scratch("c03"), "f.parquet")
        with open(path, "wb") as f:
            f.write(data)
        pf = fastparquet.ParquetFile(path)
    if categories:
        return pf.to_pandas(categories=categories)
    return pf.to_pandas()


def expected(combo, rows, name):
    exp_fn = combo[7]
    if name == "json":
        import json
        out = []
        for r in rows:
            if r is None:
                out.append(None)
            else:
                try:
                    out.append(json.loads(r))
                except ValueError:
                    out.append("unparseable")
        return out
    return [None if r is None else exp_fn(r) for r in rows]


def compare(c, df, colname, exp, combo, what, rel=1e-12, cat=False, has_null=False, selfcheck=None):
    from mc import oracles as O
    if list(df.columns) != [colname]:
        c.bad("wrong_columns", "%s: columns %r" % (what, list(df.columns)))
        return
    s = df[colname]
    got = O.series_to_list(s)
    if combo[0] == T_FLBA and combo[2] is None:
        # numpy fixed-width bytes drop trailing NULs per cell; the array keeps the width: pad back
        got = [g if g is None or not isinstance(g, bytes) else g.ljust(combo[1], b"\0") for g in got]
    c.values += len(exp)
    i = O.first_diff(got, exp, rel)
    if i is not None:
        if i == -1:
            c.bad("wrong_length", "%s: %d rows, file encodes %d" % (what, len(got), len(exp)))
        else:
            c.bad("wrong_value", "%s: row %d is %r, file encodes %r" % (what, i, got[i], exp[i]))
        return
    kind, size = combo[8]
    dk = O.dtype_kind(s.dtype)
    if kind in ("i", "u") and dk[0] != "f":
        # first_diff compares an integer with a float through float(): a float cell (a value that went through
        # float64 on its way, exact only below 2**53) in an integer / object / categorical column is not "exactly
        # the value the file encodes".  A float64 COLUMN for integers with nulls stays C17's business.
        for i, (g, e) in enumerate(zip(got, exp)):
            if e is not None and isinstance(g, float):
                c.bad("wrong_value", "%s: row %d is the float %r in a %s column, file encodes the integer %r"
                      % (what, i, g, s.dtype, e), inexact=1)
                return
    if cat:
        if dk[0] != "category":
            c.bad("wrong_dtype", "%s: asked for category, dtype %s" % (what, s.dtype))
        return
    if kind in ("i", "u", "b") and has_null:
        # nullable-extension-ness is C17's business: masked int / bool of the right width, float64 or object accepted
        if dk[3] and (dk[0], dk[1]) == (kind, size):
            return
        if dk[0] in ("f", "O"):
            return
        c.bad("wrong_dtype", "%s: dtype %s for %s%s with nulls" % (what, s.dtype, kind, size))
        return
    if kind == "O":
        if dk[0] != "O":
            c.bad("wrong_dtype", "%s: dtype %s, schema implies object" % (what, s.dtype))
    elif kind == "S":
        if dk[0] not in ("S", "O"):
            c.bad("wrong_dtype", "%s: dtype %s, schema implies bytes" % (what, s.dtype))
    elif kind in ("M", "m"):
        if dk[0] != kind:
            c.bad("wrong_dtype", "%s: dtype %s, schema implies %s8" % (what, s.dtype, kind))
    else:
        if (dk[0], dk[1]) != (kind, size) and not (dk[3] and (dk[0], dk[1]) == (kind, size)):
            c.bad("wrong_dtype", "%s: dtype %s, schema implies %s%d" % (what, s.dtype, kind, size * 8))


def _as_float(c, data, colname, exp, what):
    import io
    import fastparquet
    from mc import oracles as O
    c.ctx = dict(c.ctx, as_float=True)
    try:
        df = fastparquet.ParquetFile(io.BytesIO(data), pandas_nulls=False).to_pandas()
    except Exception as e:
        c.bad("read_raised", "%s: %s: %s" % (what, type(e).__name__, str(e)[:150]), exc=type(e).__name__)
        return
    got = O.series_to_list(df[colname])
    want = [None if v is None else float(v) for v in exp]
    c.values += len(want)
    i = O.first_diff(got, want, 1e-12)
    if i is not None:
        c.bad("wrong_value", "%s: row %s is %r, file encodes %r" % (what, i, got[i] if 0 <= i < len(got) else len(got),
                                                                   want[i] if 0 <= i < len(want) else len(want)))


def _as_index(c, data, colname, exp, combo, what):
    import io
    import fastparquet
    c.ctx = dict(c.ctx, as_index=True)
    try:
        df = fastparquet.ParquetFile(io.BytesIO(data)).to_pandas(index=colname)
    except Exception as e:
        c.bad("read_raised", "%s: %s: %s" % (what, type(e).__name__, str(e)[:150]), exc=type(e).__name__)
        return
    if list(df.columns) or list(df.index.names) != [colname]:
        c.bad("wrong_columns", "%s: columns %r, index %r" % (what, list(df.columns), list(df.index.names)))
        return
    compare(c, df.index.to_frame(index=False), colname, exp, combo, what)


def _selfcheck(c, data, colname, rows, what):
    """specpq reads back what specpq wrote (binds the model to itself)"""
    from mc.specpq import file as F
    try:
        p = F.read_file(data)
        got = F.column_rows(p, colname)
    except Exception as e:
        raise AssertionError("specpq cannot read its own file (%s): %s" % (what, e))
    if p.errors:
        raise AssertionError("specpq validator rejects its own file (%s): %s" % (what, p.errors[:2]))
    if repr(got) != repr(list(rows)):
        raise AssertionError("specpq self round trip differs (%s)" % what)


def _try_read(c, data, what, categories=None, via="bytes"):
    try:
        return read_back(data, categories, via)
    except Exception as e:
        c.bad("read_raised", "%s: %s: %s" % (what, type(e).__name__, str(e)[:200]), exc=type(e).__name__)
        return None


def run(point):
    c = Cell(point)
    out = globals()["run_" + point["d"]](c, point)
    return out or c.result()


def run_D1(c, p):
    from mc.specpq import writer as W
    cb = combos()
    combo = cb[p["type"]]
    w, ver, enc = p["width"], p["v"], p["enc"]
    pool = combo[6]
    dsize = 1 if w == 0 else (2 if w == 1 else 4)
    dictionary = []
    for v in pool:
        if not any(repr(v) == repr(d) for d in dictionary):
            dictionary.append(v)
        if len(dictionary) == dsize:
            break
    dsize = len(dictionary)
    thorough = p.get("tier") == "thorough"
    ns = (1, 7, 8, 9, 17, 64, 65) if thorough else (1, 9, 65)
    first = True
    for n in ns:
        progs = ["rle", "bp", "auto"]
        if n >= 9:
            progs += [[("rle", 1), ("bp", n - 1)], [("bp", 8), ("rle", n - 8)]]
        if n >= 17:
            progs += [[("rle", 3), ("bp", 8), ("rle", n - 11)]]
        for rep, pat in [("required", "none")] + [("optional", q) for q in NULLPATS]:
            mask = nullmask(pat, n)
            for prog in progs:
                vals = []
                k = 0
                for i in range(n):
                    if mask[i]:
                        vals.append(None)
                    else:
                        # runs of equal values so that rle programs are legal
                        vals.append(dictionary[(k // 3) % dsize])
                        k += 1
                nn = sum(1 for v in vals if v is not None)
                if isinstance(prog, list):
                    # programs are defined over the non-null values
                    tot = sum(x[1] for x in prog)
                    if tot != nn:
                        continue
                    # make rle segments legal: force equal values inside them
                    flat = [v for v in vals if v is not None]
                    pos = 0
                    for kind, ln in prog:
                        if kind == "rle":
                            for j in range(pos, pos + ln):
                                flat[j] = flat[pos]
                        pos += ln
                    it = iter(flat)
                    vals = [None if v is None else next(it) for v in vals]
                col = _col("c", combo, rep)
                flag = {"v1": None, "v2c": True, "v2u": False, "v2a": None}[p.get("pv", "v1")]
                chunk = {"rows": vals, "dictionary": dictionary, "codec": p.get("codec", 0),
                         "pages": [{"n": n, "enc": enc, "v": ver, "idx_width": w, "idx_prog": prog,
                                    "compressed": flag}]}
                try:
                    data = W.write_file({"created_by": CREATED_BY, "columns": [col], "row_groups": [{"c": chunk}]})
                except ValueError:
                    continue
                what = "D1 n=%d %s nulls=%s prog=%s" % (n, rep, pat, prog)
                c.ctx = {"nulls": pat if rep == "optional" else "required"}
                if first or thorough:
                    _selfcheck(c, data, "c", vals, what)
                    first = False
                exp = expected(combo, vals, p["type"])
                for cats in ((["c"],) if p["cats"] else (None,)):
                    df = _try_read(c, data, what + (" categories" if cats else ""), cats)
                    c.files += 1
                    if df is None:
                        continue
                    compare(c, df, "c", exp, combo, what + (" categories" if cats else ""), cat=bool(cats),
                            has_null=any(mask))


def run_D8(c, p):
    from mc.specpq import writer as W
    cb = combos()
    combo = cb[p["type"]]
    dsize, w, ver = p["dsize"], p["width"], p["v"]
    if p["type"] == "int64":
        dictionary = [1000 * i + 7 for i in range(dsize)]
    else:
        dictionary = [("v%05d" % i).encode() for i in range(dsize)]
    order = [(i * 7919 + 3) % dsize for i in range(dsize)]       # every index once, not in order
    for rep, pat in (("required", "none"), ("optional", "alt")):
        n = dsize
        mask = nullmask(pat, n)
        vals = [None if mask[i] else dictionary[order[i]] for i in range(n)]
        for prog in ("bp", "auto", "rle"):
            col = _col("c", combo, rep)
            chunk = {"rows": vals, "dictionary": dictionary, "codec": 0,
                     "pages": [{"n": n, "enc": "RLE_DICTIONARY", "v": ver, "idx_width": w, "idx_prog": prog}]}
            data = W.write_file({"created_by": CREATED_BY, "columns": [col], "row_groups": [{"c": chunk}]})
            what = "D8 dict=%d width=%d %s nulls=%s prog=%s" % (dsize, w, rep, pat, prog)
            c.ctx = {"nulls": pat if rep == "optional" else "required", "prog": prog}
            if prog == "bp" and rep == "required":
                _selfcheck(c, data, "c", vals, what)
            exp = expected(combo, vals, p["type"])
            df = _try_read(c, data, what, ["c"] if p["cats"] else None)
            c.files += 1
            if df is None:
                continue
            compare(c, df, "c", exp, combo, what, cat=bool(p["cats"]), has_null=any(mask))


def _level_program(name, levels):
    """a named run layout for one page's definition levels (always a legal program for these levels)"""
    k = len(levels)
    if name in ("auto", "rle", "bp"):
        return name
    if name == "rle1+bp":
        return [("rle", 1), ("bp", k - 1)] if k >= 2 else "rle"
    if name == "bp8+rest":
        if k <= 8:
            return "bp"
        rest = levels[8:]
        return [("bp", 8), ("rle" if all(x == rest[0] for x in rest) else "bp", k - 8)]
    if name == "rle+rle":
        j = 1
        while j < k and levels[j] == levels[0]:
            j += 1
        if j < 2:
            return "rle"
        prog = [("rle", j // 2), ("rle", j - j // 2)]
        i = j
        while i < k:
            e = i
            while e < k and levels[e] == levels[i]:
                e += 1
            prog.append(("rle", e - i))
            i = e
        return prog
    raise KeyError(name)


def run_D9(c, p):
    from mc.specpq import writer as W, codecs as C
    combo = combos()[p["type"]]
    ver, st = p["v"], p["stats"]
    pool = combo[6]
    n = 20
    first = True
    for rep, pat in (("required", "none"), ("optional", "none"), ("optional", "first"), ("optional", "alt"),
                     ("optional", "last")):
        mask = nullmask(pat, n)
        vals = [None if mask[i] else pool[(i * 5 + i // 6) % len(pool)] for i in range(n)]
        exp = expected(combo, vals, p["type"])
        present = [v for v in vals if v is not None]
        stats = None
        if st != "none":
            stats = {}
            if st in ("nc", "full"):
                stats["null_count"] = sum(mask)
            if st in ("full", "minmax") and present and p["type"] not in ("double_nan",):
                if combo[0] == T_BYTE_ARRAY:
                    lo, hi = min(present), max(present)
                else:
                    key = (lambda v: v % 2 ** 32) if p["type"] == "uint32" else (lambda v: v)
                    lo = C.plain_encode([min(present, key=key)], combo[0], combo[1])
                    hi = C.plain_encode([max(present, key=key)], combo[0], combo[1])
                stats.update({"min_value": lo, "max_value": hi})
                if st == "full":
                    stats.update({"min": lo, "max": hi})
        for split in ([n], [8, 12], [1, 19], [16, 4]):
            for prog in (("auto", "rle", "bp", "rle1+bp", "bp8+rest", "rle+rle") if rep == "optional" else ("auto",)):
                pages = []
                e0 = 0
                for k in split:
                    lv = [0 if m else 1 for m in mask[e0:e0 + k]]
                    pages.append({"n": k, "enc": "PLAIN", "v": ver, "def_prog": _level_program(prog, lv)})
                    e0 += k
                chunk = {"rows": vals, "codec": 0, "pages": pages}
                if stats is not None:
                    chunk["stats"] = stats
                col = _col("c", combo, rep)
                data = W.write_file({"created_by": CREATED_BY, "columns": [col], "row_groups": [{"c": chunk}]})
                what = "D9 %s nulls=%s stats=%s split=%s levels=%s v%d" % (rep, pat, st, split, prog, ver)
                c.ctx = {"nulls": pat if rep == "optional" else "required", "levels": prog, "pages": len(split)}
                if first:
                    _selfcheck(c, data, "c", vals, what)
                    first = False
                df = _try_read(c, data, what)
                c.files += 1
                if df is None:
                    continue
                compare(c, df, "c", exp, combo, what, has_null=any(mask))


def _splits(n, maxpages=3):
    out = [[n]]
    if n >= 2:
        for a in range(1, n):
            out.append([a, n - a])
    if n >= 3 and maxpages >= 3:
        for a in range(1, n - 1):
            for b in range(a + 1, n):
                out.append([a, b - a, n - b])
    return out


def run_D2(c, p):
    from mc.specpq import writer as W
    cb = combos()
    combo = cb[p["type"]]
    codec, pv = p["codec"], p["pv"]
    ver = 1 if pv == "v1" else 2
    flag = {"v1": None, "v2c": True, "v2u": False, "v2a": None}[pv]
    pool = combo[6]
    thorough = p.get("tier") == "thorough"
    n = 6
    first = True
    for rep, pat in [("required", "none")] + [("optional", q) for q in NULLPATS]:
        mask = nullmask(pat, n)
        vals = [None if mask[i] else pool[i % len(pool)] for i in range(n)]
        exp = expected(combo, vals, p["type"])
        for split in _splits(n, 2 if p.get("light") else 3):
            for defprog in (("auto", "rle", "bp") if rep == "optional" else ("auto",)):
                for nrg in (1, 2):
                    if nrg == 2 and (len(split) != 2 or defprog != "auto"):
                        continue
                    col = _col("c", combo, rep)
                    if nrg == 1:
                        pages = [{"n": k, "enc": "PLAIN", "v": ver, "def_prog": defprog, "compressed": flag} for k in split]
                        rgs = [{"c": {"rows": vals, "codec": codec, "pages": pages}}]
                    else:
                        a = split[0]
                        rgs = [{"c": {"rows": vals[:a], "codec": codec,
                                      "pages": [{"n": a, "enc": "PLAIN", "v": ver, "compressed": flag}]}},
                               {"c": {"rows": vals[a:], "codec": codec,
                                      "pages": [{"n": n - a, "enc": "PLAIN", "v": ver, "compressed": flag}]}}]
                    data = W.write_file({"created_by": CREATED_BY, "columns": [col], "row_groups": rgs})
                    what = "D2 %s nulls=%s split=%s def=%s rgs=%d" % (rep, pat, split, defprog, nrg)
                    c.ctx = {"nulls": pat if rep == "optional" else "required", "pages": len(split) if nrg == 1 else 1,
                             "rgs": nrg}
                    if first or thorough:
                        _selfcheck(c, data, "c", vals, what)
                        first = False
                    df = _try_read(c, data, what, via="path" if (split == [n] and defprog == "auto") else "bytes")
                    c.files += 1
                    if df is None:
                        continue
                    compare(c, df, "c", exp, combo, what, has_null=any(mask))
                    if rep == "optional" and defprog == "auto" and p["type"] in ("int32", "int64", "int8", "uint8"):
                        # the non-default pandas_nulls=False: integers with (possible) NULLs come back as floats
                        _as_float(c, data, "c", exp, what + " pandas_nulls=False")
                    if nrg == 1 and defprog == "auto" and len(split) <= 2:
                        # the same column asked for as the row index (non-default index=): the values, NULLs
                        # included, are those of the column
                        _as_index(c, data, "c", exp, combo, what + " index='c'")


def run_D3(c, p):
    from mc.specpq import writer as W
    from mc.props.C11 import _delta_values
    lv, w, count = p["longval"], p["width"], p["count"]
    combo = combos()["int64" if lv else "int32"]
    for shape in (0, 1):
        vals = _delta_values(w, count, lv, shape)
        for ver in (1, 2):
            for block, mini in ((128, 4), (256, 8)):
                col = _col("c", combo, "required")
                chunk = {"rows": vals, "codec": 0,
                         "pages": [{"n": count, "enc": "DELTA_BINARY_PACKED", "v": ver,
                                    "delta": {"block": block, "mini": mini, "force": w if count > 2 else None}}]}
                data = W.write_file({"created_by": CREATED_BY, "columns": [col], "row_groups": [{"c": chunk}]})
                what = "D3 count=%d shape=%d v%d block=%d/%d" % (count, shape, ver, block, mini)
                if shape == 0 and ver == 1 and block == 128:
                    _selfcheck(c, data, "c", vals, what)
                df = _try_read(c, data, what)
                c.files += 1
                if df is None:
                    continue
                compare(c, df, "c", list(vals), combo, what)


def run_D4(c, p):
    from mc.specpq import writer as W
    combo = combos()["bool"]
    ver, codec = p["v"], p["codec"]
    for n in (1, 7, 8, 9, 64, 65):
        for rep, pat in [("required", "none")] + [("optional", q) for q in NULLPATS]:
            mask = nullmask(pat, n)
            for prog in ("rle", "bp", "auto"):
                vals = [None if mask[i] else bool((i // 3) % 2) for i in range(n)]
                col = _col("c", combo, rep)
                chunk = {"rows": vals, "codec": codec, "pages": [{"n": n, "enc": "RLE", "v": ver, "idx_prog": prog}]}
                data = W.write_file({"created_by": CREATED_BY, "columns": [col], "row_groups": [{"c": chunk}]})
                what = "D4 n=%d %s nulls=%s prog=%s" % (n, rep, pat, prog)
                _selfcheck(c, data, "c", vals, what)
                df = _try_read(c, data, what)
                c.files += 1
                if df is None:
                    continue
                compare(c, df, "c", vals, combo, what, has_null=any(mask))


def run_D5(c, p):
    """dictionary pages followed by PLAIN pages in one chunk"""
    from mc.specpq import writer as W
    cb = combos()
    combo = cb[p["type"]]
    ver = p["v"]
    pool = combo[6]
    dictionary = []
    for v in pool[:3]:
        if not any(repr(v) == repr(d) for d in dictionary):
            dictionary.append(v)
    n = 8
    for rep, pat in [("required", "none"), ("optional", "alt"), ("optional", "first")]:
        mask = nullmask(pat, n)
        for a in (1, 3, 4, 7):
            vals = []
            for i in range(n):
                if mask[i]:
                    vals.append(None)
                elif i < a:
                    vals.append(dictionary[i % len(dictionary)])
                else:
                    vals.append(pool[i % len(pool)])
            col = _col("c", combo, rep)
            chunk = {"rows": vals, "codec": 0, "dictionary": dictionary,
                     "pages": [{"n": a, "enc": "RLE_DICTIONARY", "v": ver}, {"n": n - a, "enc": "PLAIN", "v": ver}]}
            data = W.write_file({"created_by": CREATED_BY, "columns": [col], "row_groups": [{"c": chunk}]})
            what = "D5 %s nulls=%s dict_rows=%d" % (rep, pat, a)
            _selfcheck(c, data, "c", vals, what)
            df = _try_read(c, data, what)
            c.files += 1
            if df is None:
                continue
            compare(c, df, "c", expected(combo, vals, p["type"]), combo, what, has_null=any(mask))



def run_D1c(c, p):
    """D1 over dictionaries whose entries need a logical conversion, and over further codecs"""
    return run_D1(c, p)


def _dictionary_of(pool, k=None):
    out = []
    for v in pool:
        if not any(repr(v) == repr(d) for d in out):
            out.append(v)
    return out[:k] if k else out


def run_D10(c, p):
    """several non-PLAIN data pages in one chunk: every page but the first lands at an offset in the output"""
    from mc.specpq import writer as W
    cb = combos()
    ver = p["v"]
    if p["kind"] == "bool":
        combo = cb["bool"]
        n = 20
        first = True
        for rep, pat in [("required", "none")] + [("optional", q) for q in NULLPATS]:
            mask = nullmask(pat, n)
            vals = [None if mask[i] else bool((i * 5 // 3) % 2) for i in range(n)]
            for split in ([9, 11], [1, 19], [19, 1], [8, 8, 4]):
                for prog in ("auto", "bp"):
                    chunk = {"rows": vals, "codec": p["codec"],
                             "pages": [{"n": k, "enc": "RLE", "v": ver, "idx_prog": prog} for k in split]}
                    data = W.write_file({"created_by": CREATED_BY, "columns": [_col("c", combo, rep)],
                                         "row_groups": [{"c": chunk}]})
                    what = "D10 RLE bool %s nulls=%s split=%s prog=%s" % (rep, pat, split, prog)
                    c.ctx = {"nulls": pat if rep == "optional" else "required", "pages": len(split)}
                    if first:
                        _selfcheck(c, data, "c", vals, what)
                        first = False
                    df = _try_read(c, data, what)
                    c.files += 1
                    if df is not None:
                        compare(c, df, "c", vals, combo, what, has_null=any(mask))
        return
    combo = cb[p["type"]]
    w = p["width"]
    dictionary = _dictionary_of(combo[6])
    cats = ["c"] if p["cats"] else None
    n = 17
    first = True
    for rep, pat in [("required", "none")] + [("optional", q) for q in NULLPATS]:
        mask = nullmask(pat, n)
        vals = [None if mask[i] else dictionary[(i * 3 + 1) % len(dictionary)] for i in range(n)]
        exp = expected(combo, vals, p["type"])
        for split in ([1, 16], [8, 9], [16, 1], [5, 6, 6]):
            for enc in ("RLE_DICTIONARY", "PLAIN_DICTIONARY"):
                chunk = {"rows": vals, "dictionary": dictionary, "codec": 0,
                         "pages": [{"n": k, "enc": enc, "v": ver, "idx_width": w} for k in split]}
                data = W.write_file({"created_by": CREATED_BY, "columns": [_col("c", combo, rep)],
                                     "row_groups": [{"c": chunk}]})
                what = "D10 dict %s nulls=%s split=%s %s%s" % (rep, pat, split, enc, " categories" if cats else "")
                c.ctx = {"nulls": pat if rep == "optional" else "required", "pages": len(split), "rgs": 1}
                if first:
                    _selfcheck(c, data, "c", vals, what)
                    first = False
                df = _try_read(c, data, what, cats)
                c.files += 1
                if df is not None:
                    compare(c, df, "c", exp, combo, what, cat=bool(cats), has_null=any(mask))
        # two / three row groups, each with its own dictionary (overlapping, in a different order)
        dicts = [dictionary[:3], list(reversed(dictionary[1:])), dictionary[:1] + dictionary[3:]]
        for nrg in (2, 3):
            rgs = []
            allv = []
            for j in range(nrg):
                dj = dicts[j]
                m = nullmask(pat, 6)
                vj = [None if m[i] else dj[(i + j) % len(dj)] for i in range(6)]
                allv += vj
                rgs.append({"c": {"rows": vj, "dictionary": dj, "codec": 0,
                                  "pages": [{"n": 6, "enc": "RLE_DICTIONARY", "v": ver, "idx_width": w}]}})
            data = W.write_file({"created_by": CREATED_BY, "columns": [_col("c", combo, rep)], "row_groups": rgs})
            what = "D10 dict %s nulls=%s %d row groups with different dictionaries%s" % (
                rep, pat, nrg, " categories" if cats else "")
            c.ctx = {"nulls": pat if rep == "optional" else "required", "pages": 1, "rgs": nrg}
            df = _try_read(c, data, what, cats)
            c.files += 1
            if df is not None:
                compare(c, df, "c", expected(combo, allv, p["type"]), combo, what, cat=bool(cats),
                        has_null=any(v is None for v in allv))


def run_D3b(c, p):
    """delta pages of logical types, under codecs and compressed flags, split over pages, with other miniblock sizes"""
    from mc.specpq import writer as W
    combo = combos()[p["type"]]
    codec, pv = p["codec"], p["pv"]
    ver = 1 if pv == "v1" else 2
    flag = {"v1": None, "v2c": True, "v2u": False, "v2a": None}[pv]
    pool = [v for v in combo[6] if abs(v) < 100000]
    first = True
    for rep in ("required", "optional"):
        for n, splits, shapes in ((12, ([12], [5, 7], [1, 11], [4, 4, 4]), ((128, 4),)),
                                  (150, ([150], [70, 80]), ((128, 4), (128, 2), (128, 1), (256, 4), (512, 4)))):
            vals = [pool[(i * 5 + i // 7 + 1) % len(pool)] for i in range(n)]
            exp = expected(combo, vals, p["type"])
            for split in splits:
                for block, mini in shapes:
                    chunk = {"rows": vals, "codec": codec,
                             "pages": [{"n": k, "enc": "DELTA_BINARY_PACKED", "v": ver, "compressed": flag,
                                        "delta": {"block": block, "mini": mini}} for k in split]}
                    data = W.write_file({"created_by": CREATED_BY, "columns": [_col("c", combo, rep)],
                                         "row_groups": [{"c": chunk}]})
                    what = "D3b %s n=%d split=%s block=%d/%d" % (rep, n, split, block, mini)
                    c.ctx = {"nulls": "required" if rep == "required" else "none", "pages": len(split),
                             "per_mini": block // mini}
                    if first:
                        _selfcheck(c, data, "c", vals, what)
                        first = False
                    df = _try_read(c, data, what)
                    c.files += 1
                    if df is not None:
                        compare(c, df, "c", exp, combo, what)


def _pandas_md(name, ncat):
    import json
    return json.dumps({"index_columns": [], "column_indexes": [], "pandas_version": "2.0.0",
                       "columns": [{"name": name, "field_name": name, "pandas_type": "categorical",
                                    "numpy_type": "int8", "metadata": {"num_categories": ncat, "ordered": False}}]})


def run_D5c(c, p):
    """chunks read as categoricals: a chunk with dictionary fallback must be refused or decoded by value, never
    relabelled; the pandas metadata of another writer must not make a plain to_pandas() fail or relabel"""
    from mc.specpq import writer as W
    cb = combos()
    combo = cb[p["type"]]
    ver, layout, mode = p["v"], p["layout"], p["mode"]
    pool = combo[6]
    dictionary = _dictionary_of(pool[:3])
    n = 8
    for rep, pat in [("required", "none"), ("optional", "alt"), ("optional", "first")]:
        mask = nullmask(pat, n)
        for a in ((1, 4, 7) if layout == "fallback" else (n,)):
            vals = []
            for i in range(n):
                if mask[i]:
                    vals.append(None)
                elif i < a:
                    vals.append(dictionary[i % len(dictionary)])
                else:
                    vals.append(pool[i % len(pool)])
            pages = [{"n": a, "enc": "RLE_DICTIONARY", "v": ver}]
            if a < n:
                pages.append({"n": n - a, "enc": "PLAIN", "v": ver})
            chunk = {"rows": vals, "codec": 0, "dictionary": dictionary, "pages": pages,
                     "encoding_stats": mode != "pm_noes"}
            spec = {"created_by": CREATED_BY if mode == "cats" else ARROW_CREATED_BY,
                    "columns": [_col("c", combo, rep)], "row_groups": [{"c": chunk}]}
            if mode == "pm_nocreator":
                spec["created_by"] = None
            if mode != "cats":
                spec["kv"] = [("pandas", _pandas_md("c", len(dictionary)))]
            data = W.write_file(spec)
            what = "D5c %s %s %s nulls=%s dict_rows=%d" % (layout, mode, rep, pat, a)
            c.ctx = {"nulls": pat if rep == "optional" else "required"}
            _selfcheck(c, data, "c", vals, what)
            exp = expected(combo, vals, p["type"])
            c.files += 1
            if mode == "cats":
                # the caller asks for a categorical although not every page is dictionary-encoded: the documented
                # answer is a refusal; values by label would be fine, too
                try:
                    df = read_back(data, ["c"])
                except Exception:
                    c.values += len(exp)
                    continue
                compare(c, df, "c", exp, combo, what + " categories", cat=True, has_null=any(mask))
                continue
            df = _try_read(c, data, what)
            if df is None:
                continue
            from mc import oracles as O
            is_cat = O.dtype_kind(df["c"].dtype)[0] == "category" if list(df.columns) == ["c"] else False
            compare(c, df, "c", exp, combo, what, cat=is_cat, has_null=any(mask))


D11_SPECS = [("int64", "optional", "alt", "plain"), ("int32", "optional", "none", "plain"),
             ("utf8", "optional", "first", "dict"), ("bool", "required", "none", "plain"),
             ("int64", "required", "none", "dict"), ("double", "optional", "all", "plain"),
             ("uint8", "optional", "last", "plain"), ("ts_us", "optional", "alt", "dict")]


def run_D11(c, p):
    """every ordered choice of three of eight column kinds in one file: chunk offsets, per-column statistics"""
    from mc.specpq import writer as W
    cb = combos()
    ver, codec = p["v"], p["codec"]
    n = 8
    made = []
    for t, rep, pat, kind in D11_SPECS:
        combo = cb[t]
        mask = nullmask(pat, n)
        if kind == "dict":
            dictionary = _dictionary_of(combo[6], 4)
            vals = [None if mask[i] else dictionary[i % len(dictionary)] for i in range(n)]
            chunk = {"rows": vals, "dictionary": dictionary, "codec": codec,
                     "pages": [{"n": n, "enc": "RLE_DICTIONARY", "v": ver}]}
        else:
            vals = [None if mask[i] else combo[6][i % len(combo[6])] for i in range(n)]
            chunk = {"rows": vals, "codec": codec,
                     "pages": [{"n": 3, "enc": "PLAIN", "v": ver}, {"n": n - 3, "enc": "PLAIN", "v": ver}]}
        if p["stats"]:
            chunk["stats"] = {"null_count": sum(mask)}
        made.append((t, rep, combo, chunk, vals, any(mask)))
    first = True
    for perm in itertools.permutations(range(p.get("kinds", len(D11_SPECS))), 3):
        cols, rg = [], {}
        for j, k in enumerate(perm):
            t, rep, combo, chunk, vals, hn = made[k]
            cols.append(_col("c%d" % j, combo, rep))
            rg["c%d" % j] = chunk
        data = W.write_file({"created_by": CREATED_BY, "columns": cols, "row_groups": [rg, rg]})
        what = "D11 columns %s" % ([D11_SPECS[k][0] + "/" + D11_SPECS[k][3] for k in perm],)
        if first:
            for j, k in enumerate(perm):
                _selfcheck(c, data, "c%d" % j, made[k][4] * 2, what)
            first = False
        df = _try_read(c, data, what)
        c.files += 1
        if df is None:
            continue
        if list(df.columns) != ["c0", "c1", "c2"]:
            c.bad("wrong_columns", "%s: columns %r" % (what, list(df.columns)))
            continue
        for j, k in enumerate(perm):
            t, rep, combo, chunk, vals, hn = made[k]
            c.ctx = {"col": t + "/" + D11_SPECS[k][3], "pos": j}
            compare(c, df[["c%d" % j]], "c%d" % j, expected(combo, vals * 2, t), combo, what + " column %d" % j,
                    has_null=hn)


def run_D12(c, p):
    """layout habits of real writers that the other sub-lattices never emit"""
    from mc.specpq import writer as W
    cb = combos()
    kind, ver = p["kind"], p["v"]
    for t in ("int64", "utf8", "bool"):
        combo = cb[t]
        pool = combo[6]
        for rep, pat in (("required", "none"), ("optional", "none"), ("optional", "alt")):
            n = 6
            mask = nullmask(pat, n)
            vals = [None if mask[i] else pool[i % len(pool)] for i in range(n)]
            plain = {"rows": vals, "codec": 0, "pages": [{"n": n, "enc": "PLAIN", "v": ver}]}
            spec = {"created_by": CREATED_BY, "columns": [_col("c", combo, rep)]}
            variants = []
            if kind == "dict_enc_plain_dictionary":
                # parquet-mr (v1 pages) labels the dictionary page itself PLAIN_DICTIONARY
                if t == "bool":
                    continue
                dictionary = _dictionary_of(pool)
                ch = {"rows": vals, "codec": 0, "dictionary": dictionary, "dict_enc": 2,
                      "pages": [{"n": n, "enc": "PLAIN_DICTIONARY", "v": ver}]}
                variants.append(("", [{"c": ch}], vals))
            elif kind == "dict_offset_zero":
                variants.append(("", [{"c": dict(plain, dictionary_page_offset=0)}], vals))
            elif kind == "no_created_by":
                spec["created_by"] = None
                variants.append(("", [{"c": plain}], vals))
            elif kind == "empty_row_group":
                for sizes in ((0, 6), (6, 0), (3, 0, 3), (0,)):
                    rgs, e0 = [], 0
                    for k in sizes:
                        rgs.append({"c": {"rows": vals[e0:e0 + k], "codec": 0,
                                          "pages": [{"n": k, "enc": "PLAIN", "v": ver}] if k else []}})
                        e0 += k
                    variants.append((" sizes=%s" % (sizes,), rgs, vals[:e0]))
            else:   # empty_page: a data page of zero values between / before / after the others
                for split in ([0, 6], [3, 0, 3], [6, 0]):
                    ch = {"rows": vals, "codec": 0, "pages": [{"n": k, "enc": "PLAIN", "v": ver} for k in split]}
                    variants.append((" split=%s" % (split,), [{"c": ch}], vals))
            for label, rgs, rows in variants:
                data = W.write_file(dict(spec, row_groups=rgs))
                what = "D12 %s %s %s nulls=%s%s" % (kind, t, rep, pat, label)
                c.ctx = {"nulls": pat if rep == "optional" else "required", "type": t}
                _selfcheck(c, data, "c", rows, what)
                df = _try_read(c, data, what)
                c.files += 1
                if df is not None:
                    compare(c, df, "c", expected(combo, rows, t), combo, what,
                            has_null=any(r is None for r in rows))


def run_D6(c, p):
    """layouts outside the supported set: must raise, never return values"""
    from mc.specpq import writer as W
    cb = combos()
    kind, ver = p["kind"], p["v"]
    n = 5
    if kind in ("DELTA_LENGTH_BYTE_ARRAY", "DELTA_BYTE_ARRAY"):
        combo = cb["utf8"]
        page = {"n": n, "enc": W.ENC[kind], "v": ver}
        rep, vals = "required", [b"aa", b"ab", b"b", b"", b"abc"]
    elif kind == "BYTE_STREAM_SPLIT":
        combo = cb["double"]
        page = {"n": n, "enc": W.ENC[kind], "v": ver}
        rep, vals = "required", [1.0, 2.0, 3.0, 4.0, 5.0]
    elif kind == "LZO_CODEC":
        # pages compressed with a codec the installation cannot decompress (labelled LZO; python-lzo is absent)
        combo = cb["int32"]
        page = {"n": n, "enc": "PLAIN", "v": ver}
        rep, vals = "required", [1, 2, 3, 4, 5]
    elif kind == "BIT_PACKED_LEVELS":
        if ver == 2:
            return {"ok": True, "outcome": "not_expressible", "nontrivial": False}
        combo = cb["int32"]
        page = {"n": n, "enc": "PLAIN", "v": 1, "def_enc": 4}
        rep, vals = "optional", [1, None, 3, None, 5]
    else:  # DELTA_NULLS: delta-encoded column with nulls
        combo = cb["int64"]
        page = {"n": n, "enc": "DELTA_BINARY_PACKED", "v": ver}
        rep, vals = "optional", [1, None, 3, 4, None]
    col = _col("c", combo, rep)
    chunk = {"rows": vals, "codec": 0, "pages": [page]}
    if kind == "LZO_CODEC":
        chunk.update({"codec": 1, "codec_label": 3})
    data = W.write_file({"created_by": CREATED_BY, "columns": [col], "row_groups": [{"c": chunk}]})
    c.files += 1
    try:
        df = read_back(data)
    except Exception as e:
        c.values += 1
        return {"ok": True, "outcome": "refused", "nontrivial": True, "counts": {"files": 1},
                "detail": "%s: %s" % (type(e).__name__, str(e)[:100])}
    if kind == "DELTA_NULLS":
        # delta with nulls is a valid layout; decoding it correctly is fine, too
        from mc import oracles as O
        got = O.series_to_list(df["c"])
        if O.first_diff(got, vals) is None:
            return {"ok": True, "outcome": "decoded", "nontrivial": True, "counts": {"files": 1}}
    c.bad("decoded_unsupported", "%s v%d was not refused; returned %r" % (kind, ver, df["c"].tolist()[:5]))
    return c.result()


LEVEL_TEXT = ("Bounded-exhaustive lattice of foreign layouts emitted by an independent spec-level writer (dictionary "
              "index widths 0..32 with every run mixture, all page splits of a short column, level run programs, "
              "delta miniblock widths 0..64, codecs, v1/v2 with every compressed-flag state, dictionary fallback, "
              "unsupported encodings and codecs, dictionaries and delta pages of logical types, chunks of several "
              "non-PLAIN pages, row groups with different dictionaries, categorical reads asked for or implied by "
              "foreign pandas metadata, three-column files, byte-array decimals) decoded by the real reader and "
              "compared cell by cell with the values the layout program encodes.")
LEVEL_NOTE = ("Trusted: specpq writer (each cell's files are re-read by the specpq validator), cramjam. Flat columns "
              "only (nested is C15); nullable-extension-ness not judged (C17).")
TECHNIQUE = "bounded exhaustive enumeration of spec-encoder layout programs, decoded by the real reader"
