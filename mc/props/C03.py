"""C03 - valid flat Parquet files from any writer decode to exactly what they encode.

Files are produced by specpq's layout-program writer with a foreign created_by
and read by the real ParquetFile(...).to_pandas().
"""
import itertools
import struct

ID = "C03"
LEVEL = "exploration"
FLAVOUR = "plain"
TIMEOUT = 240
RULE = ("complete products per sub-lattice: D1 dictionary pages (physical type x index bit width x v1/v2 x "
        "PLAIN_DICTIONARY/RLE_DICTIONARY; inside a cell: run program x n x required/optional+null pattern x "
        "categories argument), D2 plain pages (type/logical type x codec x page version+compressed flag; "
        "inside: every 1-,2-,3-page split x 1-2 row groups x null pattern x level run program), D3 delta "
        "(int32/int64 x miniblock width 0..64 x count x block shape x v1/v2), D4 RLE booleans, D5 dictionary "
        "fallback, D6 unsupported layouts (must raise), D8 dictionaries filling their index width, D9 foreign chunk "
        "statistics {absent, null_count, full, min/max only} x six level run layouts x four page splits on a "
        "20-value column. evaluations = cells; counts.files = files decoded; "
        "a cell is non-trivial when >= 1 file with >= 1 value was decoded and compared")
ASSUMPTIONS = ["specpq writer emits valid Parquet (self-checked by specpq reader on every file in thorough tier, "
               "on every cell's first file in quick tier)", "cramjam codecs trusted", "flat columns only"]

CREATED_BY = "parquet-mr version 1.12.3 (build f8dced182c4c1fbdec6ccb3185537b5a01e6ed6b)"

T_BOOLEAN, T_INT32, T_INT64, T_INT96, T_FLOAT, T_DOUBLE, T_BYTE_ARRAY, T_FLBA = range(8)
QUICK_WIDTHS = [0, 1, 2, 3, 7, 8, 9, 16, 24, 25, 32]


# ----------------------------------------------------------------------------- type combos
def _ts_lt(unit, utc):
    return {"TIMESTAMP": {"isAdjustedToUTC": utc, "unit": {unit: {}}}}


def int96(ns_since_epoch):
    day, ns = divmod(ns_since_epoch, 86400 * 10 ** 9)
    return struct.pack("<qi", ns, day + 2440588)


# name -> (ptype, type_length, ct, lt, scale, precision, physical pool, expected canonical fn, dtype check)
def combos():
    from mc.specpq.file import CT
    nan = float("nan")
    inf = float("inf")
    I32 = [0, 1, -1, 2 ** 31 - 1, -2 ** 31, 123456]
    I64 = [0, 1, -1, 2 ** 63 - 1, -2 ** 63, 1234567890123]
    TS_MS = [0, 1, -1, 1600000000000, -86400000, 253402300799000 // 100]
    TS_US = [0, 1, -1, 1600000000000000, -86400000000, 4102444800000000]
    TS_NS = [0, 1, -1, 1600000000000000000, -86400000000000, 2 ** 62]
    c = {}
    c["bool"] = (T_BOOLEAN, None, None, None, None, None, [True, False, False, True, True, False],
                 lambda v: bool(v), ("b", 1))
    c["int32"] = (T_INT32, None, None, None, None, None, I32, lambda v: v, ("i", 4))
    c["int64"] = (T_INT64, None, None, None, None, None, I64, lambda v: v, ("i", 8))
    c["float"] = (T_FLOAT, None, None, None, None, None, [0.0, -0.0, 1.5, -2.25, inf, 3.4028234663852886e38],
                  lambda v: float(v), ("f", 4))
    c["double"] = (T_DOUBLE, None, None, None, None, None, [0.0, -0.0, 1.5, -inf, 1e308, 5e-324],
                   lambda v: float(v), ("f", 8))
    c["double_nan"] = (T_DOUBLE, None, None, None, None, None, [0.0, nan, 1.5, nan, 2.0, 3.0],
                       lambda v: None if v != v else float(v), ("f", 8))
    c["bytes"] = (T_BYTE_ARRAY, None, None, None, None, None, [b"", b"a", b"\x00\xff", b"xyz" * 100, b"a", b"b"],
                  lambda v: v, ("O", None))
    c["utf8"] = (T_BYTE_ARRAY, None, CT["UTF8"], None, None, None,
                 [b"", "é中".encode(), b"abc", b"x" * 300, b"abc", b"z"], lambda v: v.decode(), ("O", None))
    c["utf8_lt"] = (T_BYTE_ARRAY, None, CT["UTF8"], {"STRING": {}}, None, None,
                    [b"q", "é".encode(), b"abc", b"", b"abc", b"z"], lambda v: v.decode(), ("O", None))
    c["json"] = (T_BYTE_ARRAY, None, CT["JSON"], None, None, None,
                 [b'{"a": 1}', b"[1, 2]", b'"s"', b"null", b"3", b"{}"], None, ("O", None))
    c["flba4"] = (T_FLBA, 4, None, None, None, None, [b"abcd", b"\0\0\0\0", b"wxyz", b"\xff\xfe\xfd\xfc", b"abcd", b"1234"],
                  lambda v: v, ("S", 4))
    for name, ctn, bits, signed in (("int8", "INT_8", 8, True), ("int16", "INT_16", 16, True),
                                    ("int32c", "INT_32", 32, True), ("uint8", "UINT_8", 8, False),
                                    ("uint16", "UINT_16", 16, False), ("uint32", "UINT_32", 32, False)):
        if signed:
            pool = [0, 1, -1, 2 ** (bits - 1) - 1, -2 ** (bits - 1), 5]
            exp = (lambda v: v)
            phys = pool
        else:
            pool = [0, 1, 2 ** bits - 1, 2 ** (bits - 1), 7, 5]
            phys = [(v - 2 ** 32 if v >= 2 ** 31 else v) for v in pool]
            exp = (lambda b: (lambda v: v & (2 ** b - 1)))(bits)
        c[name] = (T_INT32, None, CT[ctn], None, None, None, phys, exp, ("i" if signed else "u", bits // 8))
    c["int64c"] = (T_INT64, None, CT["INT_64"], None, None, None, I64, lambda v: v, ("i", 8))
    c["uint64"] = (T_INT64, None, CT["UINT_64"], None, None, None, [0, 1, -1, -2 ** 63, 2 ** 63 - 1, 5],
                   lambda v: v & (2 ** 64 - 1), ("u", 8))
    c["date"] = (T_INT32, None, CT["DATE"], None, None, None, [0, 1, -1, 18000, -25567, 47482],
                 lambda v: ("ts", v * 86400 * 10 ** 9), ("M", 8))
    c["time_ms"] = (T_INT32, None, CT["TIME_MILLIS"], None, None, None, [0, 1, 86399999, 3600000, 1000, 5],
                    lambda v: ("td", v * 10 ** 6), ("m", 8))
    c["time_us"] = (T_INT64, None, CT["TIME_MICROS"], None, None, None, [0, 1, 86399999999, 3600000000, 1000, 5],
                    lambda v: ("td", v * 10 ** 3), ("m", 8))
    c["ts_ms"] = (T_INT64, None, CT["TIMESTAMP_MILLIS"], None, None, None, TS_MS, lambda v: ("ts", v * 10 ** 6), ("M", 8))
    c["ts_us"] = (T_INT64, None, CT["TIMESTAMP_MICROS"], None, None, None, TS_US, lambda v: ("ts", v * 10 ** 3), ("M", 8))
    c["ts_ms_lt"] = (T_INT64, None, CT["TIMESTAMP_MILLIS"], _ts_lt("MILLIS", True), None, None, TS_MS,
                     lambda v: ("ts", v * 10 ** 6), ("M", 8))
    c["ts_us_lt"] = (T_INT64, None, CT["TIMESTAMP_MICROS"], _ts_lt("MICROS", False), None, None, TS_US,
                     lambda v: ("ts", v * 10 ** 3), ("M", 8))
    c["ts_ns_lt"] = (T_INT64, None, None, _ts_lt("NANOS", True), None, None, TS_NS, lambda v: ("ts", v), ("M", 8))
    c["int96"] = (T_INT96, None, None, None, None, None,
                  [int96(v) for v in (0, 1, 1600000000000000000, 86400 * 10 ** 9 - 1, 86400 * 10 ** 9, 10 ** 18)],
                  lambda b: ("ts", struct.unpack("<qi", b)[0] + (struct.unpack("<qi", b)[1] - 2440588) * 86400 * 10 ** 9),
                  ("M", 8))
    c["dec32"] = (T_INT32, None, CT["DECIMAL"], None, 2, 9, [0, 1, -1, 12345, -99999, 5],
                  lambda v: v / 100.0, ("f", 8))
    c["dec64"] = (T_INT64, None, CT["DECIMAL"], None, 3, 18, [0, 1, -1, 123456789, -5, 1000],
                  lambda v: v / 1000.0, ("f", 8))
    return c


QUICK_COMBOS = ["bool", "int32", "int64", "double", "double_nan", "utf8", "bytes", "uint8", "uint32", "uint64",
                "ts_us", "ts_ns_lt", "date", "flba4", "dec32", "int96"]
# BOOLEAN is never dictionary-encoded by the format (no dictionary encoding defined for it)
DICT_TYPES = ["int32", "int64", "float", "double", "utf8", "bytes", "flba4"]
NULLPATS = ["none", "first", "last", "alt", "all"]


def nullmask(pat, n):
    return [{"none": False, "first": i == 0, "last": i == n - 1, "alt": i % 2 == 1, "all": True}[pat] for i in range(n)]


# ----------------------------------------------------------------------------- points
def points(tier):
    pts = []
    widths = range(0, 33) if tier == "thorough" else QUICK_WIDTHS
    for t in DICT_TYPES:
        for w in widths:
            for v in (1, 2):
                for enc in ("PLAIN_DICTIONARY", "RLE_DICTIONARY"):
                    for cats in (0, 1):
                        if cats and t == "bool":
                            continue
                        pts.append({"d": "D1", "type": t, "width": w, "v": v, "enc": enc, "cats": cats, "tier": tier})
    # D7: dictionary pages x codec x page version / compressed flag (few widths)
    for t in DICT_TYPES:
        for w in ((1, 3, 8, 12) if tier == "thorough" else (3,)):
            for codec in ([1, 2, 6, 7, 4] if tier == "thorough" else [1, 6]):
                for pv in ("v1", "v2c", "v2u", "v2a"):
                    for cats in (0, 1):
                        pts.append({"d": "D1", "type": t, "width": w, "v": 1 if pv == "v1" else 2,
                                    "enc": "RLE_DICTIONARY", "cats": cats, "tier": tier, "codec": codec, "pv": pv})
    # D8: dictionaries that fill their index width (indices >= 128 at width 8, >= 32768 at width 16)
    for t in ("int64", "utf8"):
        for dsize, widths in ((129, (8,)), (200, (8, 16, 32)), (256, (8,)), (257, (9,)), (40000, (16,))):
            if dsize == 40000 and (tier != "thorough" and t != "int64"):
                continue
            for w in widths:
                for v in (1, 2):
                    for cats in (0, 1):
                        if cats and dsize > 256:
                            continue
                        pts.append({"d": "D8", "type": t, "dsize": dsize, "width": w, "v": v, "cats": cats})
    # D9: chunk statistics of a foreign writer (absent / null_count only / full / min-max without null_count) x
    # level run layouts on a 20-value column
    for t in (("int32", "int64", "double", "utf8", "uint32", "ts_us") if tier == "thorough" else ("int64", "double", "utf8")):
        for v in (1, 2):
            for st in ("none", "nc", "full", "minmax"):
                pts.append({"d": "D9", "type": t, "v": v, "stats": st})
    cb = list(combos()) if tier == "thorough" else QUICK_COMBOS
    codecs = [0, 1, 2, 6, 7, 4] if tier == "thorough" else [0, 1, 6]
    for t in cb:
        for codec in codecs:
            for pv in ("v1", "v2c", "v2u", "v2a"):
                pts.append({"d": "D2", "type": t, "codec": codec, "pv": pv, "tier": tier})
    for lv in (0, 1):
        ws = range(0, 65 if lv else 33) if tier == "thorough" else [w for w in (0, 1, 2, 7, 8, 9, 16, 24, 28, 29, 32, 33, 56, 57, 64) if w <= (64 if lv else 32)]
        for w in ws:
            for count in (1, 2, 31, 32, 33, 128, 129, 257):
                pts.append({"d": "D3", "longval": lv, "width": w, "count": count})
    for v in (1, 2):
        for codec in (0, 1):
            pts.append({"d": "D4", "v": v, "codec": codec})
    for t in DICT_TYPES:
        for v in (1, 2):
            pts.append({"d": "D5", "type": t, "v": v})
    for kind in ("DELTA_LENGTH_BYTE_ARRAY", "DELTA_BYTE_ARRAY", "BYTE_STREAM_SPLIT", "BIT_PACKED_LEVELS", "DELTA_NULLS"):
        for v in (1, 2):
            pts.append({"d": "D6", "kind": kind, "v": v})
    return pts


def points_native(tier):
    """D1 + D3 at quick size, used by C12 under the sanitised build"""
    return [p for p in points("quick") if p["d"] in ("D1", "D3", "D4")]


def explore(run, tier):
    run.lattice("foreign-files", points(tier), "run")


def crash_sig(point, res):
    s = {"d": point["d"], "symptom": res["outcome"]}
    for k in ("type", "width", "v", "enc", "longval", "count", "codec", "pv", "kind", "cats", "dsize", "stats"):
        if k in point:
            s[k] = point[k]
    return s


# ----------------------------------------------------------------------------- worker side
class Cell:
    def __init__(self, point):
        self.point = point
        self.files = 0
        self.values = 0
        self.sigs = {}
        self.detail = ""

    def bad(self, symptom, detail, **extra):
        s = {"d": self.point["d"], "symptom": symptom}
        s.update(getattr(self, "ctx", {}))
        for k in ("type", "width", "v", "enc", "longval", "count", "codec", "pv", "kind", "cats", "dsize", "stats"):
            if k in self.point:
                s[k] = self.point[k]
        s.update(extra)
        key = repr(sorted(s.items()))
        if key not in self.sigs:
            self.sigs[key] = s
            if not self.detail:
                self.detail = detail

    def result(self, outcome_ok="decoded"):
        ok = not self.sigs
        return {"ok": ok, "outcome": outcome_ok if ok else "wrong", "nontrivial": self.values > 0,
                "counts": {"files": self.files, "values": self.values},
                "sig": list(self.sigs.values()) or None, "detail": self.detail}


def _col(name, combo, rep):
    ptype, tl, ct, lt, scale, prec = combo[:6]
    return {"name": name, "ptype": ptype, "type_length": tl, "rep": rep, "ct": ct, "lt": lt,
            "scale": scale, "precision": prec}


def read_back(data, categories=None, via="bytes"):
    import io
    import fastparquet
    if via == "bytes":
        pf = fastparquet.ParquetFile(io.BytesIO(data))
    else:
        from mc.scratch import scratch
        import os
        path = os.path.join(scratch("c03"), "f.parquet")
        with open(path, "wb") as f:
            f.write(data)
        pf = fastparquet.ParquetFile(path)
    if categories:
        return pf.to_pandas(categories=categories)
    return pf.to_pandas()


def expected(combo, rows, name):
    exp_fn = combo[7]
    if name == "json":
        import json
        out = []
        for r in rows:
            if r is None:
                out.append(None)
            else:
                try:
                    out.append(json.loads(r))
                except ValueError:
                    out.append("unparseable")
        return out
    return [None if r is None else exp_fn(r) for r in rows]


def compare(c, df, colname, exp, combo, what, rel=1e-12, cat=False, has_null=False, selfcheck=None):
    from mc import oracles as O
    if list(df.columns) != [colname]:
        c.bad("wrong_columns", "%s: columns %r" % (what, list(df.columns)))
        return
    s = df[colname]
    got = O.series_to_list(s)
    if combo[0] == T_FLBA and combo[2] is None:
        # numpy fixed-width bytes drop trailing NULs per cell; the array keeps the width: pad back
        got = [g if g is None or not isinstance(g, bytes) else g.ljust(combo[1], b"\0") for g in got]
    c.values += len(exp)
    i = O.first_diff(got, exp, rel)
    if i is not None:
        if i == -1:
            c.bad("wrong_length", "%s: %d rows, file encodes %d" % (what, len(got), len(exp)))
        else:
            c.bad("wrong_value", "%s: row %d is %r, file encodes %r" % (what, i, got[i], exp[i]))
        return
    kind, size = combo[8]
    dk = O.dtype_kind(s.dtype)
    if cat:
        if dk[0] != "category":
            c.bad("wrong_dtype", "%s: asked for category, dtype %s" % (what, s.dtype))
        return
    if kind in ("i", "u", "b") and has_null:
        # nullable-extension-ness is C17's business: masked int / bool of the right width, float64 or object accepted
        if dk[3] and (dk[0], dk[1]) == (kind, size):
            return
        if dk[0] in ("f", "O"):
            return
        c.bad("wrong_dtype", "%s: dtype %s for %s%s with nulls" % (what, s.dtype, kind, size))
        return
    if kind == "O":
        if dk[0] != "O":
            c.bad("wrong_dtype", "%s: dtype %s, schema implies object" % (what, s.dtype))
    elif kind == "S":
        if dk[0] not in ("S", "O"):
            c.bad("wrong_dtype", "%s: dtype %s, schema implies bytes" % (what, s.dtype))
    elif kind in ("M", "m"):
        if dk[0] != kind:
            c.bad("wrong_dtype", "%s: dtype %s, schema implies %s8" % (what, s.dtype, kind))
    else:
        if (dk[0], dk[1]) != (kind, size) and not (dk[3] and (dk[0], dk[1]) == (kind, size)):
            c.bad("wrong_dtype", "%s: dtype %s, schema implies %s%d" % (what, s.dtype, kind, size * 8))


def _selfcheck(c, data, colname, rows, what):
    """specpq reads back what specpq wrote (binds the model to itself)"""
    from mc.specpq import file as F
    try:
        p = F.read_file(data)
        got = F.column_rows(p, colname)
    except Exception as e:
        raise AssertionError("specpq cannot read its own file (%s): %s" % (what, e))
    if p.errors:
        raise AssertionError("specpq validator rejects its own file (%s): %s" % (what, p.errors[:2]))
    if repr(got) != repr(list(rows)):
        raise AssertionError("specpq self round trip differs (%s)" % what)


def _try_read(c, data, what, categories=None, via="bytes"):
    try:
        return read_back(data, categories, via)
    except Exception as e:
        c.bad("read_raised", "%s: %s: %s" % (what, type(e).__name__, str(e)[:200]), exc=type(e).__name__)
        return None


def run(point):
    c = Cell(point)
    out = globals()["run_" + point["d"]](c, point)
    return out or c.result()


def run_D1(c, p):
    from mc.specpq import writer as W
    cb = combos()
    combo = cb[p["type"]]
    w, ver, enc = p["width"], p["v"], p["enc"]
    pool = combo[6]
    dsize = 1 if w == 0 else (2 if w == 1 else 4)
    dictionary = []
    for v in pool:
        if not any(repr(v) == repr(d) for d in dictionary):
            dictionary.append(v)
        if len(dictionary) == dsize:
            break
    dsize = len(dictionary)
    thorough = p.get("tier") == "thorough"
    ns = (1, 7, 8, 9, 17, 64, 65) if thorough else (1, 9, 65)
    first = True
    for n in ns:
        progs = ["rle", "bp", "auto"]
        if n >= 9:
            progs += [[("rle", 1), ("bp", n - 1)], [("bp", 8), ("rle", n - 8)]]
        if n >= 17:
            progs += [[("rle", 3), ("bp", 8), ("rle", n - 11)]]
        for rep, pat in [("required", "none")] + [("optional", q) for q in NULLPATS]:
            mask = nullmask(pat, n)
            for prog in progs:
                vals = []
                k = 0
                for i in range(n):
                    if mask[i]:
                        vals.append(None)
                    else:
                        # runs of equal values so that rle programs are legal
                        vals.append(dictionary[(k // 3) % dsize])
                        k += 1
                nn = sum(1 for v in vals if v is not None)
                if isinstance(prog, list):
                    # programs are defined over the non-null values
                    tot = sum(x[1] for x in prog)
                    if tot != nn:
                        continue
                    # make rle segments legal: force equal values inside them
                    flat = [v for v in vals if v is not None]
                    pos = 0
                    for kind, ln in prog:
                        if kind == "rle":
                            for j in range(pos, pos + ln):
                                flat[j] = flat[pos]
                        pos += ln
                    it = iter(flat)
                    vals = [None if v is None else next(it) for v in vals]
                col = _col("c", combo, rep)
                flag = {"v1": None, "v2c": True, "v2u": False, "v2a": None}[p.get("pv", "v1")]
                chunk = {"rows": vals, "dictionary": dictionary, "codec": p.get("codec", 0),
                         "pages": [{"n": n, "enc": enc, "v": ver, "idx_width": w, "idx_prog": prog,
                                    "compressed": flag}]}
                try:
                    data = W.write_file({"created_by": CREATED_BY, "columns": [col], "row_groups": [{"c": chunk}]})
                except ValueError:
                    continue
                what = "D1 n=%d %s nulls=%s prog=%s" % (n, rep, pat, prog)
                c.ctx = {"nulls": pat if rep == "optional" else "required"}
                if first or thorough:
                    _selfcheck(c, data, "c", vals, what)
                    first = False
                exp = expected(combo, vals, p["type"])
                for cats in ((["c"],) if p["cats"] else (None,)):
                    df = _try_read(c, data, what + (" categories" if cats else ""), cats)
                    c.files += 1
                    if df is None:
                        continue
                    compare(c, df, "c", exp, combo, what + (" categories" if cats else ""), cat=bool(cats),
                            has_null=any(mask))


def run_D8(c, p):
    from mc.specpq import writer as W
    cb = combos()
    combo = cb[p["type"]]
    dsize, w, ver = p["dsize"], p["width"], p["v"]
    if p["type"] == "int64":
        dictionary = [1000 * i + 7 for i in range(dsize)]
    else:
        dictionary = [("v%05d" % i).encode() for i in range(dsize)]
    order = [(i * 7919 + 3) % dsize for i in range(dsize)]       # every index once, not in order
    for rep, pat in (("required", "none"), ("optional", "alt")):
        n = dsize
        mask = nullmask(pat, n)
        vals = [None if mask[i] else dictionary[order[i]] for i in range(n)]
        for prog in ("bp", "auto", "rle"):
            col = _col("c", combo, rep)
            chunk = {"rows": vals, "dictionary": dictionary, "codec": 0,
                     "pages": [{"n": n, "enc": "RLE_DICTIONARY", "v": ver, "idx_width": w, "idx_prog": prog}]}
            data = W.write_file({"created_by": CREATED_BY, "columns": [col], "row_groups": [{"c": chunk}]})
            what = "D8 dict=%d width=%d %s nulls=%s prog=%s" % (dsize, w, rep, pat, prog)
            c.ctx = {"nulls": pat if rep == "optional" else "required", "prog": prog}
            if prog == "bp" and rep == "required":
                _selfcheck(c, data, "c", vals, what)
            exp = expected(combo, vals, p["type"])
            df = _try_read(c, data, what, ["c"] if p["cats"] else None)
            c.files += 1
            if df is None:
                continue
            compare(c, df, "c", exp, combo, what, cat=bool(p["cats"]), has_null=any(mask))


def _level_program(name, levels):
    """a named run layout for one page's definition levels (always a legal program for these levels)"""
    k = len(levels)
    if name in ("auto", "rle", "bp"):
        return name
    if name == "rle1+bp":
        return [("rle", 1), ("bp", k - 1)] if k >= 2 else "rle"
    if name == "bp8+rest":
        if k <= 8:
            return "bp"
        rest = levels[8:]
        return [("bp", 8), ("rle" if all(x == rest[0] for x in rest) else "bp", k - 8)]
    if name == "rle+rle":
        j = 1
        while j < k and levels[j] == levels[0]:
            j += 1
        if j < 2:
            return "rle"
        prog = [("rle", j // 2), ("rle", j - j // 2)]
        i = j
        while i < k:
            e = i
            while e < k and levels[e] == levels[i]:
                e += 1
            prog.append(("rle", e - i))
            i = e
        return prog
    raise KeyError(name)


def run_D9(c, p):
    from mc.specpq import writer as W, codecs as C
    combo = combos()[p["type"]]
    ver, st = p["v"], p["stats"]
    pool = combo[6]
    n = 20
    first = True
    for rep, pat in (("required", "none"), ("optional", "none"), ("optional", "first"), ("optional", "alt"),
                     ("optional", "last")):
        mask = nullmask(pat, n)
        vals = [None if mask[i] else pool[(i * 5 + i // 6) % len(pool)] for i in range(n)]
        exp = expected(combo, vals, p["type"])
        present = [v for v in vals if v is not None]
        stats = None
        if st != "none":
            stats = {}
            if st in ("nc", "full"):
                stats["null_count"] = sum(mask)
            if st in ("full", "minmax") and present and p["type"] not in ("double_nan",):
                if combo[0] == T_BYTE_ARRAY:
                    lo, hi = min(present), max(present)
                else:
                    key = (lambda v: v % 2 ** 32) if p["type"] == "uint32" else (lambda v: v)
                    lo = C.plain_encode([min(present, key=key)], combo[0], combo[1])
                    hi = C.plain_encode([max(present, key=key)], combo[0], combo[1])
                stats.update({"min_value": lo, "max_value": hi})
                if st == "full":
                    stats.update({"min": lo, "max": hi})
        for split in ([n], [8, 12], [1, 19], [16, 4]):
            for prog in (("auto", "rle", "bp", "rle1+bp", "bp8+rest", "rle+rle") if rep == "optional" else ("auto",)):
                pages = []
                e0 = 0
                for k in split:
                    lv = [0 if m else 1 for m in mask[e0:e0 + k]]
                    pages.append({"n": k, "enc": "PLAIN", "v": ver, "def_prog": _level_program(prog, lv)})
                    e0 += k
                chunk = {"rows": vals, "codec": 0, "pages": pages}
                if stats is not None:
                    chunk["stats"] = stats
                col = _col("c", combo, rep)
                data = W.write_file({"created_by": CREATED_BY, "columns": [col], "row_groups": [{"c": chunk}]})
                what = "D9 %s nulls=%s stats=%s split=%s levels=%s v%d" % (rep, pat, st, split, prog, ver)
                c.ctx = {"nulls": pat if rep == "optional" else "required", "levels": prog, "pages": len(split)}
                if first:
                    _selfcheck(c, data, "c", vals, what)
                    first = False
                df = _try_read(c, data, what)
                c.files += 1
                if df is None:
                    continue
                compare(c, df, "c", exp, combo, what, has_null=any(mask))


def _splits(n, maxpages=3):
    out = [[n]]
    if n >= 2:
        for a in range(1, n):
            out.append([a, n - a])
    if n >= 3 and maxpages >= 3:
        for a in range(1, n - 1):
            for b in range(a + 1, n):
                out.append([a, b - a, n - b])
    return out


def run_D2(c, p):
    from mc.specpq import writer as W
    cb = combos()
    combo = cb[p["type"]]
    codec, pv = p["codec"], p["pv"]
    ver = 1 if pv == "v1" else 2
    flag = {"v1": None, "v2c": True, "v2u": False, "v2a": None}[pv]
    pool = combo[6]
    thorough = p.get("tier") == "thorough"
    n = 6
    first = True
    for rep, pat in [("required", "none")] + [("optional", q) for q in NULLPATS]:
        mask = nullmask(pat, n)
        vals = [None if mask[i] else pool[i % len(pool)] for i in range(n)]
        exp = expected(combo, vals, p["type"])
        for split in _splits(n):
            for defprog in (("auto", "rle", "bp") if rep == "optional" else ("auto",)):
                for nrg in (1, 2):
                    if nrg == 2 and (len(split) != 2 or defprog != "auto"):
                        continue
                    col = _col("c", combo, rep)
                    if nrg == 1:
                        pages = [{"n": k, "enc": "PLAIN", "v": ver, "def_prog": defprog, "compressed": flag} for k in split]
                        rgs = [{"c": {"rows": vals, "codec": codec, "pages": pages}}]
                    else:
                        a = split[0]
                        rgs = [{"c": {"rows": vals[:a], "codec": codec,
                                      "pages": [{"n": a, "enc": "PLAIN", "v": ver, "compressed": flag}]}},
                               {"c": {"rows": vals[a:], "codec": codec,
                                      "pages": [{"n": n - a, "enc": "PLAIN", "v": ver, "compressed": flag}]}}]
                    data = W.write_file({"created_by": CREATED_BY, "columns": [col], "row_groups": rgs})
                    what = "D2 %s nulls=%s split=%s def=%s rgs=%d" % (rep, pat, split, defprog, nrg)
                    c.ctx = {"nulls": pat if rep == "optional" else "required", "pages": len(split) if nrg == 1 else 1,
                             "rgs": nrg}
                    if first or thorough:
                        _selfcheck(c, data, "c", vals, what)
                        first = False
                    df = _try_read(c, data, what, via="path" if (split == [n] and defprog == "auto") else "bytes")
                    c.files += 1
                    if df is None:
                        continue
                    compare(c, df, "c", exp, combo, what, has_null=any(mask))


def run_D3(c, p):
    from mc.specpq import writer as W
    from mc.props.C11 import _delta_values
    lv, w, count = p["longval"], p["width"], p["count"]
    combo = combos()["int64" if lv else "int32"]
    for shape in (0, 1):
        vals = _delta_values(w, count, lv, shape)
        for ver in (1, 2):
            for block, mini in ((128, 4), (256, 8)):
                col = _col("c", combo, "required")
                chunk = {"rows": vals, "codec": 0,
                         "pages": [{"n": count, "enc": "DELTA_BINARY_PACKED", "v": ver,
                                    "delta": {"block": block, "mini": mini, "force": w if count > 2 else None}}]}
                data = W.write_file({"created_by": CREATED_BY, "columns": [col], "row_groups": [{"c": chunk}]})
                what = "D3 count=%d shape=%d v%d block=%d/%d" % (count, shape, ver, block, mini)
                if shape == 0 and ver == 1 and block == 128:
                    _selfcheck(c, data, "c", vals, what)
                df = _try_read(c, data, what)
                c.files += 1
                if df is None:
                    continue
                compare(c, df, "c", list(vals), combo, what)


def run_D4(c, p):
    from mc.specpq import writer as W
    combo = combos()["bool"]
    ver, codec = p["v"], p["codec"]
    for n in (1, 7, 8, 9, 64, 65):
        for rep, pat in [("required", "none")] + [("optional", q) for q in NULLPATS]:
            mask = nullmask(pat, n)
            for prog in ("rle", "bp", "auto"):
                vals = [None if mask[i] else bool((i // 3) % 2) for i in range(n)]
                col = _col("c", combo, rep)
                chunk = {"rows": vals, "codec": codec, "pages": [{"n": n, "enc": "RLE", "v": ver, "idx_prog": prog}]}
                data = W.write_file({"created_by": CREATED_BY, "columns": [col], "row_groups": [{"c": chunk}]})
                what = "D4 n=%d %s nulls=%s prog=%s" % (n, rep, pat, prog)
                _selfcheck(c, data, "c", vals, what)
                df = _try_read(c, data, what)
                c.files += 1
                if df is None:
                    continue
                compare(c, df, "c", vals, combo, what, has_null=any(mask))


def run_D5(c, p):
    """dictionary pages followed by PLAIN pages in one chunk"""
    from mc.specpq import writer as W
    cb = combos()
    combo = cb[p["type"]]
    ver = p["v"]
    pool = combo[6]
    dictionary = []
    for v in pool[:3]:
        if not any(repr(v) == repr(d) for d in dictionary):
            dictionary.append(v)
    n = 8
    for rep, pat in [("required", "none"), ("optional", "alt"), ("optional", "first")]:
        mask = nullmask(pat, n)
        for a in (1, 3, 4, 7):
            vals = []
            for i in range(n):
                if mask[i]:
                    vals.append(None)
                elif i < a:
                    vals.append(dictionary[i % len(dictionary)])
                else:
                    vals.append(pool[i % len(pool)])
            col = _col("c", combo, rep)
            chunk = {"rows": vals, "codec": 0, "dictionary": dictionary,
                     "pages": [{"n": a, "enc": "RLE_DICTIONARY", "v": ver}, {"n": n - a, "enc": "PLAIN", "v": ver}]}
            data = W.write_file({"created_by": CREATED_BY, "columns": [col], "row_groups": [{"c": chunk}]})
            what = "D5 %s nulls=%s dict_rows=%d" % (rep, pat, a)
            _selfcheck(c, data, "c", vals, what)
            df = _try_read(c, data, what)
            c.files += 1
            if df is None:
                continue
            compare(c, df, "c", expected(combo, vals, p["type"]), combo, what, has_null=any(mask))


def run_D6(c, p):
    """layouts outside the supported set: must raise, never return values"""
    from mc.specpq import writer as W
    cb = combos()
    kind, ver = p["kind"], p["v"]
    n = 5
    if kind in ("DELTA_LENGTH_BYTE_ARRAY", "DELTA_BYTE_ARRAY"):
        combo = cb["utf8"]
        page = {"n": n, "enc": W.ENC[kind], "v": ver}
        rep, vals = "required", [b"aa", b"ab", b"b", b"", b"abc"]
    elif kind == "BYTE_STREAM_SPLIT":
        combo = cb["double"]
        page = {"n": n, "enc": W.ENC[kind], "v": ver}
        rep, vals = "required", [1.0, 2.0, 3.0, 4.0, 5.0]
    elif kind == "BIT_PACKED_LEVELS":
        if ver == 2:
            return {"ok": True, "outcome": "not_expressible", "nontrivial": False}
        combo = cb["int32"]
        page = {"n": n, "enc": "PLAIN", "v": 1, "def_enc": 4}
        rep, vals = "optional", [1, None, 3, None, 5]
    else:  # DELTA_NULLS: delta-encoded column with nulls
        combo = cb["int64"]
        page = {"n": n, "enc": "DELTA_BINARY_PACKED", "v": ver}
        rep, vals = "optional", [1, None, 3, 4, None]
    col = _col("c", combo, rep)
    data = W.write_file({"created_by": CREATED_BY, "columns": [col],
                         "row_groups": [{"c": {"rows": vals, "codec": 0, "pages": [page]}}]})
    c.files += 1
    try:
        df = read_back(data)
    except Exception as e:
        c.values += 1
        return {"ok": True, "outcome": "refused", "nontrivial": True, "counts": {"files": 1},
                "detail": "%s: %s" % (type(e).__name__, str(e)[:100])}
    if kind == "DELTA_NULLS":
        # delta with nulls is a valid layout; decoding it correctly is fine, too
        from mc import oracles as O
        got = O.series_to_list(df["c"])
        if O.first_diff(got, vals) is None:
            return {"ok": True, "outcome": "decoded", "nontrivial": True, "counts": {"files": 1}}
    c.bad("decoded_unsupported", "%s v%d was not refused; returned %r" % (kind, ver, df["c"].tolist()[:5]))
    return c.result()


LEVEL_TEXT = ("Bounded-exhaustive lattice of foreign layouts emitted by an independent spec-level writer (dictionary "
              "index widths 0..32 with every run mixture, all page splits of a short column, level run programs, "
              "delta miniblock widths 0..64, codecs, v1/v2 with every compressed-flag state, dictionary fallback, "
              "unsupported encodings) decoded by the real reader and compared cell by cell with the values the "
              "layout program encodes.")
LEVEL_NOTE = ("Trusted: specpq writer (each cell's files are re-read by the specpq validator), cramjam. Flat columns "
              "only (nested is C15); nullable-extension-ness not judged (C17).")
TECHNIQUE = "bounded exhaustive enumeration of spec-encoder layout programs, decoded by the real reader"
