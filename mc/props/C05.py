"""C05 - filtered reads never lose a qualifying row (row-group pruning is sound).

Layer A: the interval logic (filter_val / filter_in / filter_not_in) as a finite
model, exhaustive over an order-isomorphic domain.  Layer B: end to end on real
datasets, four observation points.
"""
import itertools

ID = "C05"
LEVEL = "model_checking"
FLAVOUR = "plain"
TIMEOUT = 600
RULE = ("Layer A: for every operator, every (vmin, vmax) in (D u {None})^2 with vmin <= vmax over D = {0..4} (ints, "
        "floats, one-letter strings), every constant in D and every list of <= 3 elements of D in every order: if the"
        " real function answers 'exclude' then no value set with that min and max contains a satisfying element "
        "(states = (op, bounds, constant) triples, transitions = calls of the real function). Layer B: cell = "
        "(filter-column kind x statistics mode); kinds int64, str, float64, Int64 x modes all / none / rg0 "
        "(statistics on the first row group only); foreign statistics layouts newstyle (only min_value / max_value "
        "set, as other writers do) and halfopen (even row groups keep only max, odd ones only min) for int64; kinds "
        "str_fixed (text stored with fixed_text, width above the length of the values), dt_tz (zone-aware column and constants), dt_int96 (times='int96'), cat_ord (ordered categorical whose "
        "category order is the reverse of the label order) and cat (unordered, categories in label order) with mode all; thorough: dt and cat under all "
        "three basic modes, both foreign layouts for every basic kind, the converted kinds also under rg0, int64 with"
        " statistics on some columns only (xonly: x; yonly: y). The int64 frames of the modes all / xonly / yonly are"
        " wide: they also hold y = 4 - x (int64, y = 2 where x is NULL) and a never-filtered all-NULL column z. "
        "Inside a cell: every dataset of 2 (quick) / 3 (thorough) row groups over 8 row-group contents x every filter"
        " program (single conditions over 7 ops x 5 constants, in / not in lists, in / not in over a tuple / set / "
        "frozenset / ndarray, AND pairs, OR of AND groups, flat vs nested; int columns against 2.5 and numpy scalars "
        "for every operator family, float columns against ints; wide frames: conditions on y alone and x-with-y AND /"
        " OR programs in both orders). Layer P: partition-key kind (int {1,2}, str {a,b}, int3 {2,10,-1}) x hive / "
        "drill, str2 {aa,b}, bool and date keys (hive; thorough also drill), hive without pandas metadata (int3, "
        "str2; thorough also int), two-level p x q layouts (hive, drill; thorough also hive without metadata): every "
        "operator x every key value and values outside (for integer keys also fractional constants between two keys), in / not in over [v], [v0,v1], [v0,outside], (v0,), {v1}, [],"
        " mixed with conditions on a data column and OR groups. Observed through to_pandas, iter_row_groups, count, "
        "filter_row_groups (row-group list and as_idx); non-trivial = a filter evaluation on a dataset with >= 1 "
        "qualifying row")
ASSUMPTIONS = ["rows whose filter value is NULL/NaN are don't-care for != and not in, must-not-match otherwise",
               "an exception is an acceptable answer only for a constant of a non-comparable type",
               "categorical columns (ordered or not) are filtered by the order of their labels, the order the writer "
               "uses for their bounds",
               "a zone-aware constant denotes an instant: it is comparable with a zone-aware column whatever its zone"]

OPS = ["==", "=", "!=", "<", "<=", ">", ">=", "in", "not in"]
RG_CONTENTS = [(1,), (2,), (3,), (1, 2), (1, 3), (2, 3), (None,), (2, None)]
D = [0, 1, 2, 3, 4]


def points(tier):
    pts = [{"layer": "A", "dom": dom} for dom in ("int", "float", "str")]
    thorough = tier == "thorough"
    kinds = ["int64", "str", "float64", "dt", "Int64", "cat"] if thorough else ["int64", "str", "float64", "Int64"]
    cells = [(kind, stats) for kind in kinds for stats in ("all", "none", "rg0")]
    # statistics as other writers lay them out
    if thorough:
        cells += [(kind, stats) for kind in kinds for stats in ("newstyle", "halfopen")]
    else:
        cells += [("int64", "newstyle"), ("int64", "halfopen")]
    # statistics on some columns only (the wide int64 frame: bounds on x, none on y and z; and the reverse)
    if thorough:
        cells += [("int64", "xonly"), ("int64", "yonly")]
    # kinds whose bounds go through a conversion (zone, int96, category labels)
    for kind in ("dt_tz", "dt_int96", "cat_ord"):
        cells += [(kind, stats) for stats in (("all", "rg0") if thorough else ("all",))]
    cells.append(("str_fixed", "all"))
    if not thorough:
        # categories in label order (what pd.Categorical(values) gives): the writer may take another route to the
        # bounds than for cat_ord
        cells.append(("cat", "all"))
    for kind, stats in cells:
        for first in range(len(RG_CONTENTS)):
            pts.append({"layer": "B", "kind": kind, "stats": stats, "nrg": 3 if thorough else 2, "first": first})
    for pk in ("int", "str"):
        for scheme in ("hive", "drill"):
            pts.append({"layer": "P", "pkind": pk, "scheme": scheme})
    for pk in ("int3", "str2", "bool", "date"):
        for scheme in (("hive", "drill") if thorough or pk == "int3" else ("hive",)):
            pts.append({"layer": "P", "pkind": pk, "scheme": scheme})
    for pk in (("int", "int3", "str2") if thorough else ("int3", "str2")):
        pts.append({"layer": "P", "pkind": pk, "scheme": "hive", "meta": "none"})
    for scheme, meta in (("hive", "pandas"), ("drill", "pandas"), ("hive", "none"))[:3 if thorough else 2]:
        pts.append({"layer": "P", "pkind": "int", "scheme": scheme, "levels": 2, "meta": meta})
    return pts


def explore(run, tier):
    run.lattice("pruning", points(tier), "run")
    run.extra["states"] = run.counts.get("model_states", 0) + run.counts.get("datasets", 0)
    run.extra["transitions"] = run.counts.get("model_calls", 0) + run.counts.get("filter_evals", 0)
    run.extra["traces_validated_against_impl"] = run.extra["transitions"]


def crash_sig(point, res):
    return {"layer": point["layer"], "symptom": res["outcome"]}


# ------------------------------------------------------------------------------------
def satisfies(op, x, c):
    if op in ("==", "="):
        return x == c
    if op == "!=":
        return x != c
    if op == "<":
        return x < c
    if op == "<=":
        return x <= c
    if op == ">":
        return x > c
    if op == ">=":
        return x >= c
    if op == "in":
        return x in c
    if op == "not in":
        return x not in c
    raise KeyError(op)


def run(p):
    return globals()["run_" + p["layer"]](p)


def run_A(p):
    from fastparquet import api
    conv = {"int": lambda v: v, "float": lambda v: float(v) + 0.5, "str": lambda v: "abcde"[v]}[p["dom"]]
    dom = [conv(v) for v in D]
    sigs = {}
    detail = [""]
    states = calls = excluded = 0
    lists = [[]]
    for k in (1, 2, 3):
        for combo in itertools.permutations(dom, k):
            lists.append(list(combo))
    for op in OPS:
        consts = lists if op in ("in", "not in") else dom
        for vmin in [None] + dom:
            for vmax in [None] + dom:
                if vmin is not None and vmax is not None and vmin > vmax:
                    continue
                for c in consts:
                    states += 1
                    try:
                        ans = api.filter_val(op, c, vmin, vmax)
                    except Exception as e:
                        calls += 1
                        s = {"layer": "A", "op": op, "symptom": "model_raised", "exc": type(e).__name__}
                        sigs.setdefault(repr(s), s)
                        continue
                    calls += 1
                    if not ans:
                        continue
                    excluded += 1
                    # possible values of a chunk consistent with these bounds
                    lo = vmin if vmin is not None else None
                    hi = vmax if vmax is not None else None
                    possible = [x for x in dom if (lo is None or x >= lo) and (hi is None or x <= hi)]
                    witness = [x for x in possible if satisfies(op, x, c)]
                    # a set with this min and max must contain lo and hi; any other possible value may be present
                    if witness:
                        s = {"layer": "A", "op": op, "symptom": "unsound_exclusion",
                             "case": _case(op, c, vmin, vmax)}
                        if repr(s) not in sigs:
                            sigs[repr(s)] = s
                            if not detail[0]:
                                detail[0] = ("filter_val(%r, %r, vmin=%r, vmax=%r) excludes, but a chunk with these "
                                             "bounds can hold %r which satisfies the predicate" % (op, c, vmin, vmax, witness[0]))
    ok = not sigs
    return {"ok": ok, "outcome": "sound" if ok else "unsound", "nontrivial": excluded > 0,
            "counts": {"model_states": states, "model_calls": calls, "model_exclusions": excluded},
            "sig": list(sigs.values()) or None, "detail": detail[0]}


def _case(op, c, vmin, vmax):
    if op in ("in", "not in"):
        if vmin is not None and vmin == vmax:
            return "min==max"
        inmin = vmin is not None and vmin in c
        inmax = vmax is not None and vmax in c
        return "bound_in_list" if (inmin or inmax) else "bounds_not_in_list"
    if vmin is None or vmax is None:
        return "open_bound"
    return "min==max" if vmin == vmax else "range"


KINDMAP = {
    "int64": lambda v: v, "Int64": lambda v: v, "float64": lambda v: float(v),
    "str": lambda v: "abcde"[v], "cat": lambda v: "abcde"[v], "cat_ord": lambda v: "abcde"[v],
}
INT_KINDS = ("int64", "Int64")
DT_KINDS = ("dt", "dt_tz", "dt_int96")
TZ = "Europe/Paris"


def is_wide(kind, stats_mode):
    """cells whose frames also hold the columns y and z"""
    return kind == "int64" and stats_mode in ("all", "xonly", "yonly")


def kval(kind, v):
    import pandas as pd
    if kind in ("dt", "dt_int96"):
        return pd.Timestamp("2020-01-0%d" % (v + 1))
    if kind == "dt_tz":
        return pd.Timestamp("2020-01-0%d" % (v + 1), tz=TZ)
    return KINDMAP[kind](v)


def yval(v):
    """the mirror column: y = 4 - x, 2 where x is NULL (never NULL itself)"""
    return 2 if v is None else 4 - v


def make_frame(kind, contents, wide=False):
    import pandas as pd
    import numpy as np
    vals, rid, offs, ys = [], [], [], []
    for gi, cont in enumerate(contents):
        offs.append(len(vals))
        for j, v in enumerate(cont):
            vals.append(None if v is None else kval(kind, v))
            ys.append(yval(v))
            rid.append(gi * 10 + j)
    if kind == "int64":
        raise_null = any(v is None for v in vals)
        if raise_null:
            return None, None
        s = pd.Series(vals, dtype="int64")
    elif kind == "Int64":
        s = pd.Series([pd.NA if v is None else v for v in vals], dtype="Int64")
    elif kind == "float64":
        s = pd.Series([np.nan if v is None else v for v in vals], dtype="float64")
    elif kind == "str":
        s = pd.Series(vals, dtype=object)
    elif kind in ("dt", "dt_int96"):
        s = pd.Series(pd.to_datetime(vals))
    elif kind == "dt_tz":
        s = pd.Series(pd.DatetimeIndex(pd.to_datetime([None if v is None else v.tz_convert("UTC") for v in vals],
                                                      utc=True)).tz_convert(TZ))
    elif kind == "cat":
        # categories in label order, as pd.Categorical(values) / astype('category') declare them (cat_ord: reversed)
        s = pd.Series(pd.Categorical(vals, categories=["a", "b", "c", "d", "e"]))
    elif kind == "cat_ord":
        s = pd.Series(pd.Categorical(vals, categories=["e", "d", "c", "b", "a"], ordered=True))
    if not wide:
        return pd.DataFrame({"x": s, "rid": rid}), offs
    # y mirrors x (conditions on two data columns), z is never filtered and holds no value at all
    return pd.DataFrame({"x": s, "rid": rid, "y": pd.Series(ys, dtype="int64"),
                         "z": pd.Series([np.nan] * len(rid), dtype="float64")}), offs


def filter_programs(kind, quick, wide=False):
    c = lambda v: kval(kind, v)
    progs = []
    for op in ("==", "=", "!=", "<", "<=", ">", ">="):
        for v in D:
            progs.append(("flat", [("x", op, c(v))]))
    for lst in ([], [2], [1, 3], [0, 4], [2, 3], [3, 1]):
        progs.append(("flat", [("x", "in", [c(v) for v in lst])]))
        progs.append(("flat", [("x", "not in", [c(v) for v in lst])]))
    for (o1, v1), (o2, v2) in [((">", 1), ("<", 3)), ((">=", 2), ("<=", 2)), ((">", 2), ("<", 2)), (("!=", 2), (">=", 1)),
                               ((">=", 3), ("in", [1, 3])), (("<", 2), ("not in", [1]))]:
        k2 = [c(v) for v in v2] if isinstance(v2, list) else c(v2)
        progs.append(("flat", [("x", o1, c(v1)), ("x", o2, k2)]))
        progs.append(("nested", [[("x", o1, c(v1)), ("x", o2, k2)]]))
    for g1, g2 in [([("x", "<", c(2))], [("x", ">", c(2))]), ([("x", "==", c(1))], [("x", "==", c(3))]),
                   ([("x", ">", c(3))], [("x", "<=", c(1)), ("x", ">=", c(1))]),
                   ([("x", "in", [c(0)])], [("x", "not in", [c(2), c(3)])])]:
        progs.append(("nested", [g1, g2]))
        progs.append(("nested", [g2, g1]))
    if kind in INT_KINDS:
        progs.append(("flat", [("x", "<", 2.5)]))
        progs.append(("flat", [("x", ">=", 2.0)]))
    progs.extend(extra_programs(kind, wide))
    return progs


def extra_programs(kind, wide=False):
    """third-wave additions: list operands that are not lists, constants of another comparable type, a second
    data column"""
    import numpy as np
    c = lambda v: kval(kind, v)
    progs = []
    progs.append(("flat", [("x", "in", (c(1), c(3)))]))
    progs.append(("flat", [("x", "in", {c(2)})]))
    progs.append(("flat", [("x", "in", frozenset([c(3), c(0)]))]))
    progs.append(("flat", [("x", "not in", {c(0), c(4)})]))
    if kind not in DT_KINDS:
        progs.append(("flat", [("x", "in", np.array([c(1), c(3)]))]))
    # constants of a different but comparable type, every operator family
    if kind in INT_KINDS:
        for op in ("==", "!=", "<=", ">"):
            progs.append(("flat", [("x", op, 2.5)]))
        progs.append(("flat", [("x", "in", [2.5, 3])]))
        progs.append(("flat", [("x", "not in", [2.5])]))
        progs.append(("flat", [("x", ">=", np.int64(2))]))
        progs.append(("flat", [("x", "<", np.float64(2.5))]))
    if kind == "float64":
        for op, v in (("<", 2), (">=", 3), ("!=", 2), (">", np.int64(2))):
            progs.append(("flat", [("x", op, v)]))
        progs.append(("flat", [("x", "in", [1, 3])]))
    if not wide:
        return progs
    # a second data column: alone, AND with x, OR with x, both orders
    progs.append(("flat", [("y", ">", 2)]))
    progs.append(("flat", [("y", "in", [1, 3])]))
    progs.append(("flat", [("y", "==", 2)]))
    for pair in ([("x", ">=", c(2)), ("y", ">=", 2)], [("y", "<", 2), ("x", "<=", c(3))],
                 [("x", "==", c(1)), ("y", "==", 3)], [("x", "<", c(2)), ("y", "<", 3)]):
        progs.append(("flat", pair))
        progs.append(("flat", pair[::-1]))
    for g1, g2 in [([("x", "<", c(2))], [("y", "<", 2)]),
                   ([("y", "==", 3)], [("x", "==", c(3)), ("y", "==", 1)]),
                   ([("x", "in", [c(1)]), ("y", ">", 3)], [("y", "in", [1, 2]), ("x", ">", c(1))])]:
        progs.append(("nested", [g1, g2]))
        progs.append(("nested", [g2, g1]))
    return progs


def row_matches(groups, row, null_cols=("x",)):
    """(must_match, dont_care) for a row dict under an OR-of-ANDs"""
    dont_care = False
    any_true = False
    for g in groups:
        allt = True
        dc = False
        for (col, op, val) in g:
            x = row[col]
            if x is None:
                if op in ("!=", "not in"):
                    dc = True
                else:
                    allt = False
                continue
            try:
                if not satisfies(op, x, val):
                    allt = False
            except TypeError:
                allt = False
        if allt and not dc:
            any_true = True
        elif allt and dc:
            dont_care = True
    return any_true, dont_care


def observe(pf, filt, sigs_add, what, rows_by_rg, rid_rg):
    """four observation points; returns (kept rg ids) or None"""
    import fastparquet
    from fastparquet import api
    from mc import oracles as O
    try:
        df = pf.to_pandas(filters=filt)
    except Exception as e:
        sigs_add("filter_raised", "%s: to_pandas raised %s: %s" % (what, type(e).__name__, str(e)[:120]), exc=type(e).__name__)
        return None
    got = O.series_to_list(df["rid"])
    kept = []
    for r in got:
        g = rid_rg[r]
        if g not in kept:
            kept.append(g)
    want_rows = [r for g in sorted(kept) for r in rows_by_rg[g]]
    if got != want_rows:
        sigs_add("not_whole_groups", "%s: result rids %r are not the in-order concatenation of whole row groups %r" % (what, got, kept))
    try:
        it = [r for part in pf.iter_row_groups(filters=filt) for r in O.series_to_list(part["rid"])]
        if it != got:
            sigs_add("observations_disagree", "%s: iter_row_groups gives %r, to_pandas %r" % (what, it, got), via="iter")
        cnt = pf.count(filters=filt)
        if cnt != len(got):
            sigs_add("observations_disagree", "%s: count()=%d, to_pandas %d rows" % (what, cnt, len(got)), via="count")
    except Exception as e:
        sigs_add("filter_raised", "%s: iter/count raised %s: %s" % (what, type(e).__name__, str(e)[:100]), exc=type(e).__name__, via="iter")
    # the selection itself, in both of its forms (two copies of the same decision in the library)
    try:
        idx = list(api.filter_row_groups(pf, filt, as_idx=True))
        all_rgs = list(pf.row_groups)
        pos = [all_rgs.index(rg) for rg in api.filter_row_groups(pf, filt)]
        # every row group of these datasets holds >= 1 row, so the kept ones are exactly those seen in the result
        if idx != sorted(kept):
            sigs_add("observations_disagree", "%s: filter_row_groups(as_idx=True) gives %r, to_pandas holds the row "
                     "groups %r" % (what, idx, sorted(kept)), via="as_idx")
        if pos != sorted(kept):
            sigs_add("observations_disagree", "%s: filter_row_groups() gives the row groups %r, to_pandas holds %r"
                     % (what, pos, sorted(kept)), via="rg_list")
    except Exception as e:
        sigs_add("filter_raised", "%s: filter_row_groups raised %s: %s" % (what, type(e).__name__, str(e)[:100]),
                 exc=type(e).__name__, via="as_idx")
    return got


def run_B(p):
    import os
    import fastparquet
    from mc.scratch import scratch
    from mc import oracles as O
    kind, stats_mode, nrg = p["kind"], p["stats"], p["nrg"]
    label = kind
    if kind == "str_fixed":
        # the text column stored with a fixed width (non-default fixed_text=): bounds shorter than the width
        kind = "str"
    sigs = {}
    detail = [""]
    evals = nontriv = datasets = 0
    ctx = {}

    def add(symptom, msg, **extra):
        s = {"layer": "B", "kind": label, "stats": stats_mode, "symptom": symptom}
        s.update(ctx)
        s.update(extra)
        k = repr(sorted(s.items(), key=str))
        if k not in sigs:
            sigs[k] = s
            if not detail[0]:
                detail[0] = msg

    wide = is_wide(kind, stats_mode)
    progs = filter_programs(kind, nrg == 2, wide)
    d = scratch()
    for contents in itertools.product(RG_CONTENTS, repeat=nrg):
        if contents[0] != RG_CONTENTS[p["first"]]:
            continue
        df, offs = make_frame(kind, contents, wide)
        if df is None:
            continue
        path = os.path.join(d, "t.parquet")
        st = {"none": False, "xonly": ["x"], "yonly": ["y"]}.get(stats_mode, True)
        kw = {"times": "int96"} if kind == "dt_int96" else {}
        if label == "str_fixed":
            kw = {"fixed_text": {"x": 3}}
        fastparquet.write(path, df, row_group_offsets=offs, stats=st, write_index=False, **kw)
        if stats_mode == "rg0":
            _strip_stats(path, keep_rg=0)
        elif stats_mode in ("newstyle", "halfopen"):
            _foreign_stats(path, stats_mode)
        datasets += 1
        pf = fastparquet.ParquetFile(path)
        cells = O.series_to_list(df["x"])
        if kind in ("dt", "dt_int96"):
            import pandas as pd
            cells = [None if c is None else pd.Timestamp(c[1]) for c in cells]
        elif kind == "dt_tz":
            import pandas as pd
            cells = [None if c is None else pd.Timestamp(c[1], tz="UTC") for c in cells]
        ycells = [int(v) for v in df["y"]] if wide else [None] * len(cells)
        rids = list(df["rid"])
        rows_by_rg = {}
        rid_rg = {}
        for gi in range(nrg):
            lo = offs[gi]
            hi = offs[gi + 1] if gi + 1 < nrg else len(rids)
            rows_by_rg[gi] = rids[lo:hi]
            for r in rids[lo:hi]:
                rid_rg[r] = gi
        for shape, filt in progs:
            groups = [filt] if shape == "flat" else filt
            ctx.clear()
            ops = sorted({c[1] for g in groups for c in g})
            ctx.update({"ops": ",".join(ops), "shape": shape if len(groups) == 1 else "or"})
            what = "%s stats=%s rgs=%r filter=%r" % (kind, stats_mode, contents, filt)
            evals += 1
            got = observe(pf, filt, add, what, rows_by_rg, rid_rg)
            if got is None:
                continue
            must = []
            for x, yv, r in zip(cells, ycells, rids):
                mm, dc = row_matches(groups, {"x": x, "y": yv})
                if mm:
                    must.append(r)
            if must:
                nontriv += 1
            lost = [r for r in must if r not in got]
            if lost:
                add("lost_rows", "%s: qualifying rows %r are missing from the result %r" % (what, lost, got),
                    bound_case=_bound_case(contents, groups, kind, stats_mode, sorted({rid_rg[r] for r in lost})))
    ok = not sigs
    return {"ok": ok, "outcome": "sound" if ok else "unsound", "nontrivial": nontriv > 0,
            "counts": {"datasets": datasets, "filter_evals": evals, "with_qualifying_rows": nontriv},
            "sig": list(sigs.values()) or None, "detail": detail[0]}


def _bound_case(contents, groups, kind, stats_mode="all", lost_rgs=None):
    """const_equals_bound: a row group that lost rows has a bound, visible to the reader, among the constants of
    the conditions on x.  Only the row groups that lost rows count, and only the bounds their statistics carry."""
    consts = []
    for g in groups:
        for (col, op, v) in g:
            if col != "x":
                continue
            consts.extend(list(v) if isinstance(v, (list, tuple, set, frozenset)) or type(v).__name__ == "ndarray"
                          else [v])
    for gi, cont in enumerate(contents):
        if lost_rgs is not None and gi not in lost_rgs:
            continue
        for b in _visible_bounds(kind, cont, stats_mode, gi):
            if any(_same_const(b, k) for k in consts):
                return "const_equals_bound"
    return "other"


def _same_const(a, b):
    try:
        return bool(a == b)
    except Exception:
        return False


def _visible_bounds(kind, cont, stats_mode, gi):
    vals = [kval(kind, v) for v in cont if v is not None]
    if not vals or stats_mode in ("none", "yonly") or (stats_mode == "rg0" and gi != 0):
        return []
    if stats_mode == "halfopen":
        return [max(vals)] if gi % 2 == 0 else [min(vals)]
    return [min(vals), max(vals)]


def _strip_stats(path, keep_rg):
    """remove the statistics of every chunk except row group keep_rg (statistics missing on some chunks only)"""
    import struct
    from fastparquet.cencoding import from_buffer
    data = open(path, "rb").read()
    flen = struct.unpack("<I", data[-8:-4])[0]
    start = len(data) - 8 - flen
    fmd = from_buffer(data[start:start + flen], "FileMetaData")
    for gi, rg in enumerate(fmd.row_groups):
        if gi == keep_rg:
            continue
        for col in rg.columns:
            col.meta_data.statistics = None
    fb = bytes(fmd.to_bytes())
    with open(path, "wb") as f:
        f.write(data[:start] + fb + struct.pack("<I", len(fb)) + b"PAR1")


def _rewrite_footer(path, edit):
    """apply edit(FileMetaData) to the footer of a data file or of a _metadata file"""
    import struct
    from fastparquet.cencoding import from_buffer
    data = open(path, "rb").read()
    flen = struct.unpack("<I", data[-8:-4])[0]
    start = len(data) - 8 - flen
    fmd = from_buffer(data[start:start + flen], "FileMetaData")
    edit(fmd)
    fb = bytes(fmd.to_bytes())
    with open(path, "wb") as f:
        f.write(data[:start] + fb + struct.pack("<I", len(fb)) + b"PAR1")


def _foreign_stats(path, mode):
    """newstyle: every chunk carries only min_value / max_value (what parquet-mr / arrow write today);
    halfopen: even row groups keep only their max, odd row groups only their min (old field names)"""
    def edit(fmd):
        for gi, rg in enumerate(fmd.row_groups):
            for col in rg.columns:
                s = col.meta_data.statistics
                if s is None:
                    continue
                if mode == "newstyle":
                    s.min_value, s.max_value = s.min, s.max
                    s.min = None
                    s.max = None
                elif gi % 2 == 0:
                    s.min = None
                else:
                    s.max = None
    _rewrite_footer(path, edit)


def _strip_pandas_meta(path):
    """a dataset as a writer without pandas metadata leaves it: no typing information for the partition keys"""
    def edit(fmd):
        keep = []
        for kv in fmd.key_value_metadata or []:
            k = kv.key
            k = k.decode() if isinstance(k, bytes) else k
            if k != "pandas":
                keep.append(kv)
        fmd.key_value_metadata = keep
    _rewrite_footer(path, edit)


def _ppool(pk):
    """(partition key values, constants outside them)"""
    import pandas as pd
    return {"int": ([1, 2], [0, 3, 1.5]), "str": (["a", "b"], ["0", "c"]),    # 1.5: between two integer keys
            "int3": ([2, 10, -1], [0, 5, 11, 2.5, -0.5]),  # several digits, a sign: text order != number order
            "str2": (["aa", "b"], ["a", "ab", "c"]),      # longer than one character
            "bool": ([True, False], []),
            "date": ([pd.Timestamp("2020-01-01"), pd.Timestamp("2020-01-02")],
                     [pd.Timestamp("2019-12-31"), pd.Timestamp("2020-01-03")])}[pk]


def _pcell(v):
    """value of a partition column as read back -> python value comparable with the constants"""
    import numpy as np
    import pandas as pd
    if isinstance(v, (bool, np.bool_)):
        return bool(v)
    if isinstance(v, (np.integer,)):
        return int(v)
    if isinstance(v, (np.floating,)):
        return float(v)
    if isinstance(v, (np.datetime64, pd.Timestamp)):
        return pd.Timestamp(v)
    if isinstance(v, (str, np.str_)):
        return str(v)
    return v


def run_P(p):
    """partitioned datasets: conditions on the partition column(s) alone and mixed with statistics conditions;
    key kinds, list operands, one- and two-level layouts, with and without pandas metadata"""
    import os
    import pandas as pd
    import fastparquet
    from mc.scratch import scratch
    from mc import oracles as O
    pk, scheme = p["pkind"], p["scheme"]
    levels, meta = p.get("levels", 1), p.get("meta", "pandas")
    pv, pout = _ppool(pk)
    qv, qout = ["aa", "b"], ["a", "c"]
    sigs = {}
    detail = [""]
    evals = nontriv = 0
    ctx = {}

    def add(symptom, msg, **extra):
        s = {"layer": "P", "pkind": pk, "scheme": scheme, "levels": levels, "meta": meta, "symptom": symptom}
        s.update(ctx)
        s.update(extra)
        k = repr(sorted(s.items(), key=str))
        if k not in sigs:
            sigs[k] = s
            if not detail[0]:
                detail[0] = msg

    n = 8
    data = {"p": [pv[(i // 2) % len(pv)] for i in range(n)]}
    on = ["p"]
    if levels == 2:
        data["q"] = [qv[i % 2] for i in range(n)]
        on = ["p", "q"]
    data["x"] = list(range(1, n + 1))
    data["rid"] = list(range(n))
    df = pd.DataFrame(data)
    d = scratch()
    path = os.path.join(d, "ds")
    fastparquet.write(path, df, file_scheme=scheme, partition_on=on, row_group_offsets=[0, 4], write_index=False,
                      stats=True)
    if meta == "none":
        _strip_pandas_meta(os.path.join(path, "_metadata"))
    pf = fastparquet.ParquetFile(path)
    if meta == "none" and pf.partition_meta:
        raise RuntimeError("the pandas metadata is still there")
    pcol = "p" if scheme == "hive" else "dir0"
    qcol = "q" if scheme == "hive" else "dir1"
    full = pf.to_pandas()
    rid_rg = {}
    rows_by_rg = {}
    for gi in range(len(pf.row_groups)):
        part = pf[gi].to_pandas()
        rows_by_rg[gi] = O.series_to_list(part["rid"])
        for r in rows_by_rg[gi]:
            rid_rg[r] = gi
    frids = O.series_to_list(full["rid"])
    rows = {}
    for i, r in enumerate(frids):
        row = {pcol: _pcell(full[pcol].astype(object).iloc[i]), "x": int(full["x"].iloc[i])}
        if levels == 2:
            row[qcol] = _pcell(full[qcol].astype(object).iloc[i])
        rows[r] = row
    scalar_ops = ("==", "=", "!=", "<", "<=", ">", ">=")
    progs = []

    def key_programs(col, vals, outs):
        for v in list(vals) + list(outs):
            for op in scalar_ops:
                progs.append([[(col, op, v)]])
            progs.append([[(col, "in", [v])]])
            progs.append([[(col, "not in", [v])]])
        lists = [[vals[0], vals[1]], [vals[1], vals[0]], (vals[0],), {vals[1]}, frozenset(vals[:2]), []]
        if outs:
            lists += [[vals[0], outs[0]], [outs[-1], vals[1]], list(outs), (outs[0], vals[-1])]
        if len(vals) > 2:
            lists += [[vals[0], vals[2]], list(vals)]
        for lst in lists:
            progs.append([[(col, "in", lst)]])
            progs.append([[(col, "not in", lst)]])

    key_programs(pcol, pv, pout)
    for v in pv[:2]:
        for xo, xv in (("<=", 2), (">=", 7), ("==", 5), ("<", 1)):
            progs.append([[(pcol, "==", v), ("x", xo, xv)]])
            progs.append([[("x", xo, xv), (pcol, "<=", v)]])
            progs.append([[(pcol, "==", v), ("x", xo, xv)], [("x", ">=", 7)]])
            progs.append([[("x", ">=", 7)], [(pcol, "==", v), ("x", xo, xv)]])
            progs.append([[(pcol, "==", v)], [(pcol, "!=", v), ("x", xo, xv)]])
            progs.append([[(pcol, "in", [v]), ("x", xo, xv)], [(pcol, "not in", [v]), ("x", ">", 4)]])
            progs.append([[(pcol, "in", list(pv)), ("x", xo, xv)], [(pcol, "in", (v,))]])
    if levels == 2:
        key_programs(qcol, qv, qout)
        for a in pv[:2]:
            for b in qv:
                progs.append([[(pcol, "==", a), (qcol, "==", b)]])
                progs.append([[(qcol, "==", b), (pcol, "==", a)]])
                progs.append([[(qcol, "in", [b]), (pcol, ">=", a)]])
                progs.append([[(pcol, "in", [a]), (qcol, "not in", [b])]])
                progs.append([[(pcol, "==", a), (qcol, "==", b)], [(pcol, "!=", a), (qcol, "!=", b)]])
                progs.append([[(qcol, "<", b)], [(pcol, "==", a), (qcol, ">=", b), ("x", ">", 4)]])
                progs.append([[(pcol, "==", a), (qcol, "==", b), ("x", "<=", 4)]])
                progs.append([[(qcol, "==", b), ("x", ">", 4)], [(pcol, "==", a), ("x", "<=", 4)]])
    for groups in progs:
        ctx.clear()
        ctx.update({"shape": "or" if len(groups) > 1 else "and", "ops": ",".join(sorted({c[1] for g in groups for c in g})),
                    "cols": ",".join(sorted({("q" if c[0] == qcol else "p" if c[0] == pcol else c[0])
                                             for g in groups for c in g}))})
        operands = [c[2] for g in groups for c in g if c[1] in ("in", "not in")]
        if operands:
            ctx["operand"] = ",".join(sorted({type(o).__name__ + ("0" if len(o) == 0 else "1" if len(o) == 1 else "n")
                                              for o in operands}))
        what = "%s %s levels=%d meta=%s filter=%r" % (scheme, pk, levels, meta, groups)
        evals += 1
        for filt in ([groups, groups[0]] if len(groups) == 1 else [groups]):
            got = observe(pf, filt, add, what, rows_by_rg, rid_rg)
            if got is None:
                continue
            must = []
            for r in frids:
                mm, dc = row_matches(groups, rows[r])
                if mm:
                    must.append(r)
            if must:
                nontriv += 1
            lost = [r for r in must if r not in got]
            if lost:
                add("lost_rows", "%s: qualifying rows %r missing from result %r" % (what, lost, got))
    ok = not sigs
    return {"ok": ok, "outcome": "sound" if ok else "unsound", "nontrivial": nontriv > 0,
            "counts": {"datasets": 1, "filter_evals": evals, "with_qualifying_rows": nontriv},
            "sig": list(sigs.values()) or None, "detail": detail[0]}


LEVEL_TEXT = ("Layer A decides the interval logic exhaustively: the real filter_val / filter_in / filter_not_in are called "
              "on every (operator, bounds, constant or list) over a 5-element ordered domain, which by order-isomorphism "
              "covers all totally ordered constants with <= 3 list elements, and every 'exclude' answer is checked "
              "against every value set consistent with the bounds. Layer B runs every 2- or 3-row-group dataset over 8 "
              "row-group contents x 72-99 filter programs x statistics present / absent / partly / in the layout of "
              "other writers / on some columns only, for plain and converted column kinds (text, zone-aware and int96 "
              "times, ordered categories); layer P runs one- and two-level hive and drill datasets over six kinds of "
              "partition key, with and without pandas metadata; all on the real reader, through five observation "
              "points (to_pandas, iter_row_groups, count, the selected row-group list, the selected indices).")
LEVEL_NOTE = ("Trusted: pure-Python predicate evaluation. Layer A's state space is (op, vmin, vmax, constant); there is "
              "no hidden state in the functions (verified by the end-to-end layer using fresh handles).")
TECHNIQUE = "explicit exhaustive model of the interval logic on the real functions + bounded exhaustive datasets x filter programs"
