"""C05 - filtered reads never lose a qualifying row (row-group pruning is sound).

Layer A: the interval logic (filter_val / filter_in / filter_not_in) as a finite
model, exhaustive over an order-isomorphic domain.  Layer B: end to end on real
datasets, four observation points.
"""
import itertools

ID = "C05"
LEVEL = "model_checking"
FLAVOUR = "plain"
TIMEOUT = 600
RULE = ("Layer A: for every operator, every (vmin, vmax) in (D u {None})^2 with vmin <= vmax over D = {0..4} (ints, "
        "floats, one-letter strings), every constant in D and every list of <= 3 elements of D in every order: if "
        "the real function answers 'exclude' then no value set with that min and max contains a satisfying element "
        "(states = (op, bounds, constant) triples, transitions = calls of the real function). Layer B: cell = "
        "(filter-column kind x statistics mode) or a partition layout; inside: every dataset of 2 (quick) / 3 "
        "(thorough) row groups over 8 row-group contents x every filter program (single conditions over 7 ops x 5 "
        "constants, in / not in lists, AND pairs, OR of AND groups, flat vs nested); observed through to_pandas, "
        "iter_row_groups, count, filter_row_groups(as_idx); non-trivial = a filter evaluation on a dataset with "
        ">= 1 qualifying row")
ASSUMPTIONS = ["rows whose filter value is NULL/NaN are don't-care for != and not in, must-not-match otherwise",
               "an exception is an acceptable answer only for a constant of a non-comparable type"]

OPS = ["==", "=", "!=", "<", "<=", ">", ">=", "in", "not in"]
RG_CONTENTS = [(1,), (2,), (3,), (1, 2), (1, 3), (2, 3), (None,), (2, None)]
D = [0, 1, 2, 3, 4]


def points(tier):
    pts = [{"layer": "A", "dom": dom} for dom in ("int", "float", "str")]
    kinds = ["int64", "str", "float64", "dt", "Int64", "cat"] if tier == "thorough" else ["int64", "str", "float64", "Int64"]
    for kind in kinds:
        for stats in ("all", "none", "rg0"):
            for first in range(len(RG_CONTENTS)):
                pts.append({"layer": "B", "kind": kind, "stats": stats, "nrg": 3 if tier == "thorough" else 2,
                            "first": first})
    for pk in ("int", "str"):
        for scheme in ("hive", "drill"):
            pts.append({"layer": "P", "pkind": pk, "scheme": scheme})
    return pts


def explore(run, tier):
    run.lattice("pruning", points(tier), "run")
    run.extra["states"] = run.counts.get("model_states", 0) + run.counts.get("datasets", 0)
    run.extra["transitions"] = run.counts.get("model_calls", 0) + run.counts.get("filter_evals", 0)
    run.extra["traces_validated_against_impl"] = run.extra["transitions"]


def crash_sig(point, res):
    return {"layer": point["layer"], "symptom": res["outcome"]}


# ------------------------------------------------------------------------------------
def satisfies(op, x, c):
    if op in ("==", "="):
        return x == c
    if op == "!=":
        return x != c
    if op == "<":
        return x < c
    if op == "<=":
        return x <= c
    if op == ">":
        return x > c
    if op == ">=":
        return x >= c
    if op == "in":
        return x in c
    if op == "not in":
        return x not in c
    raise KeyError(op)


def run(p):
    return globals()["run_" + p["layer"]](p)


def run_A(p):
    from fastparquet import api
    conv = {"int": lambda v: v, "float": lambda v: float(v) + 0.5, "str": lambda v: "abcde"[v]}[p["dom"]]
    dom = [conv(v) for v in D]
    sigs = {}
    detail = [""]
    states = calls = excluded = 0
    lists = [[]]
    for k in (1, 2, 3):
        for combo in itertools.permutations(dom, k):
            lists.append(list(combo))
    for op in OPS:
        consts = lists if op in ("in", "not in") else dom
        for vmin in [None] + dom:
            for vmax in [None] + dom:
                if vmin is not None and vmax is not None and vmin > vmax:
                    continue
                for c in consts:
                    states += 1
                    try:
                        ans = api.filter_val(op, c, vmin, vmax)
                    except Exception as e:
                        calls += 1
                        s = {"layer": "A", "op": op, "symptom": "model_raised", "exc": type(e).__name__}
                        sigs.setdefault(repr(s), s)
                        continue
                    calls += 1
                    if not ans:
                        continue
                    excluded += 1
                    # possible values of a chunk consistent with these bounds
                    lo = vmin if vmin is not None else None
                    hi = vmax if vmax is not None else None
                    possible = [x for x in dom if (lo is None or x >= lo) and (hi is None or x <= hi)]
                    witness = [x for x in possible if satisfies(op, x, c)]
                    # a set with this min and max must contain lo and hi; any other possible value may be present
                    if witness:
                        s = {"layer": "A", "op": op, "symptom": "unsound_exclusion",
                             "case": _case(op, c, vmin, vmax)}
                        if repr(s) not in sigs:
                            sigs[repr(s)] = s
                            if not detail[0]:
                                detail[0] = ("filter_val(%r, %r, vmin=%r, vmax=%r) excludes, but a chunk with these "
                                             "bounds can hold %r which satisfies the predicate" % (op, c, vmin, vmax, witness[0]))
    ok = not sigs
    return {"ok": ok, "outcome": "sound" if ok else "unsound", "nontrivial": excluded > 0,
            "counts": {"model_states": states, "model_calls": calls, "model_exclusions": excluded},
            "sig": list(sigs.values()) or None, "detail": detail[0]}


def _case(op, c, vmin, vmax):
    if op in ("in", "not in"):
        if vmin is not None and vmin == vmax:
            return "min==max"
        inmin = vmin is not None and vmin in c
        inmax = vmax is not None and vmax in c
        return "bound_in_list" if (inmin or inmax) else "bounds_not_in_list"
    if vmin is None or vmax is None:
        return "open_bound"
    return "min==max" if vmin == vmax else "range"


KINDMAP = {
    "int64": lambda v: v, "Int64": lambda v: v, "float64": lambda v: float(v),
    "str": lambda v: "abcde"[v], "cat": lambda v: "abcde"[v],
}


def kval(kind, v):
    import pandas as pd
    if kind == "dt":
        return pd.Timestamp("2020-01-0%d" % (v + 1))
    return KINDMAP[kind](v)


def make_frame(kind, contents):
    import pandas as pd
    import numpy as np
    vals, rid, offs = [], [], []
    for gi, cont in enumerate(contents):
        offs.append(len(vals))
        for j, v in enumerate(cont):
            vals.append(None if v is None else kval(kind, v))
            rid.append(gi * 10 + j)
    if kind == "int64":
        raise_null = any(v is None for v in vals)
        if raise_null:
            return None, None
        s = pd.Series(vals, dtype="int64")
    elif kind == "Int64":
        s = pd.Series([pd.NA if v is None else v for v in vals], dtype="Int64")
    elif kind == "float64":
        s = pd.Series([np.nan if v is None else v for v in vals], dtype="float64")
    elif kind == "str":
        s = pd.Series(vals, dtype=object)
    elif kind == "dt":
        s = pd.Series(pd.to_datetime(vals))
    elif kind == "cat":
        s = pd.Series(pd.Categorical(vals, categories=["e", "d", "c", "b", "a"]))
    return pd.DataFrame({"x": s, "rid": rid}), offs


def filter_programs(kind, quick):
    c = lambda v: kval(kind, v)
    progs = []
    for op in ("==", "=", "!=", "<", "<=", ">", ">="):
        for v in D:
            progs.append(("flat", [("x", op, c(v))]))
    for lst in ([], [2], [1, 3], [0, 4], [2, 3], [3, 1]):
        progs.append(("flat", [("x", "in", [c(v) for v in lst])]))
        progs.append(("flat", [("x", "not in", [c(v) for v in lst])]))
    for (o1, v1), (o2, v2) in [((">", 1), ("<", 3)), ((">=", 2), ("<=", 2)), ((">", 2), ("<", 2)), (("!=", 2), (">=", 1)),
                               ((">=", 3), ("in", [1, 3])), (("<", 2), ("not in", [1]))]:
        k2 = [c(v) for v in v2] if isinstance(v2, list) else c(v2)
        progs.append(("flat", [("x", o1, c(v1)), ("x", o2, k2)]))
        progs.append(("nested", [[("x", o1, c(v1)), ("x", o2, k2)]]))
    for g1, g2 in [([("x", "<", c(2))], [("x", ">", c(2))]), ([("x", "==", c(1))], [("x", "==", c(3))]),
                   ([("x", ">", c(3))], [("x", "<=", c(1)), ("x", ">=", c(1))]),
                   ([("x", "in", [c(0)])], [("x", "not in", [c(2), c(3)])])]:
        progs.append(("nested", [g1, g2]))
        progs.append(("nested", [g2, g1]))
    if kind in ("int64", "Int64"):
        progs.append(("flat", [("x", "<", 2.5)]))
        progs.append(("flat", [("x", ">=", 2.0)]))
    return progs


def row_matches(groups, row, null_cols=("x",)):
    """(must_match, dont_care) for a row dict under an OR-of-ANDs"""
    dont_care = False
    any_true = False
    for g in groups:
        allt = True
        dc = False
        for (col, op, val) in g:
            x = row[col]
            if x is None:
                if op in ("!=", "not in"):
                    dc = True
                else:
                    allt = False
                continue
            try:
                if not satisfies(op, x, val):
                    allt = False
            except TypeError:
                allt = False
        if allt and not dc:
            any_true = True
        elif allt and dc:
            dont_care = True
    return any_true, dont_care


def observe(pf, filt, sigs_add, what, rows_by_rg, rid_rg):
    """four observation points; returns (kept rg ids) or None"""
    import fastparquet
    from fastparquet import api
    from mc import oracles as O
    try:
        df = pf.to_pandas(filters=filt)
    except Exception as e:
        sigs_add("filter_raised", "%s: to_pandas raised %s: %s" % (what, type(e).__name__, str(e)[:120]), exc=type(e).__name__)
        return None
    got = O.series_to_list(df["rid"])
    kept = []
    for r in got:
        g = rid_rg[r]
        if g not in kept:
            kept.append(g)
    want_rows = [r for g in sorted(kept) for r in rows_by_rg[g]]
    if got != want_rows:
        sigs_add("not_whole_groups", "%s: result rids %r are not the in-order concatenation of whole row groups %r" % (what, got, kept))
    try:
        it = [r for part in pf.iter_row_groups(filters=filt) for r in O.series_to_list(part["rid"])]
        if it != got:
            sigs_add("observations_disagree", "%s: iter_row_groups gives %r, to_pandas %r" % (what, it, got), via="iter")
        cnt = pf.count(filters=filt)
        if cnt != len(got):
            sigs_add("observations_disagree", "%s: count()=%d, to_pandas %d rows" % (what, cnt, len(got)), via="count")
    except Exception as e:
        sigs_add("filter_raised", "%s: iter/count raised %s: %s" % (what, type(e).__name__, str(e)[:100]), exc=type(e).__name__, via="iter")
    return got


def run_B(p):
    import os
    import fastparquet
    from mc.scratch import scratch
    from mc import oracles as O
    kind, stats_mode, nrg = p["kind"], p["stats"], p["nrg"]
    sigs = {}
    detail = [""]
    evals = nontriv = datasets = 0
    ctx = {}

    def add(symptom, msg, **extra):
        s = {"layer": "B", "kind": kind, "stats": stats_mode, "symptom": symptom}
        s.update(ctx)
        s.update(extra)
        k = repr(sorted(s.items(), key=str))
        if k not in sigs:
            sigs[k] = s
            if not detail[0]:
                detail[0] = msg

    progs = filter_programs(kind, nrg == 2)
    d = scratch()
    for contents in itertools.product(RG_CONTENTS, repeat=nrg):
        if contents[0] != RG_CONTENTS[p["first"]]:
            continue
        df, offs = make_frame(kind, contents)
        if df is None:
            continue
        path = os.path.join(d, "t.parquet")
        st = {"all": True, "none": False, "rg0": True}[stats_mode]
        fastparquet.write(path, df, row_group_offsets=offs, stats=st, write_index=False)
        if stats_mode == "rg0":
            _strip_stats(path, keep_rg=0)
        datasets += 1
        pf = fastparquet.ParquetFile(path)
        cells = O.series_to_list(df["x"])
        if kind == "dt":
            import pandas as pd
            cells = [None if c is None else pd.Timestamp(c[1]) for c in cells]
        rids = list(df["rid"])
        rows_by_rg = {}
        rid_rg = {}
        for gi in range(nrg):
            lo = offs[gi]
            hi = offs[gi + 1] if gi + 1 < nrg else len(rids)
            rows_by_rg[gi] = rids[lo:hi]
            for r in rids[lo:hi]:
                rid_rg[r] = gi
        for shape, filt in progs:
            groups = [filt] if shape == "flat" else filt
            ctx.clear()
            ops = sorted({c[1] for g in groups for c in g})
            ctx.update({"ops": ",".join(ops), "shape": shape if len(groups) == 1 else "or"})
            what = "%s stats=%s rgs=%r filter=%r" % (kind, stats_mode, contents, filt)
            evals += 1
            got = observe(pf, filt, add, what, rows_by_rg, rid_rg)
            if got is None:
                continue
            must = []
            for x, r in zip(cells, rids):
                mm, dc = row_matches(groups, {"x": x})
                if mm:
                    must.append(r)
            if must:
                nontriv += 1
            lost = [r for r in must if r not in got]
            if lost:
                add("lost_rows", "%s: qualifying rows %r are missing from the result %r" % (what, lost, got),
                    bound_case=_bound_case(contents, groups, kind))
    ok = not sigs
    return {"ok": ok, "outcome": "sound" if ok else "unsound", "nontrivial": nontriv > 0,
            "counts": {"datasets": datasets, "filter_evals": evals, "with_qualifying_rows": nontriv},
            "sig": list(sigs.values()) or None, "detail": detail[0]}


def _bound_case(contents, groups, kind):
    consts = []
    for g in groups:
        for (_, op, v) in g:
            consts.extend(v if isinstance(v, list) else [v])
    for cont in contents:
        vals = [kval(kind, v) for v in cont if v is not None]
        if vals and (min(vals) in consts or max(vals) in consts):
            return "const_equals_bound"
    return "other"


def _strip_stats(path, keep_rg):
    """remove the statistics of every chunk except row group keep_rg (statistics missing on some chunks only)"""
    import struct
    from fastparquet.cencoding import from_buffer
    data = open(path, "rb").read()
    flen = struct.unpack("<I", data[-8:-4])[0]
    start = len(data) - 8 - flen
    fmd = from_buffer(data[start:start + flen], "FileMetaData")
    for gi, rg in enumerate(fmd.row_groups):
        if gi == keep_rg:
            continue
        for col in rg.columns:
            col.meta_data.statistics = None
    fb = bytes(fmd.to_bytes())
    with open(path, "wb") as f:
        f.write(data[:start] + fb + struct.pack("<I", len(fb)) + b"PAR1")


def run_P(p):
    """partitioned datasets: conditions on the partition column alone and mixed with statistics conditions"""
    import os
    import pandas as pd
    import fastparquet
    from mc.scratch import scratch
    from mc import oracles as O
    pk, scheme = p["pkind"], p["scheme"]
    pv = {"int": [1, 2], "str": ["a", "b"]}[pk]
    sigs = {}
    detail = [""]
    evals = nontriv = 0
    ctx = {}

    def add(symptom, msg, **extra):
        s = {"layer": "P", "pkind": pk, "scheme": scheme, "symptom": symptom}
        s.update(ctx)
        s.update(extra)
        k = repr(sorted(s.items(), key=str))
        if k not in sigs:
            sigs[k] = s
            if not detail[0]:
                detail[0] = msg

    df = pd.DataFrame({"p": [pv[0], pv[0], pv[1], pv[1], pv[0], pv[0], pv[1], pv[1]],
                       "x": [1, 2, 3, 4, 5, 6, 7, 8], "rid": list(range(8))})
    d = scratch()
    path = os.path.join(d, "ds")
    fastparquet.write(path, df, file_scheme=scheme, partition_on=["p"], row_group_offsets=[0, 4], write_index=False,
                      stats=True)
    pf = fastparquet.ParquetFile(path)
    pcol = "p" if scheme == "hive" else "dir0"
    full = pf.to_pandas()
    rid_rg = {}
    rows_by_rg = {}
    for gi in range(len(pf.row_groups)):
        part = pf[gi].to_pandas()
        rows_by_rg[gi] = O.series_to_list(part["rid"])
        for r in rows_by_rg[gi]:
            rid_rg[r] = gi
    pcells = {r: v for r, v in zip(O.series_to_list(full["rid"]), O.series_to_list(full[pcol]))}
    xcells = {r: v for r, v in zip(O.series_to_list(full["rid"]), O.series_to_list(full["x"]))}
    pconst = [pv[0], pv[1]] + ([0, 3] if pk == "int" else ["0", "c"])
    if scheme == "drill":
        pconst = [str(v) for v in pconst] if pk == "str" else pconst
    progs = []
    for v in pconst:
        for op in ("==", "!=", "<", ">=", ">"):
            progs.append([[(pcol, op, v)]])
        progs.append([[(pcol, "in", [v])]])
        progs.append([[(pcol, "not in", [v])]])
    for v in pconst[:2]:
        for xo, xv in (("<=", 2), (">=", 7), ("==", 5), ("<", 1)):
            progs.append([[(pcol, "==", v), ("x", xo, xv)]])
            progs.append([[(pcol, "==", v), ("x", xo, xv)], [("x", ">=", 7)]])
            progs.append([[("x", ">=", 7)], [(pcol, "==", v), ("x", xo, xv)]])
            progs.append([[(pcol, "==", v)], [(pcol, "!=", v), ("x", xo, xv)]])
            progs.append([[(pcol, "in", [v]), ("x", xo, xv)], [(pcol, "not in", [v]), ("x", ">", 4)]])
    for groups in progs:
        ctx.clear()
        ctx.update({"shape": "or" if len(groups) > 1 else "and", "ops": ",".join(sorted({c[1] for g in groups for c in g}))})
        what = "%s %s filter=%r" % (scheme, pk, groups)
        evals += 1
        for filt in ([groups, groups[0]] if len(groups) == 1 else [groups]):
            got = observe(pf, filt, add, what, rows_by_rg, rid_rg)
            if got is None:
                continue
            must = []
            for r in pcells:
                mm, dc = row_matches(groups, {pcol: pcells[r], "x": xcells[r]})
                if mm:
                    must.append(r)
            if must:
                nontriv += 1
            lost = [r for r in must if r not in got]
            if lost:
                add("lost_rows", "%s: qualifying rows %r missing from result %r" % (what, lost, got))
    ok = not sigs
    return {"ok": ok, "outcome": "sound" if ok else "unsound", "nontrivial": nontriv > 0,
            "counts": {"datasets": 1, "filter_evals": evals, "with_qualifying_rows": nontriv},
            "sig": list(sigs.values()) or None, "detail": detail[0]}


LEVEL_TEXT = ("Layer A decides the interval logic exhaustively: the real filter_val / filter_in / filter_not_in are called "
              "on every (operator, bounds, constant or list) over a 5-element ordered domain, which by order-isomorphism "
              "covers all totally ordered constants with <= 3 list elements, and every 'exclude' answer is checked "
              "against every value set consistent with the bounds. Layer B runs every 2- or 3-row-group dataset over 8 "
              "row-group contents x ~90 filter programs x statistics present / absent / partly x partition layouts on "
              "the real reader, through four observation points.")
LEVEL_NOTE = ("Trusted: pure-Python predicate evaluation. Layer A's state space is (op, vmin, vmax, constant); there is "
              "no hidden state in the functions (verified by the end-to-end layer using fresh handles).")
TECHNIQUE = "explicit exhaustive model of the interval logic on the real functions + bounded exhaustive datasets x filter programs"
