"""C01 - write -> read round trip returns the same table under every write option."""
import itertools

ID = "C01"
LEVEL = "exploration"
FLAVOUR = "plain"
TIMEOUT = 400
RULE = ("union of complete products: S1 single column = kind (mc/alphabets kinds + the local X_KINDS: 200-label "
        "categorical with int16 codes, categorical with boolean labels, timedelta64[s|ms], datetimes with sub-second "
        "digits / outside the ns range, "
        "half-hour fixed offset and a second named zone) x compression (quick: None, SNAPPY, and LZ4 for one kind per "
        "read branch) x page layout (v1|v2 x default|tiny pages) [cell] x null pattern x n (quick: 0,1,2,8,9, and "
        "63,64,65 in the uncompressed cells) x "
        "has_nulls x stats; S2 two columns + index + splitting = ordered pairs of 12 core kinds x index program x "
        "row_group_offsets x file_scheme x page version x n; S3 options = times (x page version x tiny pages), "
        "object_encoding (str and per-column dict), fixed_text, per-column compression dict, a categorical without labels (all missing) x n x ordered x simple / hive x page version x codec, 12 / 13 / 26 row groups x {simple, hive, drill} x write_index, sizes 8191/8192/8193 "
        "(+ 40000-label categorical with int32 codes), 'wide' = one 15-column frame with interleaved dtypes and "
        "unsorted / dotted / non-ASCII names x row_group_offsets (None, list; ints 1,3,4,9,100,0 with n = 9 and 10) x "
        "file_scheme x page version x tiny pages x index (range, int labels) x has_nulls (True; a partial list "
        "where row_group_offsets is None or a list); "
        "S4 index family = index kind (unnamed int, uint64 > 2^63, float64, nullable Int64, datetime64[s], tz-aware "
        "datetime64[us], timedelta64[us], categorical, two-level MultiIndex, named / negative-step RangeIndex) x "
        "column kind x n x row_group_offsets x file_scheme x page version. Every point = real "
        "fastparquet.write followed by ParquetFile(...).to_pandas(); refused (write raised) is never a violation; "
        "non-trivial = a file with >= 1 row was written, read back and compared cell by cell")
ASSUMPTIONS = ["NaN == NULL == NaT as missingness; -0.0 == 0.0", "dtype compared by kind (see DESIGN.md section 3)",
               "value pools of mc/alphabets.py and of X_KINDS in this file", "pandas 3.0.5 as installed",
               "time zones are compared by their UTC offset at 6 probe instants (1900..2100, both DST halves), not by "
               "name",
               "an unnamed written index comes back named 'index' (pandas reset_index naming, pinned by the "
               "repository's tests)"]

# kinds that exist only in this check (mc/alphabets.py is shared; its pools are not touched)
X_KINDS = ["cat_wide", "cat_bool", "td_s", "td_ms", "dt_ns_x", "dt_us_x", "dt_ms_x", "dt_s_x", "dt_ns_m0330", "dt_us_ny"]
LZ4_KINDS_Q = ["bool", "int64", "float64", "str_obj", "dt_ns", "cat_str", "cat_wide", "Int64", "boolean"]
OBJ_KINDS = ("str_obj", "str_pd", "bytes_obj", "json_obj")
INDEX_KINDS = ["int_unnamed", "uint64", "float64", "Int64", "dt_s", "dt_us_tz", "td_us", "cat", "multi2",
               "range_named", "range_neg"]

COMPRESSIONS_Q = [None, "SNAPPY"]
COMPRESSIONS_T = [None, "SNAPPY", "GZIP", "ZSTD", "LZ4", "BROTLI", "LZ4_RAW"]
LAYOUTS = [(1, False), (1, True), (2, False), (2, True)]


def points(tier):
    from mc import alphabets as A
    pts = []
    comps = COMPRESSIONS_T if tier == "thorough" else COMPRESSIONS_Q
    for kind in A.ALL_KINDS + X_KINDS:
        for comp in comps:
            for (ver, tiny) in LAYOUTS:
                pts.append({"s": "S1", "kind": kind, "comp": comp, "v": ver, "tiny": tiny, "tier": tier})
    if tier != "thorough":
        # LZ4 hands back a buffer object and cannot decompress into the output: one kind per read branch
        for kind in LZ4_KINDS_Q:
            for (ver, tiny) in LAYOUTS:
                pts.append({"s": "S1", "kind": kind, "comp": "LZ4", "v": ver, "tiny": tiny, "tier": tier})
    kinds2 = A.CORE_KINDS
    for k1, k2 in itertools.product(kinds2, repeat=2):
        if tier != "thorough" and (kinds2.index(k1) + kinds2.index(k2)) % 3:
            continue     # quick: a fixed third of the ordered pairs (thorough: all 144)
        for ver in (1, 2):
            pts.append({"s": "S2", "k1": k1, "k2": k2, "v": ver, "tier": tier})
    for kind in ("dt_s", "dt_ms", "dt_us", "dt_ns", "dt_ns_utc", "dt_us_paris",
                 "dt_ns_x", "dt_us_x", "dt_ms_x", "dt_s_x", "dt_ns_m0330", "dt_us_ny"):
        for times in ("int64", "int96"):
            if times == "int96" and kind in ("dt_us_x", "dt_ms_x", "dt_s_x"):
                continue      # int96 counts nanoseconds: years 1000 / 3000 are refused (OverflowError)
            pts.append({"s": "S3", "opt": "times", "kind": kind, "times": times})
    for enc in ("infer", "utf8", "bytes", "json", "bool", "int", "int32", "float"):
        pts.append({"s": "S3", "opt": "object_encoding", "enc": enc})
    pts.append({"s": "S3", "opt": "object_encoding_dict"})
    pts.append({"s": "S3", "opt": "fixed_text"})
    pts.append({"s": "S3", "opt": "compdict"})
    pts.append({"s": "S3", "opt": "many_rg"})
    pts.append({"s": "S3", "opt": "cat_nolabels"})
    for kind in ("bool", "int64", "float64", "str_obj", "cat_str", "Int64", "cat_wide", "cat_wide32"):
        for n in (8191, 8192, 8193):
            if tier != "thorough" and n != 8192 and kind not in ("bool", "str_obj"):
                continue
            pts.append({"s": "S3", "opt": "big", "kind": kind, "n": n})
    for ver in (1, 2):
        for tiny in (False, True):
            for ip in ("default", "int_labels"):
                pts.append({"s": "S3", "opt": "wide", "v": ver, "tiny": tiny, "index": ip, "tier": tier})
    colkinds = A.CORE_KINDS if tier == "thorough" else ["int64", "str_obj", "cat_str", "Int64"]
    for ik in INDEX_KINDS:
        for ck in colkinds:
            pts.append({"s": "S4", "ik": ik, "kind": ck, "tier": tier})
    return pts


def explore(run, tier):
    run.lattice("roundtrip", points(tier), "run")


def crash_sig(point, res):
    s = {"s": point["s"], "symptom": res["outcome"]}
    for k in ("kind", "comp", "v", "tiny", "k1", "k2", "opt", "ik"):
        if k in point:
            s[k] = point[k]
    return s


# ---------------------------------------------------------------------------------------
# local kinds (X_KINDS): value pools and series construction
_WIDE_CATS = ["w%03d" % i for i in range(199, -1, -1)]        # 200 labels, category order != lexical order
_WIDE32_CATS = None


def is_nullable(kind):
    from mc import alphabets as A
    return kind in X_KINDS or kind == "cat_wide32" or kind in A.NULLABLE_KINDS


def patterns_for(kind):
    from mc import alphabets as A
    return A.NULLPATS if is_nullable(kind) else ["none"]


def xpool(kind):
    """pool of a local kind; datetimes / timedeltas in the kind's own unit"""
    if kind == "cat_wide":
        return ["w000", "w199", "w127", "w128", "w064", "w199", "w001"]      # codes 199, 0, 72, 71, 135, 0, 198
    if kind == "cat_bool":
        return [True, False, False, True, True, False, True]
    if kind == "cat_wide32":
        return ["v00000", "v39999", "v32767", "v32768", "v00127", "v39999", "v00001"]
    if kind == "td_s":
        return [0, 1, -1, 86_400, 2_000_000, -5_000_000, 3_600]
    if kind == "td_ms":
        return [0, 1, -1, 86_400_000, 2_000_000, -5_000_000, 999]
    if kind == "dt_ns_x":     # sub-second digits down to the nanosecond, also before the epoch
        return [1_600_000_000_123_456_789, -1, 999_999_999, 0, 1_000_000_001, -86_399_999_999_999,
                951_782_400_000_000_500]
    if kind == "dt_us_x":     # sub-second digits + years 3000 / 1000 (outside the datetime64[ns] range)
        return [1_600_000_000_123_456, -1, 999_999, 32_503_680_000_000_000, -30_610_224_000_000_000, 0, 1_000_001]
    if kind == "dt_ms_x":
        return [1_600_000_000_123, -1, 999, 32_503_680_000_000, -30_610_224_000_000, 0, 1_001]
    if kind == "dt_s_x":
        return [1_600_000_000, -1, 32_503_680_000, -30_610_224_000, 0, 1, 253_402_300_799]
    raise KeyError(kind)


def mk_series(kind, n, nullpat="none", offset=0, name="c"):
    """mc.alphabets.series extended by the local kinds"""
    import datetime
    import numpy as np
    import pandas as pd
    from mc import alphabets as A
    global _WIDE32_CATS
    if kind not in X_KINDS and kind != "cat_wide32":
        return A.series(kind, n, nullpat, offset, name)
    mask = A.nullmask(nullpat, n)
    if kind in ("dt_ns_m0330", "dt_us_ny"):
        base = "dt_ns" if kind == "dt_ns_m0330" else "dt_us"
        s = A.series(base, n, nullpat, offset, name).dt.tz_localize("UTC")
        if kind == "dt_ns_m0330":
            return s.dt.tz_convert(datetime.timezone(-datetime.timedelta(hours=3, minutes=30)))
        return s.dt.tz_convert("America/New_York")
    p = xpool(kind)
    vals = [p[(i + offset) % len(p)] for i in range(n)]
    if kind.startswith("cat_"):
        if kind == "cat_wide":
            cats = _WIDE_CATS
        elif kind == "cat_bool":
            cats = [True, False]
        else:
            if _WIDE32_CATS is None:
                _WIDE32_CATS = ["v%05d" % i for i in range(40000)]
            cats = _WIDE32_CATS
        return pd.Series(pd.Categorical([None if m else v for v, m in zip(vals, mask)], categories=cats), name=name)
    unit = kind.split("_")[1]
    a = np.array(vals, dtype="int64").view(("m8[%s]" if kind.startswith("td_") else "M8[%s]") % unit).copy()
    a[np.array(mask, dtype=bool)] = np.timedelta64("NaT") if kind.startswith("td_") else np.datetime64("NaT")
    return pd.Series(a, name=name)


_TZ_PROBES = ("1900-01-15", "1975-07-01", "2021-01-15", "2021-07-15", "2024-11-03 12:00", "2100-07-01")


def tz_offsets(tz):
    import pandas as pd
    return [pd.Timestamp(t).tz_localize("UTC").tz_convert(tz).utcoffset().total_seconds() for t in _TZ_PROBES]


def dtype_why(orig, got, kind):
    """wr.dtype_ok + time zone identity (by UTC offset) + timedelta unit"""
    import numpy as np
    from mc import wr, oracles as O
    why = wr.dtype_ok(orig, got, kind)
    if why:
        return why
    o, g = O.dtype_kind(orig), O.dtype_kind(got)
    if o[0] == "M" and g[0] == "M" and o[2][1] is not None and g[2][1] is not None:
        a, b = tz_offsets(orig.tz), tz_offsets(got.tz)
        if a != b:
            return "time zone %s came back as %s (UTC offsets %r, written %r)" % (orig.tz, got.tz, b, a)
    if o[0] == "m" and g[0] == "m" and o[2][0] != g[2][0]:
        return "timedelta unit %s came back as %s" % (o[2][0], g[2][0])
    return ""


# ---------------------------------------------------------------------------------------
class Cell:
    def __init__(self, point):
        self.point = point
        self.n = 0
        self.refused = 0
        self.sigs = {}
        self.detail = ""
        self.ctx = {}

    def bad(self, symptom, detail, **extra):
        s = {"s": self.point["s"], "symptom": symptom}
        for k in ("kind", "comp", "v", "tiny", "k1", "k2", "opt", "times", "enc", "ik"):
            if k in self.point:
                s[k] = self.point[k]
        s.update(self.ctx)
        s.update(extra)
        key = repr(sorted(s.items(), key=str))
        if key not in self.sigs:
            self.sigs[key] = s
            if not self.detail:
                self.detail = detail

    def result(self):
        ok = not self.sigs
        return {"ok": ok, "outcome": "equal" if ok else "different", "nontrivial": self.n > 0,
                "counts": {"roundtrips": self.n, "refused": self.refused},
                "sig": list(self.sigs.values()) or None, "detail": self.detail}


def roundtrip(c, df, kinds, what, path_kind="simple", unit_free=False, **wkw):
    """write df, read back, compare.  kinds: {col: kind}.  Returns the frame read or None."""
    import os
    import fastparquet
    import pandas as pd
    from mc.scratch import scratch
    from mc import wr, oracles as O
    d = scratch()
    path = os.path.join(d, "t.parquet" if path_kind == "simple" else "ds")
    try:
        fastparquet.write(path, df, file_scheme=path_kind, **wkw)
    except Exception as e:
        c.refused += 1
        return None
    try:
        pf = fastparquet.ParquetFile(path)
        out = pf.to_pandas()
    except Exception as e:
        c.bad("read_raised", "%s: %s: %s" % (what, type(e).__name__, str(e)[:200]), exc=type(e).__name__)
        return None
    if len(df):
        c.n += 1
    if [str(x) for x in out.columns] != [str(x) for x in df.columns]:
        c.bad("wrong_columns", "%s: columns %r, written %r" % (what, list(out.columns), list(df.columns)))
        return out
    if len(out) != len(df):
        c.bad("wrong_rowcount", "%s: %d rows, written %d" % (what, len(out), len(df)))
        return out
    for col in df.columns:
        kind = kinds[col]
        exp = O.series_to_list(df[col])
        try:
            got = O.series_to_list(out[col])
        except Exception as e:      # e.g. garbage tz-aware timestamps that pandas cannot localize
            c.bad("wrong_value", "%s: column %s cannot be listed: %s: %s" % (what, col, type(e).__name__, str(e)[:150]),
                  colkind=kind, unlistable=True)
            continue
        i = O.first_diff(got, exp)
        if i is not None:
            c.bad("wrong_value", "%s: column %s row %d is %r, written %r" % (what, col, i, got[i], exp[i]), colkind=kind)
            continue
        # dtype: pandas 3 keeps df.dtypes stale after in-place category replacement; read the array's dtype
        gdt = out[col].array.dtype
        gdt = getattr(gdt, "numpy_dtype", gdt) if type(gdt).__name__ == "NumpyEADtype" else gdt
        why = dtype_why(df[col].dtype, gdt, kind)
        if why and unit_free and why.startswith("datetime unit"):
            why = ""      # int96 is a nanosecond format: its documented canonical form is datetime64[ns]
        if why:       # also for 0 rows
            c.bad("wrong_dtype", "%s: column %s: %s" % (what, col, why), colkind=kind)
        if kind.startswith("cat_") and len(df):     # 0 rows: no row group, no dictionary page holds the labels
            why = wr.cat_ok(df[col], out[col])
            if why:
                c.bad("wrong_categorical", "%s: column %s: %s" % (what, col, why), colkind=kind)
    return out


def check_index(c, df, out, what, written):
    """index equality when one was written; RangeIndex regenerated otherwise"""
    import pandas as pd
    from mc import oracles as O
    if out is None:
        return
    if written:
        exp = O.series_to_list(df.index.to_series())
        got = O.series_to_list(out.index.to_series())
        i = O.first_diff(got, exp)
        if i is not None:
            c.bad("wrong_index", "%s: index label %s is %r, written %r" % (
                what, i, got[i] if i >= 0 else len(got), exp[i] if i >= 0 else len(exp)))
        elif out.index.name != df.index.name:
            c.bad("wrong_index", "%s: index name %r, written %r" % (what, out.index.name, df.index.name), part="name")
    else:
        if isinstance(df.index, pd.RangeIndex):
            got = list(out.index)
            exp = list(df.index)
            if got != exp:
                c.bad("wrong_index", "%s: regenerated range index %r..., original %r..." % (what, got[:4], exp[:4]),
                      part="range")
            elif out.index.name != df.index.name:
                c.bad("wrong_index", "%s: range index name %r, written %r" % (what, out.index.name, df.index.name),
                      part="name")


def run(point):
    c = Cell(point)
    globals()["run_" + point["s"]](c, point)
    return c.result()


def run_S1(c, p):
    from mc import alphabets as A, wr
    kind, comp, ver, tiny = p["kind"], p["comp"], p["v"], p["tiny"]
    ns = A.N_THOROUGH if p["tier"] == "thorough" else A.N_QUICK
    if p["tier"] != "thorough" and comp is None:
        ns = ns + [63, 64, 65]     # level / bit-pack framing does not depend on the codec: uncompressed cells only
    hn_list = [True, False, "infer", ["c"]] if p["tier"] == "thorough" else [True, "infer"]
    if p["tier"] != "thorough" and kind in OBJ_KINDS:
        hn_list = [True, False, "infer"]     # 'infer' means True for object columns: REQUIRED text needs False
    stats_list = [True, False, "auto"] if p["tier"] == "thorough" else ["auto"]
    for pat in patterns_for(kind):
        for n in ns:
            if pat != "none" and n == 0:
                continue
            df = mk_series(kind, n, pat).to_frame()
            ps = wr.tiny_page_size(df, max(1, n // 3)) if tiny and n else None
            for hn in hn_list:
                for st in stats_list:
                    c.ctx = {"nulls": pat, "has_nulls": str(hn), "stats": str(st)}
                    with wr.PageCfg(ver, ps):
                        roundtrip(c, df, {"c": kind}, "S1 %s n=%d nulls=%s has_nulls=%s stats=%s" % (kind, n, pat, hn, st),
                                  compression=comp, has_nulls=hn, stats=st)


INDEX_PROGS = ["default", "range2", "int_labels", "str_labels", "dt_labels", "write_true", "write_false"]


def run_S2(c, p):
    import pandas as pd
    import numpy as np
    from mc import alphabets as A, wr
    k1, k2, ver = p["k1"], p["k2"], p["v"]
    thorough = p["tier"] == "thorough"
    for n in (0, 1, 9):
        s1 = A.series(k1, n, "alt" if (k1 in A.NULLABLE_KINDS and n > 1) else "none", 0, "a")
        s2 = A.series(k2, n, "none", 2, "b")
        for ip in INDEX_PROGS:
            df = pd.DataFrame({"a": s1, "b": s2})
            wi = None
            written = False
            if ip == "range2":
                df.index = pd.RangeIndex(2, 2 + 2 * n, 2)
            elif ip == "int_labels":
                df.index = pd.Index(np.arange(n, dtype="int64") * 3 + 5, name="idx")
                written = True
            elif ip == "str_labels":
                df.index = pd.Index(["r%d" % i for i in range(n)], dtype=object, name="idx")
                written = True
            elif ip == "dt_labels":
                df.index = pd.DatetimeIndex(pd.to_datetime(np.arange(n) * 86400 * 10 ** 9 + 10 ** 18), name="when")
                written = True
            elif ip == "write_true":
                wi = True
                df.index.name = "ri"
                written = True
            elif ip == "write_false":
                wi = False
                df.index = pd.Index(np.arange(n, dtype="int64") + 100, name="idx")
            for rgo in ([None, 3, [0, 2, 5], 0] if thorough else [None, [0, 2, 5]]):
                if isinstance(rgo, list) and n < 6:
                    rgo_eff = [x for x in rgo if x < max(n, 1)]
                else:
                    rgo_eff = rgo
                for scheme in ("simple", "hive"):
                    c.ctx = {"index": ip, "scheme": scheme, "rgo": str(rgo)}
                    what = "S2 %s,%s n=%d index=%s rgo=%s %s" % (k1, k2, n, ip, rgo, scheme)
                    with wr.PageCfg(ver, None):
                        out = roundtrip(c, df, {"a": k1, "b": k2}, what, path_kind=scheme,
                                        row_group_offsets=rgo_eff, write_index=wi)
                    if scheme == "hive" and n == 0:
                        continue
                    if ip == "write_false":
                        continue
                    check_index(c, df, out, what, written and n > 0)


def run_S3(c, p):
    import pandas as pd
    import numpy as np
    from mc import alphabets as A, wr
    opt = p["opt"]
    if opt == "times":
        for pat in ("none", "alt"):
            df = mk_series(p["kind"], 9, pat).to_frame()
            for ver, tiny in ((None, False), (1, True), (2, False), (2, True)):
                c.ctx = {"nulls": pat} if ver is None else {"nulls": pat, "v": ver, "tiny": tiny}
                what = "S3 times=%s %s nulls=%s v=%s tiny=%s" % (p["times"], p["kind"], pat, ver, tiny)
                if ver is None:       # the library's default page configuration, as before
                    roundtrip(c, df, {"c": p["kind"]}, what, times=p["times"], unit_free=p["times"] == "int96")
                    continue
                with wr.PageCfg(ver, wr.tiny_page_size(df, 3) if tiny else None):
                    roundtrip(c, df, {"c": p["kind"]}, what, times=p["times"], unit_free=p["times"] == "int96")
    elif opt == "object_encoding":
        enc = p["enc"]
        cols = {"infer": ["str_obj", "bytes_obj", "json_obj"], "utf8": ["str_obj"], "bytes": ["bytes_obj"],
                "json": ["json_obj"], "bool": ["o_bool"], "int": ["o_int"], "int32": ["o_int"], "float": ["o_float"]}[enc]
        for kind in cols:
            for pat in ("none", "alt", "first"):
                if kind.startswith("o_"):
                    base = {"o_bool": [True, False, True, True, False, False, True, False, True],
                            "o_int": [1, -2, 3, 2 ** 31 - 1 if enc == "int32" else 2 ** 40, 0, 5, 6, 7, 8],
                            "o_float": [1.5, -2.5, 0.0, 1e300, 3.0, 4.0, 5.0, 6.0, 7.0]}[kind]
                    m = A.nullmask(pat, 9)
                    s = pd.Series([None if z else v for v, z in zip(base, m)], dtype=object, name="c")
                    df = s.to_frame()
                    c.ctx = {"nulls": pat, "objkind": kind}
                    # values only: the dtype of object->primitive encodings is the primitive one (documented)
                    roundtrip_values_only(c, df, "S3 object_encoding=%s %s nulls=%s" % (enc, kind, pat), object_encoding=enc)
                else:
                    df = A.series(kind, 9, pat).to_frame()
                    c.ctx = {"nulls": pat, "objkind": kind}
                    roundtrip(c, df, {"c": kind}, "S3 object_encoding=%s %s nulls=%s" % (enc, kind, pat), object_encoding=enc)
    elif opt == "object_encoding_dict":
        # per-column dict; a column missing from the dict is written as raw bytes
        for pat in ("none", "alt"):
            df = pd.DataFrame({"a": A.series("str_obj", 9, pat, 0, "a"), "b": A.series("json_obj", 9, pat, 1, "b"),
                               "c": A.series("bytes_obj", 9, pat, 2, "c"), "d": A.series("str_obj", 9, pat, 3, "d")})
            kinds = {"a": "str_obj", "b": "json_obj", "c": "bytes_obj", "d": "str_obj"}
            for oe in ({"a": "utf8", "b": "json", "c": "bytes", "d": "infer"}, {"a": "utf8", "b": "json", "d": "utf8"},
                       {"a": "infer", "b": "infer", "c": "infer", "d": "infer"}):
                for ver in (1, 2):
                    c.ctx = {"nulls": pat, "oe": str(sorted(oe.items())), "v": ver}
                    with wr.PageCfg(ver, None):
                        roundtrip(c, df, kinds, "S3 object_encoding=%r nulls=%s v%d" % (oe, pat, ver), object_encoding=oe)
    elif opt == "wide":
        run_wide(c, p)
    elif opt == "fixed_text":
        for pat in ("none", "alt"):
            vals = ["abcd", "wxyz", "1234", "éa", "q   ", "....", "abcd", "zzzz", "0000"]
            m = A.nullmask(pat, 9)
            df = pd.DataFrame({"c": pd.Series([None if z else v for v, z in zip(vals, m)], dtype=object)})
            c.ctx = {"nulls": pat}
            roundtrip_values_only(c, df, "S3 fixed_text nulls=%s" % pat, fixed_text={"c": 4}, object_encoding="utf8",
                                  as_text=True)
    elif opt == "compdict":
        df = pd.DataFrame({"a": A.series("int64", 9, "none", 0, "a"), "b": A.series("str_obj", 9, "alt", 0, "b"),
                           "c": A.series("float64", 9, "alt", 0, "c")})
        for comp in ({"a": "SNAPPY", "b": None, "_default": "GZIP"},
                     {"a": {"type": "ZSTD", "args": {"level": 3}}, "_default": {"type": "GZIP", "args": None}},
                     {"b": {"type": "LZ4", "args": None}, "c": "BROTLI"}):
            for ver in (1, 2):
                c.ctx = {"comp": str(sorted(comp)), "v": ver}
                with wr.PageCfg(ver, None):
                    roundtrip(c, df, {"a": "int64", "b": "str_obj", "c": "float64"}, "S3 compression dict %r v%d" % (comp, ver),
                              compression=comp)
        # with a categorical: its dictionary page is compressed by a branch of its own (the form with arguments is
        # refused there on the current tree: AttributeError, a refusal and so not a violation of this property)
        df["d"] = A.series("cat_str", 9, "alt", 0, "d")
        for comp in ({"d": "GZIP", "_default": "SNAPPY"}, {"d": "UNCOMPRESSED", "a": "ZSTD"},
                     {"d": {"type": "GZIP", "args": {"compresslevel": 5}}}):
            for ver in (1, 2):
                c.ctx = {"comp": str(sorted(comp)) + "+cat", "v": ver}
                with wr.PageCfg(ver, None):
                    roundtrip(c, df, {"a": "int64", "b": "str_obj", "c": "float64", "d": "cat_str"},
                              "S3 compression dict %r v%d" % (comp, ver), compression=comp)
    elif opt == "cat_nolabels":
        # a categorical that declares no label at all (every value missing): its dictionary page is empty
        for n in (1, 2, 9):
            for ordered in (False, True):
                df = pd.DataFrame({"a": A.series("int64", n, "none", 0, "a"),
                                   "c": pd.Series(pd.Categorical([None] * n, categories=[], ordered=ordered))})
                for scheme in ("simple", "hive"):
                    for rgo in ((None, [0, 1]) if n > 1 else (None,)):
                        for ver in (1, 2):
                            for comp in (None, "SNAPPY"):
                                c.ctx = {"scheme": scheme, "v": ver, "rgs": 1 if rgo is None else 2, "comp": comp}
                                what = "S3 categorical without labels n=%d ordered=%s %s rgo=%r v%d %s" % (
                                    n, ordered, scheme, rgo, ver, comp)
                                with wr.PageCfg(ver, None):
                                    roundtrip(c, df, {"a": "int64", "c": "cat_str"}, what, path_kind=scheme,
                                              row_group_offsets=rgo, write_index=False, compression=comp)
    elif opt == "many_rg":
        # more row groups / part files than one decimal digit counts (part.10 sorts before part.2 as text)
        n = 26
        df = pd.DataFrame({"a": A.series("int64", n, "none", 0, "a"), "b": A.series("str_obj", n, "alt", 0, "b"),
                           "d": A.series("cat_str", n, "alt", 0, "d")})
        for scheme in ("simple", "hive", "drill"):
            for rgo in (2, 1, list(range(0, 24, 2)), [0] + list(range(5, 26, 2))):
                for wi in (False, True):
                    c.ctx = {"scheme": scheme, "rgs": 13 if rgo == 2 else 26 if rgo == 1 else len(rgo), "write_index": wi}
                    what = "S3 many row groups %s rgo=%r write_index=%s" % (scheme, rgo, wi)
                    dfw = df.copy()
                    if wi:
                        dfw.index = pd.Index(np.arange(n, dtype="int64") * 3 + 100, name="ri")
                    out = roundtrip(c, dfw, {"a": "int64", "b": "str_obj", "d": "cat_str"}, what, path_kind=scheme,
                                    row_group_offsets=rgo, write_index=wi)
                    check_index(c, dfw, out, what, wi)
    elif opt == "big":
        kind, n = p["kind"], p["n"]
        for pat in (["none", "alt", "last"] if is_nullable(kind) else ["none"]):
            df = mk_series(kind, n, pat).to_frame()
            for ver, tiny in ((1, False), (2, False), (1, True)):
                ps = wr.tiny_page_size(df, 3000) if tiny else None
                c.ctx = {"nulls": pat, "v": ver, "tiny": tiny, "n": n}
                with wr.PageCfg(ver, ps):
                    roundtrip(c, df, {"c": kind}, "S3 big %s n=%d nulls=%s v%d tiny=%s" % (kind, n, pat, ver, tiny))


WIDE = [("z", "int64", "none", 0), ("a.b", "float64", "alt", 0), ("é", "int64", "none", 3), ("m", "str_obj", "alt", 0),
        ("B", "float64", "none", 2), ("a", "int64", "none", 5), ("y y", "bool", "none", 0), ("b", "bool", "none", 1),
        ("d1", "dt_ns", "alt", 0), ("I", "Int64", "alt", 0), ("d0", "dt_ns", "none", 1), ("I0", "Int64", "first", 0),
        ("c9", "cat_str", "alt", 0), ("c1", "cat_int", "none", 0), ("0", "dt_us_paris", "last", 2)]


def run_wide(c, p):
    """15 columns: same-dtype columns interleaved with others (several columns per pandas block), names in
    unsorted order with a dot, a blank, upper case and non-ASCII; split by every row_group_offsets form"""
    import numpy as np
    import pandas as pd
    from mc import wr
    ver, tiny, ip = p["v"], p["tiny"], p["index"]
    kinds = {name: kind for name, kind, _, _ in WIDE}
    for n in (9, 10):
        df = pd.DataFrame({name: mk_series(kind, n, pat, off, name) for name, kind, pat, off in WIDE})
        assert list(df.columns) == [w[0] for w in WIDE]
        if ip == "int_labels":
            df.index = pd.Index(np.arange(n, dtype="int64") * 3 + 5, name="idx")
        ps = wr.tiny_page_size(df[["z"]], 2) if tiny else None
        for rgo in (None, 1, 3, 4, 9, 100, 0, [0, 2, 5]):
            if n == 10 and not isinstance(rgo, int):
                continue        # 10 rows only change how an int is turned into row-group starts
            for scheme in ("simple", "hive"):
                for hn in (True, ["a.b", "m", "d1", "I", "I0", "c9", "0"]):
                    if hn is not True and isinstance(rgo, int):
                        continue
                    c.ctx = {"n": n, "rgo": str(rgo), "scheme": scheme, "has_nulls": "all" if hn is True else "list"}
                    what = "S3 wide n=%d index=%s rgo=%s %s v%d tiny=%s has_nulls=%s" % (n, ip, rgo, scheme, ver, tiny, hn)
                    with wr.PageCfg(ver, ps):
                        out = roundtrip(c, df, kinds, what, path_kind=scheme, row_group_offsets=rgo, has_nulls=hn)
                    check_index(c, df, out, what, ip == "int_labels")


def index_of(ik, n):
    """(index, written, expected names) of an S4 index kind"""
    import datetime
    import numpy as np
    import pandas as pd
    r = np.arange(n, dtype="int64")
    if ik == "int_unnamed":
        return pd.Index(r * 3 + 5), True, ["index"]
    if ik == "uint64":
        return pd.Index((r * 7).astype("uint64") + np.uint64(2 ** 63 + 5), name="u"), True, ["u"]
    if ik == "float64":
        return pd.Index(r * 0.5 - 1.25, name="f"), True, ["f"]
    if ik == "Int64":
        return pd.Index(pd.array(list(r * 2 - 3), dtype="Int64"), name="I"), True, ["I"]
    if ik == "dt_s":
        return pd.Index((r * 86400 + 32_503_680_000).view("M8[s]"), name="when"), True, ["when"]     # year 3000
    if ik == "dt_us_tz":
        i = pd.DatetimeIndex((r * 86_400_000_000 * 30 + 1_600_000_000_123_456).view("M8[us]"), name="when")
        return i.tz_localize("UTC").tz_convert("America/New_York"), True, ["when"]
    if ik == "td_us":
        return pd.Index((r * 1_000_001 - 5).view("m8[us]"), name="dur"), True, ["dur"]
    if ik == "cat":
        return pd.CategoricalIndex(["q%d" % (i % 4) for i in range(n)], categories=["q3", "q0", "q1", "q2", "unused"],
                                   name="ci"), True, ["ci"]
    if ik == "multi2":
        return pd.MultiIndex.from_arrays([r // 2 + 10, ["k%d" % (i % 3) for i in range(n)]], names=["l0", "l1"]), \
            True, ["l0", "l1"]
    if ik == "range_named":
        return pd.RangeIndex(5, 5 + n, 1, name="rn"), False, ["rn"]
    if ik == "range_neg":
        return pd.RangeIndex(3 * n + 1, 1, -3), False, [None]
    raise KeyError(ik)


def run_S4(c, p):
    """index family: one data column + one index kind; values, names and dtype of the index come back"""
    import pandas as pd
    from mc import wr
    ik, kind = p["ik"], p["kind"]
    for n in (0, 1, 9):
        s = mk_series(kind, n, "alt" if (is_nullable(kind) and n > 1) else "none", 1, "a")
        idx, written, names = index_of(ik, n)
        df = pd.DataFrame({"a": s})
        df.index = idx
        for rgo in (None, [0, 2, 5]):
            rgo_eff = [x for x in rgo if x < max(n, 1)] if isinstance(rgo, list) else rgo
            for scheme in ("simple", "hive"):
                for ver in (1, 2):
                    c.ctx = {"scheme": scheme, "rgo": str(rgo), "v": ver}
                    what = "S4 index=%s col=%s n=%d rgo=%s %s v%d" % (ik, kind, n, rgo, scheme, ver)
                    with wr.PageCfg(ver, None):
                        out = roundtrip(c, df, {"a": kind}, what, path_kind=scheme, row_group_offsets=rgo_eff)
                    if out is None or (scheme == "hive" and n == 0):
                        continue
                    check_index_full(c, df, out, what, ik, written, names)


def check_index_full(c, df, out, what, ik, written, names):
    """values (tuples for a MultiIndex), names and dtype of the index"""
    import pandas as pd
    from mc import oracles as O
    if not written and len(df) == 0:
        return            # nothing is stored for a range index of 0 rows
    if list(out.index.names) != names:
        c.bad("wrong_index", "%s: index names %r, expected %r" % (what, list(out.index.names), names), part="name")
        return
    exp = [O.canon_cell(x) for x in (df.index.astype(object) if ik == "cat" else df.index).tolist()]
    got = [O.canon_cell(x) for x in (out.index.astype(object) if isinstance(out.index.dtype, pd.CategoricalDtype)
                                     else out.index).tolist()]
    i = O.first_diff(got, exp)
    if i is not None:
        c.bad("wrong_index", "%s: index label %s is %r, written %r" % (
            what, i, got[i] if i >= 0 else len(got), exp[i] if i >= 0 else len(exp)), part="value")
        return
    if ik == "multi2":
        if out.index.nlevels != 2:
            c.bad("wrong_index", "%s: %d index levels, written 2" % (what, out.index.nlevels), part="levels")
        return
    if len(df) == 0:
        return
    odt, gdt = df.index.dtype, out.index.dtype
    kind = {"int_unnamed": "int64", "uint64": "uint64", "float64": "float64", "Int64": "Int64", "dt_s": "dt_s",
            "dt_us_tz": "dt_us_ny", "td_us": "td_us", "cat": "cat_str", "range_named": "int64",
            "range_neg": "int64"}[ik]
    why = dtype_why(odt, gdt, kind)
    if not why and ik == "cat":
        oc, gc = list(df.index.categories), list(out.index.categories)
        if oc != gc or bool(df.index.ordered) != bool(out.index.ordered):
            why = "categories %r ordered=%s came back as %r ordered=%s" % (oc, df.index.ordered, gc, out.index.ordered)
    if why:
        c.bad("wrong_index", "%s: index dtype: %s" % (what, why), part="dtype")


def roundtrip_values_only(c, df, what, as_text=False, **wkw):
    import os
    import fastparquet
    from mc.scratch import scratch
    from mc import oracles as O
    d = scratch()
    path = os.path.join(d, "t.parquet")
    try:
        fastparquet.write(path, df, **wkw)
    except Exception:
        c.refused += 1
        return
    try:
        out = fastparquet.ParquetFile(path).to_pandas()
    except Exception as e:
        c.bad("read_raised", "%s: %s: %s" % (what, type(e).__name__, str(e)[:200]), exc=type(e).__name__)
        return
    c.n += 1
    exp = O.series_to_list(df["c"])
    got = O.series_to_list(out["c"])
    if as_text:
        got = [g.decode() if isinstance(g, bytes) else g for g in got]
    i = O.first_diff(got, exp)
    if i is not None:
        c.bad("wrong_value", "%s: row %d is %r, written %r" % (what, i, got[i] if i >= 0 else len(got), exp[i] if i >= 0 else len(exp)))


LEVEL_TEXT = ("Bounded-exhaustive lattice over (column kind x null pattern x row count x has_nulls x stats x codec x "
              "page version x page size) for every supported dtype (incl. int16/int32 category codes, every "
              "timedelta unit, sub-second and out-of-ns-range datetimes, half-hour and named zones), pairs of kinds "
              "with every index program, row-group split and file scheme, a 15-column frame under every "
              "row_group_offsets form, the index family (11 index kinds), and the option sub-lattices (times x page "
              "layouts, object_encoding str/dict, fixed_text, compression dicts, sizes around 8192); each point is a "
              "real write followed by a real read compared cell by cell, dtype by canonical form, time zone by UTC "
              "offset, index by values, names and dtype.")
LEVEL_NOTE = ("Trusted: pandas/numpy for building and comparing frames. Value pools are finite; frames have one, two or "
              "15 data columns; a write that raises is accepted (the property allows it).")
TECHNIQUE = "bounded exhaustive enumeration of frames x write options, real write+read vs the input frame"
