"""C01 - write -> read round trip returns the same table under every write option."""
import itertools

ID = "C01"
LEVEL = "exploration"
FLAVOUR = "plain"
TIMEOUT = 400
RULE = ("union of complete products: S1 single column = kind x compression x page layout (v1|v2 x default|tiny "
        "pages) [cell] x null pattern x n x has_nulls x stats; S2 two columns + index + splitting = ordered pairs "
        "of 12 core kinds x index program x row_group_offsets x file_scheme x page version x n; S3 options = times, "
        "object_encoding, fixed_text, per-column compression dict, sizes 8191/8192/8193. Every point = real "
        "fastparquet.write followed by ParquetFile(...).to_pandas(); refused (write raised) is never a violation; "
        "non-trivial = a file with >= 1 row was written, read back and compared cell by cell")
ASSUMPTIONS = ["NaN == NULL == NaT as missingness; -0.0 == 0.0", "dtype compared by kind (see DESIGN.md section 3)",
               "value pools of mc/alphabets.py", "pandas 3.0.5 as installed"]

COMPRESSIONS_Q = [None, "SNAPPY"]
COMPRESSIONS_T = [None, "SNAPPY", "GZIP", "ZSTD", "LZ4", "BROTLI", "LZ4_RAW"]
LAYOUTS = [(1, False), (1, True), (2, False), (2, True)]


def points(tier):
    from mc import alphabets as A
    pts = []
    comps = COMPRESSIONS_T if tier == "thorough" else COMPRESSIONS_Q
    for kind in A.ALL_KINDS:
        for comp in comps:
            for (ver, tiny) in LAYOUTS:
                pts.append({"s": "S1", "kind": kind, "comp": comp, "v": ver, "tiny": tiny, "tier": tier})
    kinds2 = A.CORE_KINDS
    for k1, k2 in itertools.product(kinds2, repeat=2):
        if tier != "thorough" and (kinds2.index(k1) + kinds2.index(k2)) % 3:
            continue     # quick: a fixed third of the ordered pairs (thorough: all 144)
        for ver in (1, 2):
            pts.append({"s": "S2", "k1": k1, "k2": k2, "v": ver, "tier": tier})
    for kind in ("dt_s", "dt_ms", "dt_us", "dt_ns", "dt_ns_utc", "dt_us_paris"):
        for times in ("int64", "int96"):
            pts.append({"s": "S3", "opt": "times", "kind": kind, "times": times})
    for enc in ("infer", "utf8", "bytes", "json", "bool", "int", "int32", "float"):
        pts.append({"s": "S3", "opt": "object_encoding", "enc": enc})
    pts.append({"s": "S3", "opt": "fixed_text"})
    pts.append({"s": "S3", "opt": "compdict"})
    for kind in ("bool", "int64", "float64", "str_obj", "cat_str", "Int64"):
        for n in (8191, 8192, 8193):
            if tier != "thorough" and n != 8192 and kind not in ("bool", "str_obj"):
                continue
            pts.append({"s": "S3", "opt": "big", "kind": kind, "n": n})
    return pts


def explore(run, tier):
    run.lattice("roundtrip", points(tier), "run")


def crash_sig(point, res):
    s = {"s": point["s"], "symptom": res["outcome"]}
    for k in ("kind", "comp", "v", "tiny", "k1", "k2", "opt"):
        if k in point:
            s[k] = point[k]
    return s


# ---------------------------------------------------------------------------------------
class Cell:
    def __init__(self, point):
        self.point = point
        self.n = 0
        self.refused = 0
        self.sigs = {}
        self.detail = ""
        self.ctx = {}

    def bad(self, symptom, detail, **extra):
        s = {"s": self.point["s"], "symptom": symptom}
        for k in ("kind", "comp", "v", "tiny", "k1", "k2", "opt", "times", "enc"):
            if k in self.point:
                s[k] = self.point[k]
        s.update(self.ctx)
        s.update(extra)
        key = repr(sorted(s.items(), key=str))
        if key not in self.sigs:
            self.sigs[key] = s
            if not self.detail:
                self.detail = detail

    def result(self):
        ok = not self.sigs
        return {"ok": ok, "outcome": "equal" if ok else "different", "nontrivial": self.n > 0,
                "counts": {"roundtrips": self.n, "refused": self.refused},
                "sig": list(self.sigs.values()) or None, "detail": self.detail}


def roundtrip(c, df, kinds, what, path_kind="simple", unit_free=False, **wkw):
    """write df, read back, compare.  kinds: {col: kind}.  Returns the frame read or None."""
    import os
    import fastparquet
    import pandas as pd
    from mc.scratch import scratch
    from mc import wr, oracles as O
    d = scratch()
    path = os.path.join(d, "t.parquet" if path_kind == "simple" else "ds")
    try:
        fastparquet.write(path, df, file_scheme=path_kind, **wkw)
    except Exception as e:
        c.refused += 1
        return None
    try:
        pf = fastparquet.ParquetFile(path)
        out = pf.to_pandas()
    except Exception as e:
        c.bad("read_raised", "%s: %s: %s" % (what, type(e).__name__, str(e)[:200]), exc=type(e).__name__)
        return None
    if len(df):
        c.n += 1
    if [str(x) for x in out.columns] != [str(x) for x in df.columns]:
        c.bad("wrong_columns", "%s: columns %r, written %r" % (what, list(out.columns), list(df.columns)))
        return out
    if len(out) != len(df):
        c.bad("wrong_rowcount", "%s: %d rows, written %d" % (what, len(out), len(df)))
        return out
    for col in df.columns:
        kind = kinds[col]
        exp = O.series_to_list(df[col])
        got = O.series_to_list(out[col])
        i = O.first_diff(got, exp)
        if i is not None:
            c.bad("wrong_value", "%s: column %s row %d is %r, written %r" % (what, col, i, got[i], exp[i]), colkind=kind)
            continue
        # dtype: pandas 3 keeps df.dtypes stale after in-place category replacement; read the array's dtype
        gdt = out[col].array.dtype
        gdt = getattr(gdt, "numpy_dtype", gdt) if type(gdt).__name__ == "NumpyEADtype" else gdt
        why = wr.dtype_ok(df[col].dtype, gdt, kind)
        if why and unit_free and why.startswith("datetime unit"):
            why = ""      # int96 is a nanosecond format: its documented canonical form is datetime64[ns]
        if why and len(df):
            c.bad("wrong_dtype", "%s: column %s: %s" % (what, col, why), colkind=kind)
        if kind.startswith("cat_") and len(df):
            why = wr.cat_ok(df[col], out[col])
            if why:
                c.bad("wrong_categorical", "%s: column %s: %s" % (what, col, why), colkind=kind)
    return out


def check_index(c, df, out, what, written):
    """index equality when one was written; RangeIndex regenerated otherwise"""
    import pandas as pd
    from mc import oracles as O
    if out is None:
        return
    if written:
        exp = O.series_to_list(df.index.to_series())
        got = O.series_to_list(out.index.to_series())
        i = O.first_diff(got, exp)
        if i is not None:
            c.bad("wrong_index", "%s: index label %s is %r, written %r" % (
                what, i, got[i] if i >= 0 else len(got), exp[i] if i >= 0 else len(exp)))
        elif out.index.name != df.index.name:
            c.bad("wrong_index", "%s: index name %r, written %r" % (what, out.index.name, df.index.name), part="name")
    else:
        if isinstance(df.index, pd.RangeIndex):
            got = list(out.index)
            exp = list(df.index)
            if got != exp:
                c.bad("wrong_index", "%s: regenerated range index %r..., original %r..." % (what, got[:4], exp[:4]),
                      part="range")


def run(point):
    c = Cell(point)
    globals()["run_" + point["s"]](c, point)
    return c.result()


def run_S1(c, p):
    from mc import alphabets as A, wr
    kind, comp, ver, tiny = p["kind"], p["comp"], p["v"], p["tiny"]
    ns = A.N_THOROUGH if p["tier"] == "thorough" else A.N_QUICK
    hn_list = [True, False, "infer", ["c"]] if p["tier"] == "thorough" else [True, "infer"]
    stats_list = [True, False, "auto"] if p["tier"] == "thorough" else ["auto"]
    for pat in A.patterns_for(kind):
        for n in ns:
            if pat != "none" and n == 0:
                continue
            df = A.series(kind, n, pat).to_frame()
            ps = wr.tiny_page_size(df, max(1, n // 3)) if tiny and n else None
            for hn in hn_list:
                for st in stats_list:
                    c.ctx = {"nulls": pat, "has_nulls": str(hn), "stats": str(st)}
                    with wr.PageCfg(ver, ps):
                        roundtrip(c, df, {"c": kind}, "S1 %s n=%d nulls=%s has_nulls=%s stats=%s" % (kind, n, pat, hn, st),
                                  compression=comp, has_nulls=hn, stats=st)


INDEX_PROGS = ["default", "range2", "int_labels", "str_labels", "dt_labels", "write_true", "write_false"]


def run_S2(c, p):
    import pandas as pd
    import numpy as np
    from mc import alphabets as A, wr
    k1, k2, ver = p["k1"], p["k2"], p["v"]
    thorough = p["tier"] == "thorough"
    for n in (0, 1, 9):
        s1 = A.series(k1, n, "alt" if (k1 in A.NULLABLE_KINDS and n > 1) else "none", 0, "a")
        s2 = A.series(k2, n, "none", 2, "b")
        for ip in INDEX_PROGS:
            df = pd.DataFrame({"a": s1, "b": s2})
            wi = None
            written = False
            if ip == "range2":
                df.index = pd.RangeIndex(2, 2 + 2 * n, 2)
            elif ip == "int_labels":
                df.index = pd.Index(np.arange(n, dtype="int64") * 3 + 5, name="idx")
                written = True
            elif ip == "str_labels":
                df.index = pd.Index(["r%d" % i for i in range(n)], dtype=object, name="idx")
                written = True
            elif ip == "dt_labels":
                df.index = pd.DatetimeIndex(pd.to_datetime(np.arange(n) * 86400 * 10 ** 9 + 10 ** 18), name="when")
                written = True
            elif ip == "write_true":
                wi = True
                df.index.name = "ri"
                written = True
            elif ip == "write_false":
                wi = False
                df.index = pd.Index(np.arange(n, dtype="int64") + 100, name="idx")
            for rgo in ([None, 3, [0, 2, 5], 0] if thorough else [None, [0, 2, 5]]):
                if isinstance(rgo, list) and n < 6:
                    rgo_eff = [x for x in rgo if x < max(n, 1)]
                else:
                    rgo_eff = rgo
                for scheme in ("simple", "hive"):
                    c.ctx = {"index": ip, "scheme": scheme, "rgo": str(rgo)}
                    what = "S2 %s,%s n=%d index=%s rgo=%s %s" % (k1, k2, n, ip, rgo, scheme)
                    with wr.PageCfg(ver, None):
                        out = roundtrip(c, df, {"a": k1, "b": k2}, what, path_kind=scheme,
                                        row_group_offsets=rgo_eff, write_index=wi)
                    if scheme == "hive" and n == 0:
                        continue
                    if ip == "write_false":
                        continue
                    check_index(c, df, out, what, written and n > 0)


def run_S3(c, p):
    import pandas as pd
    import numpy as np
    from mc import alphabets as A, wr
    opt = p["opt"]
    if opt == "times":
        for pat in ("none", "alt"):
            df = A.series(p["kind"], 9, pat).to_frame()
            c.ctx = {"nulls": pat}
            roundtrip(c, df, {"c": p["kind"]}, "S3 times=%s %s nulls=%s" % (p["times"], p["kind"], pat), times=p["times"],
                      unit_free=p["times"] == "int96")
    elif opt == "object_encoding":
        enc = p["enc"]
        cols = {"infer": ["str_obj", "bytes_obj", "json_obj"], "utf8": ["str_obj"], "bytes": ["bytes_obj"],
                "json": ["json_obj"], "bool": ["o_bool"], "int": ["o_int"], "int32": ["o_int"], "float": ["o_float"]}[enc]
        for kind in cols:
            for pat in ("none", "alt", "first"):
                if kind.startswith("o_"):
                    base = {"o_bool": [True, False, True, True, False, False, True, False, True],
                            "o_int": [1, -2, 3, 2 ** 31 - 1 if enc == "int32" else 2 ** 40, 0, 5, 6, 7, 8],
                            "o_float": [1.5, -2.5, 0.0, 1e300, 3.0, 4.0, 5.0, 6.0, 7.0]}[kind]
                    m = A.nullmask(pat, 9)
                    s = pd.Series([None if z else v for v, z in zip(base, m)], dtype=object, name="c")
                    df = s.to_frame()
                    c.ctx = {"nulls": pat, "objkind": kind}
                    # values only: the dtype of object->primitive encodings is the primitive one (documented)
                    roundtrip_values_only(c, df, "S3 object_encoding=%s %s nulls=%s" % (enc, kind, pat), object_encoding=enc)
                else:
                    df = A.series(kind, 9, pat).to_frame()
                    c.ctx = {"nulls": pat, "objkind": kind}
                    roundtrip(c, df, {"c": kind}, "S3 object_encoding=%s %s nulls=%s" % (enc, kind, pat), object_encoding=enc)
    elif opt == "fixed_text":
        for pat in ("none", "alt"):
            vals = ["abcd", "wxyz", "1234", "éa", "q   ", "....", "abcd", "zzzz", "0000"]
            m = A.nullmask(pat, 9)
            df = pd.DataFrame({"c": pd.Series([None if z else v for v, z in zip(vals, m)], dtype=object)})
            c.ctx = {"nulls": pat}
            roundtrip_values_only(c, df, "S3 fixed_text nulls=%s" % pat, fixed_text={"c": 4}, object_encoding="utf8",
                                  as_text=True)
    elif opt == "compdict":
        df = pd.DataFrame({"a": A.series("int64", 9, "none", 0, "a"), "b": A.series("str_obj", 9, "alt", 0, "b"),
                           "c": A.series("float64", 9, "alt", 0, "c")})
        for comp in ({"a": "SNAPPY", "b": None, "_default": "GZIP"},
                     {"a": {"type": "ZSTD", "args": {"level": 3}}, "_default": {"type": "GZIP", "args": None}},
                     {"b": {"type": "LZ4", "args": None}, "c": "BROTLI"}):
            for ver in (1, 2):
                c.ctx = {"comp": str(sorted(comp)), "v": ver}
                with wr.PageCfg(ver, None):
                    roundtrip(c, df, {"a": "int64", "b": "str_obj", "c": "float64"}, "S3 compression dict %r v%d" % (comp, ver),
                              compression=comp)
    elif opt == "big":
        kind, n = p["kind"], p["n"]
        for pat in (["none", "alt", "last"] if kind in A.NULLABLE_KINDS else ["none"]):
            df = A.series(kind, n, pat).to_frame()
            for ver, tiny in ((1, False), (2, False), (1, True)):
                ps = wr.tiny_page_size(df, 3000) if tiny else None
                c.ctx = {"nulls": pat, "v": ver, "tiny": tiny, "n": n}
                with wr.PageCfg(ver, ps):
                    roundtrip(c, df, {"c": kind}, "S3 big %s n=%d nulls=%s v%d tiny=%s" % (kind, n, pat, ver, tiny))


def roundtrip_values_only(c, df, what, as_text=False, **wkw):
    import os
    import fastparquet
    from mc.scratch import scratch
    from mc import oracles as O
    d = scratch()
    path = os.path.join(d, "t.parquet")
    try:
        fastparquet.write(path, df, **wkw)
    except Exception:
        c.refused += 1
        return
    try:
        out = fastparquet.ParquetFile(path).to_pandas()
    except Exception as e:
        c.bad("read_raised", "%s: %s: %s" % (what, type(e).__name__, str(e)[:200]), exc=type(e).__name__)
        return
    c.n += 1
    exp = O.series_to_list(df["c"])
    got = O.series_to_list(out["c"])
    if as_text:
        got = [g.decode() if isinstance(g, bytes) else g for g in got]
    i = O.first_diff(got, exp)
    if i is not None:
        c.bad("wrong_value", "%s: row %d is %r, written %r" % (what, i, got[i] if i >= 0 else len(got), exp[i] if i >= 0 else len(exp)))


LEVEL_TEXT = ("Bounded-exhaustive lattice over (column kind x null pattern x row count x has_nulls x stats x codec x "
              "page version x page size) for every supported dtype, pairs of kinds with every index program, "
              "row-group split and file scheme, and the option sub-lattices (times, object_encoding, fixed_text, "
              "compression dicts, sizes around 8192); each point is a real write followed by a real read compared "
              "cell by cell and dtype by canonical form.")
LEVEL_NOTE = ("Trusted: pandas/numpy for building and comparing frames. Value pools are finite; frames have at most two "
              "data columns; a write that raises is accepted (the property allows it).")
TECHNIQUE = "bounded exhaustive enumeration of frames x write options, real write+read vs the input frame"
