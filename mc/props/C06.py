"""C06 - every partial read agrees with the corresponding part of the full read.

State space: handles derived from the root handle (slices, picks, pickle, copy,
deepcopy, re-open, file object, list of files), explored breadth-first to depth 2
and de-duplicated on (addressed row groups, kind of last derivation); in every
state all terminal reads are enumerated and compared with the projection of the
full reads of the root taken under the same options; after the reads, and after
deriving children, the handle must still describe and deliver the same part.
"""
import itertools

ID = "C06"
LEVEL = "model_checking"
FLAVOUR = "plain"
TIMEOUT = 600
RULE = ("per dataset (14; thorough 15): simple file of 3 row groups with two int columns interleaved with text / "
        "categorical / float (thorough also: 7 columns, two text and two float), foreign file with an empty row group "
        "and an optional int whose NULLs lie in one row group, foreign file with one dictionary per row group, foreign "
        "pandas-categorical file with one dictionary per row group and object column labels, the same with a PLAIN "
        "fallback page in one row group, hive 4 row groups with an ordered categorical, hive partitioned, drill with two directory levels holding the same values, foreign hive "
        "directories p=1/p=x/p=2 without partition metadata, written int index + two int columns, tz-aware "
        "DatetimeIndex, two-level MultiIndex, nullable+datetime, file without row groups. "
        "States = handles reachable in <= 2 derivation steps over {pf[i] for every i, pf[i:j:k] for every i,j in "
        "{None,-(n+1)..n+1} and k in {None,1,2,3,-1,-2}, pickle round trip, copy, deepcopy, re-open from path, open "
        "from file object}, and for hive4 (thorough: every hive dataset) from a root opened on the list of its files "
        "(root, pickle, every pick; thorough: every slice), de-duplicated on (row-group index tuple, derivation "
        "kinds); quick restricts the seven foreign-dictionary / foreign-hive / index / empty datasets to first steps "
        "{root, pick, slice, pickle} and second steps {pickle, pick (, slice unless the first step was a slice)}; "
        "transitions = derivations executed on the real handle. "
        "Terminal reads in every state (menu A): to_pandas(columns=S) for every ordered subset of <= 2 columns (<= 1 "
        "for those seven datasets in quick; <= 3 in thorough, <= 2 for the 7-column file) x index in {None, False, "
        "stored name(s)}, iter_row_groups with/without columns and categories, head(n) for n in 0..rows+1 (also on "
        "handles without row groups), count(), len(), info; then count/len/info again and a full read through a "
        "pickled (file object: copied) image of the handle. Menu B, in states reached in <= 1 step (thorough: every "
        "state): to_pandas and iter_row_groups with categories=V for V in {[], [each categorical / dictionary "
        "column]} (run first, so that what they leave behind is seen by menu A), to_pandas(index=c) for EVERY column c "
        "(data, stored index, partition) and the stored index as a list, iter_row_groups(index=False | stored), "
        "head(n, columns=[c]) and head(n, index=False) for n in {1, rows}. After all children of a handle were "
        "derived and read: its count/len/info, values and pickled image once more; the same for the root at the end. "
        "Oracle = projection of the root's full reads under the same options: values, columns and their order, dtype "
        "of the column labels, dtype kinds (also of empty parts), ordered flag and label subset of categoricals, index "
        "values / names / dtype kind unless it is a range index")
ASSUMPTIONS = ["labels of an automatically generated range index are positional and not compared",
               "row order inside a handle follows its row-group list",
               "a handle without row groups knows no partition columns: only its row count is judged",
               "the raw thrift field fmd.num_rows of a derived handle is not a reported count (count(), info, len are)"]

DATASETS = ["simple3", "foreign_empty", "foreign_dict", "foreign_cat", "foreign_catfb", "hive4", "hive_part", "drill2",
            "foreign_hive", "written_index", "dt_index", "multi_index", "nullable_dt", "empty0"]
THOROUGH_DATASETS = ["simple7"]
FIRST = ["root", "pick", "slice", "pickle", "copy", "deepcopy", "reopen", "fileobj"]
# datasets whose subject is not the block layout: single columns only in the quick tier
NARROW = {"foreign_dict", "foreign_cat", "foreign_catfb", "foreign_hive", "dt_index", "multi_index", "empty0"}
FIRST_NARROW = ["root", "pick", "slice", "pickle"]
FILELIST = {"hive4": "quick", "hive_part": "thorough", "foreign_hive": "thorough"}


def points(tier):
    pts = []
    for ds in DATASETS + (THOROUGH_DATASETS if tier == "thorough" else []):
        for first in (FIRST_NARROW if (ds in NARROW and tier != "thorough") else FIRST):
            pts.append({"ds": ds, "first": first, "tier": tier})
        if ds in FILELIST and (tier == "thorough" or FILELIST[ds] == "quick"):
            pts.append({"ds": ds, "first": "filelist", "tier": tier})
    return pts


def explore(run, tier):
    run.lattice("handles", points(tier), "run")
    run.extra["states"] = run.counts.get("states", 0)
    run.extra["transitions"] = run.counts.get("transitions", 0)
    run.extra["traces_validated_against_impl"] = run.counts.get("transitions", 0)
    run.extra["terminal_reads"] = run.counts.get("reads", 0)


def crash_sig(point, res):
    return {"ds": point["ds"], "first": point["first"], "symptom": res["outcome"]}


# ---------------------------------------------------------------------------------
def _foreign(d, name, cols, rgs, kv=None, created_by="parquet-mr version 1.12.3"):
    import os
    from mc.specpq import writer as W
    data = W.write_file({"created_by": created_by, "columns": cols, "row_groups": rgs, "kv": kv})
    path = os.path.join(d, name)
    with open(path, "wb") as f:
        f.write(data)
    return path


def _dict_chunk(rows, fallback=False):
    """dictionary-encoded BYTE_ARRAY chunk with the dictionary of exactly its own values (in order of appearance)"""
    dic = []
    for v in rows:
        if v is not None and v not in dic:
            dic.append(v)
    pages = [{"n": len(rows), "enc": "PLAIN_DICTIONARY", "v": 1}]
    if fallback:
        pages = [{"n": 1, "enc": "PLAIN_DICTIONARY", "v": 1}, {"n": len(rows) - 1, "enc": "PLAIN", "v": 1}]
    return {"rows": rows, "codec": 0, "dictionary": dic, "pages": pages,
            "stats": {"null_count": sum(1 for v in rows if v is None)}}


def build(ds, d):
    """-> (path, columns, index_names, single_file, extra)
    extra: cats = columns to vary the `categories` argument on"""
    import json
    import os
    import pandas as pd
    import fastparquet
    if ds in ("simple3", "simple7"):
        df = pd.DataFrame({"a": range(7), "s": ["x", None, "z", "w", None, "u", "t"],
                           "a2": [70, 60, 50, 40, 30, 20, 10],
                           "c": pd.Categorical(list("abcabca")), "f": [0.5, 1.5, None, 3.5, 4.5, 5.5, 6.5]})
        if ds == "simple7":
            df["s2"] = ["k", "l", None, "n", "o", None, "q"]
            df["f2"] = [-0.5, None, -2.5, -3.5, -4.5, -5.5, None]
        path = os.path.join(d, "t.parquet")
        fastparquet.write(path, df, row_group_offsets=[0, 3, 4], write_index=False)
        return path, list(df.columns), [], True, {"cats": ["c"]}
    if ds == "foreign_empty":
        cols = [{"name": "a", "ptype": 2, "rep": "required"}, {"name": "s", "ptype": 6, "rep": "optional", "ct": 0},
                {"name": "n", "ptype": 2, "rep": "optional"}]
        rgs = []
        for k, rows in enumerate(([1, 2], [], [3, 4, 5], [6])):
            nn = [(None if (k == 0 and i == 0) else 100 + v) for i, v in enumerate(rows)]   # NULL only in row group 0
            rgs.append({"a": {"rows": rows, "codec": 0, "stats": {"null_count": 0}},
                        "s": {"rows": [None if v % 2 else ("v%d" % v).encode() for v in rows], "codec": 0,
                              "stats": {"null_count": sum(1 for v in rows if v % 2)}},
                        "n": {"rows": nn, "codec": 0, "stats": {"null_count": sum(1 for v in nn if v is None)}}})
        path = _foreign(d, "f.parquet", cols, rgs)
        return path, ["a", "s", "n"], [], True, {"cats": []}
    if ds in ("foreign_dict", "foreign_cat", "foreign_catfb"):
        cols = [{"name": "a", "ptype": 2, "rep": "optional"}, {"name": "s", "ptype": 6, "rep": "optional", "ct": 0}]
        rgs = []
        for k, (av, sv) in enumerate((([1, None], [b"x", b"y"]), ([3, 4, 5], [b"z", b"y", None]),
                                      ([6, 7], [b"q", b"x"]))):
            rgs.append({"a": {"rows": av, "codec": 0, "stats": {"null_count": sum(1 for v in av if v is None)}},
                        "s": _dict_chunk(sv, fallback=(ds == "foreign_catfb" and k == 1))})
        kv = None
        created = "parquet-mr version 1.12.3"
        if ds != "foreign_dict":
            created = "parquet-cpp-arrow version 14.0.0"
            # the column labels are declared as an object Index (what pandas < 3 writers record), not the default
            pmd = {"index_columns": [], "pandas_version": "2.0.0", "column_indexes": [
                {"name": None, "field_name": None, "pandas_type": "unicode", "numpy_type": "object",
                 "metadata": {"encoding": "UTF-8"}}], "columns": [
                {"name": "a", "field_name": "a", "pandas_type": "int64", "numpy_type": "Int64", "metadata": None},
                {"name": "s", "field_name": "s", "pandas_type": "categorical", "numpy_type": "int8",
                 "metadata": {"num_categories": 4, "ordered": False}}]}
            kv = [("pandas", json.dumps(pmd))]
        path = _foreign(d, "g.parquet", cols, rgs, kv=kv, created_by=created)
        return path, ["a", "s"], [], True, {"cats": ["s"]}
    if ds == "hive4":
        df = pd.DataFrame({"a": range(9), "s": ["r%d" % i for i in range(9)],
                           "c": pd.Categorical(list("xyzxyzxyz"), categories=list("zyx"), ordered=True)})
        path = os.path.join(d, "ds")
        fastparquet.write(path, df, file_scheme="hive", row_group_offsets=[0, 2, 5, 6], write_index=False)
        return path, ["a", "s", "c"], [], False, {"cats": ["c"]}
    if ds == "hive_part":
        df = pd.DataFrame({"a": range(8), "s": ["r%d" % i for i in range(8)], "p": [1, 2, 1, 2, 1, 2, 1, 2]})
        path = os.path.join(d, "dsp")
        fastparquet.write(path, df, file_scheme="hive", partition_on=["p"], row_group_offsets=[0, 4], write_index=False)
        return path, ["a", "s", "p"], [], False, {"cats": []}
    if ds == "drill2":
        # two directory levels without names (dir0 / dir1), the same values at both levels
        df = pd.DataFrame({"a": range(8), "s": ["r%d" % i for i in range(8)], "p": [1, 2, 1, 2, 1, 2, 1, 2],
                           "q": [2, 2, 1, 1, 1, 1, 2, 2]})
        path = os.path.join(d, "dsd")
        fastparquet.write(path, df, file_scheme="drill", partition_on=["p", "q"], write_index=False)
        return path, ["a", "s", "dir0", "dir1"], [], False, {"cats": []}
    if ds == "foreign_hive":
        # directories written one by one, as another tool would: no partition metadata, no _metadata file; one
        # directory name does not parse as a number
        path = os.path.join(d, "fh")
        for k, (dirn, vals) in enumerate((("p=1", [0, 1]), ("p=x", [2, 3, 4]), ("p=2", [5]))):
            os.makedirs(os.path.join(path, dirn))
            fastparquet.write(os.path.join(path, dirn, "part.%d.parquet" % k),
                              pd.DataFrame({"a": vals, "s": ["h%d" % v for v in vals]}), write_index=False)
        return path, ["a", "s", "p"], [], False, {"cats": []}
    if ds == "written_index":
        df = pd.DataFrame({"a": range(6), "s": list("qwerty"), "b": [60, 50, 40, 30, 20, 10]},
                          index=pd.Index([10, 20, 30, 40, 50, 60], name="idx"))
        path = os.path.join(d, "i.parquet")
        fastparquet.write(path, df, row_group_offsets=[0, 2, 4])
        return path, ["a", "s", "b", "idx"], ["idx"], True, {"cats": []}
    if ds == "dt_index":
        ix = pd.DatetimeIndex(pd.to_datetime([1711846800 * 10 ** 9 + i * 1800 * 10 ** 9 for i in range(6)]),
                              name="ts").tz_localize("UTC").tz_convert("Europe/Paris")
        df = pd.DataFrame({"a": range(6), "v": [0.5, None, 2.5, 3.5, 4.5, 5.5]}, index=ix)
        path = os.path.join(d, "dt.parquet")
        fastparquet.write(path, df, row_group_offsets=[0, 1, 4])
        return path, ["a", "v"], ["ts"], True, {"cats": []}
    if ds == "multi_index":
        df = pd.DataFrame({"a": range(6), "s": list("qwerty")},
                          index=pd.MultiIndex.from_arrays([[1, 1, 2, 2, 3, 3], list("xyxyxy")], names=["i1", "i2"]))
        path = os.path.join(d, "mi.parquet")
        fastparquet.write(path, df, row_group_offsets=[0, 2, 3])
        return path, ["a", "s"], ["i1", "i2"], True, {"cats": []}
    if ds == "nullable_dt":
        df = pd.DataFrame({"n": pd.array([1, None, 3, 4, None, 6], dtype="Int64"),
                           "t": pd.to_datetime([0, 10 ** 9, None, 3 * 10 ** 9, 4 * 10 ** 9, 5 * 10 ** 9]),
                           "b": pd.array([True, False, None, True, None, False], dtype="boolean"),
                           "z": pd.Series(pd.to_datetime([1711846800 * 10 ** 9 + i * 3600 * 10 ** 9 for i in range(6)]))
                                .dt.tz_localize("UTC").dt.tz_convert("Europe/Paris")})
        path = os.path.join(d, "n.parquet")
        fastparquet.write(path, df, row_group_offsets=[0, 1, 4], write_index=False)
        return path, ["n", "t", "b", "z"], [], True, {"cats": []}
    if ds == "empty0":
        df = pd.DataFrame({"a": pd.Series([], dtype="int64"), "s": pd.Series([], dtype=object)})
        path = os.path.join(d, "e.parquet")
        fastparquet.write(path, df, write_index=False)
        return path, ["a", "s"], [], True, {"cats": []}
    raise KeyError(ds)


def slices_for(n):
    vals = [None] + list(range(-(n + 1), n + 2))
    out = {}
    for i in vals:
        for j in vals:
            for k in (None, 1, 2, 3, -1, -2):
                idx = tuple(range(n)[i:j:k])
                out.setdefault(idx, (i, j, k))
    return out     # distinct results with one witness slice each


def derive(pf, kind, arg, path, single_file, keep):
    """apply one derivation to a handle; returns new handle"""
    import copy
    import pickle
    import fastparquet
    if kind == "pick":
        return pf[arg]
    if kind == "slice":
        return pf[slice(*arg)]
    if kind == "pickle":
        return pickle.loads(pickle.dumps(pf))
    if kind == "copy":
        return copy.copy(pf)
    if kind == "deepcopy":
        return copy.deepcopy(pf)
    if kind == "reopen":
        return fastparquet.ParquetFile(path)
    if kind == "fileobj":
        f = open(path, "rb")
        keep.append(f)
        return fastparquet.ParquetFile(f)
    raise KeyError(kind)


def run(p):
    import copy
    import os
    import pickle
    import fastparquet
    from mc.scratch import scratch
    from mc import oracles as O
    ds, first, thorough = p["ds"], p["first"], p["tier"] == "thorough"
    d = scratch()
    path, columns, index_names, single_file, extra = build(ds, d)
    if first == "filelist":
        files = []
        for dirpath, _, names in sorted(os.walk(path)):
            files += [os.path.join(dirpath, f) for f in sorted(names) if f.endswith(".parquet")]
        root = fastparquet.ParquetFile(files, root=path)
    else:
        root = fastparquet.ParquetFile(path)
    n = len(root.row_groups)
    sizes = [rg.num_rows for rg in root.row_groups]
    bounds = [0]
    for s in sizes:
        bounds.append(bounds[-1] + s)
    sigs = {}
    detail = [""]
    counts = {"states": 0, "transitions": 0, "reads": 0}
    ctx = {}
    keep = []

    def bad(symptom, msg, **extra_sig):
        s = {"ds": ds, "symptom": symptom}
        s.update(ctx)
        s.update(extra_sig)
        k = repr(sorted(s.items(), key=str))
        if k not in sigs:
            sigs[k] = s
            if not detail[0]:
                detail[0] = msg

    def kind_of_dtype(a):
        a = getattr(a, "numpy_dtype", a) if type(a).__name__ == "NumpyEADtype" else a
        k = O.dtype_kind(a)
        return k if k[0] != "category" else ("category",)

    def kind_of(frame, c):
        return kind_of_dtype(frame[c].array.dtype)

    def cat_info(series):
        import pandas as pd
        dt = series.dtype
        if not isinstance(dt, pd.CategoricalDtype):
            return None
        return bool(dt.ordered), [O.canon_cell(x) for x in dt.categories.tolist()]

    class Ref:
        """one full read of the root with every column as a plain column (index=False) under given options"""
        def __init__(self, **kw):
            self.frame = root.to_pandas(index=False, **kw)
            self.names = [str(c) for c in self.frame.columns]
            self.cols = {c: O.series_to_list(self.frame[c]) for c in self.names}
            self.kind = {c: kind_of(self.frame, c) for c in self.names}
            self.cat = {c: cat_info(self.frame[c]) for c in self.names}
            self.labels = str(self.frame.columns.dtype)

    ref0 = Ref()
    allcols = list(ref0.names)          # data, stored index and partition columns
    # the default read of the root agrees with the all-columns read (one oracle, two views)
    full = root.to_pandas()
    for c in full.columns:
        if O.first_diff(O.series_to_list(full[c]), ref0.cols[str(c)]) is not None or kind_of(full, c) != ref0.kind[str(c)]:
            bad("full_inconsistent", "%s: column %s of the default full read differs from the index=False full read" % (ds, c))
    refs = {}                            # categories variant -> Ref | None (root refuses the variant)
    rootidx = {}                         # index=c read of the root -> (kind of index,) | None

    def ref_for(cv):
        key = repr(cv)
        if key not in refs:
            try:
                refs[key] = Ref(categories=cv)
            except Exception:
                refs[key] = None
        return refs[key]

    def rootidx_for(c):
        if c not in rootidx:
            try:
                f = root.to_pandas(index=c)
                rootidx[c] = (kind_of_dtype(f.index.dtype), cat_info(f.index))
                if O.first_diff(O.series_to_list(f.index.to_series()), ref0.cols[c]) is not None:
                    bad("full_inconsistent", "%s: index=%r read of the root does not carry column %s" % (ds, c, c))
            except Exception:
                rootidx[c] = None
        return rootidx[c]

    def rows_of(idx):
        out = []
        for g in idx:
            out.extend(range(bounds[g], bounds[g + 1]))
        return out

    def eff_index(index):
        if index is None:
            return list(index_names)
        if index is False:
            return []
        if isinstance(index, str):
            return [index]
        return list(index)

    def retyped(got, exp):
        """signature field: the cells differ in type only (same text), e.g. 1 for '1'"""
        same = len(got) == len(exp) and all(O.same_value(g, e) or (g is not None and e is not None and str(g) == str(e))
                                            for g, e in zip(got, exp))
        return {"retyped": True} if same else {}

    def check_frame(df, cols, index, rows, what, op, ref=None, handle_empty=False):
        """df = a read with columns=cols, index=index of the part `rows` (row numbers of the root)"""
        ref = ref or ref0
        eff = eff_index(index)
        if handle_empty and cols is None:
            # a handle without row groups has no paths to derive partition columns from: only the row count is judged
            if len(df):
                bad("rowcount", "%s: %d rows, the part is empty" % (what, len(df)), op=op)
            return
        req = list(cols) if cols is not None else list(allcols)
        exp_cols = [c for c in req if c not in eff]
        got_cols = [str(c) for c in df.columns]
        if sorted(got_cols) != sorted(exp_cols) or (cols is not None and got_cols != exp_cols):
            bad("columns", "%s: columns %r, expected %r" % (what, got_cols, exp_cols), op=op)
            return
        if len(df) != len(rows):
            bad("rowcount", "%s: %d rows, the part has %d" % (what, len(df), len(rows)), op=op)
            return
        if got_cols and str(df.columns.dtype) != ref.labels:
            bad("label_dtype", "%s: the column labels are an Index of dtype %s, in the full read of dtype %s" % (
                what, df.columns.dtype, ref.labels), op=op)
            return
        for c in got_cols:
            src = ref.cols.get(c)
            if src is None:
                continue
            got = O.series_to_list(df[c])
            exp = [src[r] for r in rows]
            i = O.first_diff(got, exp)
            if i is not None:
                bad("values", "%s: column %s row %d is %r, the full read has %r" % (what, c, i, got[i], exp[i]), op=op, col=c,
                    **retyped(got, exp))
                return
            if kind_of(df, c) != ref.kind[c]:
                bad("dtype", "%s: column %s has dtype %s, the full read %s" % (what, c, df[c].array.dtype,
                                                                            ref.frame[c].array.dtype),
                    op=op, col=c, empty=not rows)
                return
            ci, cr = cat_info(df[c]), ref.cat[c]
            if ci is not None and cr is not None:
                if ci[0] != cr[0]:
                    bad("cat_ordered", "%s: categorical %s has ordered=%r, the full read %r" % (what, c, ci[0], cr[0]), op=op, col=c)
                    return
                if any(not any(O.same_value(x, y) for y in cr[1]) for x in ci[1]):
                    bad("cat_labels", "%s: categorical %s has labels %r, the full read %r" % (what, c, ci[1], cr[1]), op=op, col=c,
                        **({"retyped": True} if all(str(x) in [str(y) for y in cr[1]] for x in ci[1]) else {}))
                    return
        if eff:
            names = [str(x) if x is not None else None for x in df.index.names]
            if names != eff:
                bad("index_names", "%s: index names %r, expected %r" % (what, names, eff), op=op)
                return
            for lv, c in enumerate(eff):
                src = ref0.cols.get(c)
                if src is None:
                    continue
                vals = df.index.get_level_values(lv) if len(eff) > 1 else df.index
                got = O.series_to_list(vals.to_series())
                exp = [src[r] for r in rows]
                i = O.first_diff(got, exp)
                if i is not None:
                    bad("index", "%s: index level %s row %d is %r, the full read has %r" % (what, c, i, got[i] if i >= 0 else None,
                                                                                         exp[i] if i >= 0 else None), op=op, col=c,
                        **retyped(got, exp))
                    return
            if len(eff) == 1:
                want = rootidx_for(eff[0])
                if want is not None:
                    if kind_of_dtype(df.index.dtype) != want[0]:
                        bad("index_dtype", "%s: index %s has dtype %s, the same read of the root %r" % (
                            what, eff[0], df.index.dtype, want[0]), op=op, col=eff[0], empty=not rows)
                    elif want[1] is not None and cat_info(df.index) is not None and cat_info(df.index)[0] != want[1][0]:
                        bad("cat_ordered", "%s: categorical index %s lost its ordered flag" % (what, eff[0]), op=op, col=eff[0])

    def check_counts(pf, idx, what0, when):
        nrows = len(rows_of(idx))
        try:
            if pf.count() != nrows or len(pf) != len(idx) or pf.info["rows"] != nrows or pf.info["row_groups"] != len(idx):
                bad("count", "%s (%s): count()=%r len()=%r info=%r, the handle addresses %d rows in %d row groups" % (
                    what0, when, pf.count(), len(pf), pf.info, nrows, len(idx)), when=when)
        except Exception as e:
            bad("count_raised", "%s (%s): %s: %s" % (what0, when, type(e).__name__, e), when=when)

    def check_image(pf, idx, what0, when, picklable):
        """the handle as others would receive it now: pickled (copied when it holds a file object)"""
        counts["reads"] += 1
        how = "pickle" if picklable else "copy"
        try:
            img = pickle.loads(pickle.dumps(pf)) if picklable else copy.copy(pf)
            df = img.to_pandas()
        except Exception as e:
            bad("read_raised", "%s (%s): %s image: %s: %s" % (what0, when, how, type(e).__name__, str(e)[:150]),
                op="image", exc=type(e).__name__, when=when)
            return
        if len(img) != len(idx):
            bad("count", "%s (%s): the %s image has %d row groups, the handle addresses %d" % (what0, when, how, len(img), len(idx)),
                when=when, op="image")
        check_frame(df, None, None, rows_of(idx), "%s (%s) %s image to_pandas()" % (what0, when, how), "image",
                    handle_empty=not idx)

    maxk = (2 if ds == "simple7" else 3) if thorough else (1 if ds in NARROW else 2)
    sels = [None]
    for k in range(1, maxk + 1):
        sels += [list(x) for x in itertools.permutations(columns, k)]
    index_modes = [None, False]
    if len(index_names) == 1:
        index_modes.append(index_names[0])
    elif index_names:
        index_modes.append(list(index_names))
    catvars = ([[]] + [[c] for c in extra["cats"]]) if extra["cats"] else []
    narrow_quick = ds in NARROW and not thorough

    def terminal(pf, idx, how, picklable=True, level=1):
        """all terminal reads in one state; the option menu (categories, every column as the index, head / iteration
        with options) is enumerated in states reached in <= 1 step in the quick tier, in every state in thorough"""
        rich = thorough or level <= 1
        rows = rows_of(idx)
        nrows = len(rows)
        hempty = not idx
        what0 = "%s %s -> row groups %r" % (ds, how, list(idx))
        check_counts(pf, idx, what0, "before")
        # ---- the categories argument first: what it leaves behind must not leak into the default reads below
        for cv in (catvars if rich else []):
            ref = ref_for(cv)
            if ref is None:
                continue           # the root refuses this variant: no oracle
            counts["reads"] += 2
            what = "%s to_pandas(categories=%r)" % (what0, cv)
            try:
                df = pf.to_pandas(categories=cv)
            except Exception as e:
                bad("read_raised", "%s: %s: %s" % (what, type(e).__name__, str(e)[:150]), op="to_pandas_cats", exc=type(e).__name__)
                continue
            check_frame(df, None, None, rows, what, "to_pandas_cats", ref=ref, handle_empty=hempty)
            what = "%s iter_row_groups(categories=%r)" % (what0, cv)
            try:
                parts = list(pf.iter_row_groups(categories=cv))
            except Exception as e:
                bad("read_raised", "%s: %s: %s" % (what, type(e).__name__, str(e)[:150]), op="iter_cats", exc=type(e).__name__)
                continue
            want = [g for g in idx if sizes[g]]
            if len(parts) != len(want):
                bad("iter_parts", "%s: %d frames, %d non-empty row groups" % (what, len(parts), len(want)), op="iter_cats")
                continue
            for part, g in zip(parts, want):
                check_frame(part, None, None, list(range(bounds[g], bounds[g + 1])), what, "iter_cats", ref=ref)
        # ---- column selections x index modes
        for cols in (sels if not hempty else [None]):
            for index in index_modes:
                counts["reads"] += 1
                what = "%s to_pandas(columns=%r, index=%r)" % (what0, cols, index)
                try:
                    df = pf.to_pandas(columns=cols, index=index)
                except Exception as e:
                    bad("read_raised", "%s: %s: %s" % (what, type(e).__name__, str(e)[:150]), op="to_pandas", exc=type(e).__name__)
                    continue
                check_frame(df, cols, index, rows, what, "to_pandas", handle_empty=hempty)
        # ---- every column as the index; the stored index given as a list
        if not hempty and rich:
            for index in [c for c in allcols] + ([list(index_names)] if len(index_names) == 1 else []):
                if isinstance(index, str) and rootidx_for(index) is None:
                    continue       # the root cannot make this column the index: no oracle
                counts["reads"] += 1
                what = "%s to_pandas(index=%r)" % (what0, index)
                try:
                    df = pf.to_pandas(index=index)
                except Exception as e:
                    bad("read_raised", "%s: %s: %s" % (what, type(e).__name__, str(e)[:150]), op="to_pandas_index",
                        exc=type(e).__name__, col=index if isinstance(index, str) else "list")
                    continue
                check_frame(df, None, index, rows, what, "to_pandas_index")
        # ---- iteration
        kws = [{}, {"columns": columns[:1]}, {"categories": None, "columns": list(reversed(columns))}]
        if rich:
            kws.append({"index": False})
        if index_names and rich:
            kws.append({"index": index_names[0] if len(index_names) == 1 else list(index_names), "columns": columns[:1]})
        for kw in kws:
            counts["reads"] += 1
            what = "%s iter_row_groups(%r)" % (what0, kw)
            try:
                parts = list(pf.iter_row_groups(**kw))
            except Exception as e:
                bad("read_raised", "%s: %s: %s" % (what, type(e).__name__, str(e)[:150]), op="iter", exc=type(e).__name__)
                continue
            want = [g for g in idx if sizes[g]]
            if len(parts) != len(want):
                bad("iter_parts", "%s: %d frames, %d non-empty row groups" % (what, len(parts), len(want)), op="iter")
                continue
            for part, g in zip(parts, want):
                check_frame(part, kw.get("columns"), kw.get("index"), list(range(bounds[g], bounds[g + 1])), what, "iter")
        # ---- head
        for k in range(0, nrows + 2):
            counts["reads"] += 1
            what = "%s head(%d)" % (what0, k)
            try:
                h = pf.head(k)
            except Exception as e:
                bad("read_raised", "%s: %s: %s" % (what, type(e).__name__, str(e)[:150]), op="head", exc=type(e).__name__,
                    handle_empty=hempty)
                continue
            check_frame(h, None, None, rows[:k], what, "head", handle_empty=hempty)
        if not hempty and rich:
            for k in sorted({1, nrows}):
                for kw in ({"columns": columns[:1]}, {"index": False}):
                    counts["reads"] += 1
                    what = "%s head(%d, %r)" % (what0, k, kw)
                    try:
                        h = pf.head(k, **kw)
                    except Exception as e:
                        bad("read_raised", "%s: %s: %s" % (what, type(e).__name__, str(e)[:150]), op="head_kw", exc=type(e).__name__)
                        continue
                    check_frame(h, kw.get("columns"), kw.get("index"), rows[:k], what, "head_kw")
        # ---- reading (which derives handles internally) must leave the handle as it was
        check_counts(pf, idx, what0, "after_reads")
        check_image(pf, idx, what0, "after_reads", picklable)

    def undisturbed(pf, idx, how, picklable):
        """deriving and reading children must not disturb the parent"""
        what0 = "%s %s" % (ds, how)
        check_counts(pf, idx, what0, "after_derivations")
        counts["reads"] += 1
        try:
            again = pf.to_pandas()
            check_frame(again, None, None, rows_of(idx), "%s: parent read after derivations" % what0, "parent",
                        handle_empty=not idx)
        except Exception as e:
            bad("parent_disturbed", "%s: parent read raises after derivations: %s" % (what0, e))
        check_image(pf, idx, what0, "after_derivations", picklable)

    # ---- level 1
    slices = slices_for(n)
    level1 = []
    if first == "root":
        level1.append(("root", None, tuple(range(n))))
    elif first == "pick":
        for i in range(-n, n):
            level1.append(("pick", i, (range(n)[i],)))
    elif first == "slice":
        for idx, w in slices.items():
            level1.append(("slice", w, idx))
    elif first == "filelist":
        level1.append(("root", None, tuple(range(n))))
        level1.append(("pickle", None, tuple(range(n))))
        for i in range(n):
            level1.append(("pick", i, (i,)))
        if thorough:
            for idx, w in slices.items():
                level1.append(("slice", w, idx))
    else:
        if first == "fileobj" and not single_file:
            return {"ok": True, "outcome": "not_applicable", "nontrivial": False}
        level1.append((first, None, tuple(range(n))))
    seen = set()
    for kind, arg, idx in level1:
        ctx.clear()
        ctx.update({"d1": kind})
        how = "root" if kind == "root" else "%s(%r)" % (kind, arg)
        try:
            h1 = root if kind == "root" else derive(root, kind, arg, path, single_file, keep)
            counts["transitions"] += 0 if kind == "root" else 1
        except Exception as e:
            bad("derive_raised", "%s %s: %s: %s" % (ds, how, type(e).__name__, e))
            continue
        # a handle opened on a file object cannot be pickled (the file object is not picklable): copied instead
        picklable = kind != "fileobj"
        key = (idx, kind)
        if key not in seen:
            seen.add(key)
            counts["states"] += 1
            terminal(h1, idx, how, picklable, level=0 if kind == "root" else 1)
        if kind == "root":
            continue
        # ---- level 2
        m = len(idx)
        second = [("copy", None)] if kind == "fileobj" else [("pickle", None), ("copy", None), ("deepcopy", None)]
        if narrow_quick:
            second = [x for x in second if x[0] == "pickle"]
        second += [("pick", i) for i in range(-m, m)]
        sl2 = slices_for(m)
        if not (narrow_quick and kind == "slice"):
            second += [("slice", w) for w in sl2.values()]
        for kind2, arg2 in second:
            if kind2 == "pick":
                idx2 = (idx[arg2],)
            elif kind2 == "slice":
                idx2 = tuple(idx[slice(*arg2)])
            else:
                idx2 = idx
            ctx.clear()
            ctx.update({"d1": kind, "d2": kind2})
            how2 = "%s.%s(%r)" % (how, kind2, arg2)
            try:
                h2 = derive(h1, kind2, arg2, path, single_file, keep)
                counts["transitions"] += 1
            except Exception as e:
                bad("derive_raised", "%s %s: %s: %s" % (ds, how2, type(e).__name__, e))
                continue
            key = (idx2, kind, kind2)
            if key in seen:
                continue
            seen.add(key)
            counts["states"] += 1
            terminal(h2, idx2, how2, picklable, level=2)
        ctx.clear()
        ctx.update({"d1": kind, "after": "derivations"})
        undisturbed(h1, idx, how, picklable)
    ctx.clear()
    ctx.update({"d1": "root", "after": "derivations"})
    undisturbed(root, tuple(range(n)), "root", True)
    for f in keep:
        try:
            f.close()
        except Exception:
            pass
    ok = not sigs
    return {"ok": ok, "outcome": "agree" if ok else "disagree", "nontrivial": counts["reads"] > 0,
            "counts": counts, "sig": list(sigs.values()) or None, "detail": detail[0]}


LEVEL_TEXT = ("Explicit-state exploration of the handle-derivation graph (all picks, all distinct slices incl. negative and "
              "out-of-range bounds and steps, pickle/copy/deepcopy/re-open/file-object/list-of-files, depth 2) on "
              "thirteen datasets (self-made and foreign files: two columns in one dtype block, per-row-group "
              "dictionaries and NULL statistics, PLAIN fallback pages, untyped partition directories, int / tz-aware "
              "datetime / two-level stored indexes, a file without row groups); in every reachable state the "
              "complete menu of terminal reads (ordered column subsets, index modes incl. every column as the index, "
              "the categories argument, iteration variants, head(n) for every n with and without options, counts) is "
              "compared with the projection of the root's full reads under the same options - a differential oracle "
              "with no hand-written expected values - and the handle is re-examined (counts, values, pickled image) "
              "after its own reads and after its children were derived and read.")
LEVEL_NOTE = ("Trusted: Python slicing semantics of range() as the model of row-group selection; pandas value extraction. "
              "States merged when they address the same row groups through the same kinds of derivation.")
TECHNIQUE = "explicit-state BFS over derived handles x exhaustive terminal reads, differential against the full read"
