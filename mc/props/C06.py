"""C06 - every partial read agrees with the corresponding part of the full read.

State space: handles derived from the root handle (slices, picks, pickle, copy,
deepcopy, re-open, file object), explored breadth-first to depth 2 and
de-duplicated on (addressed row groups, kind of last derivation); in every state
all terminal reads are enumerated and compared with the projection of ONE full
read of the root.
"""
import itertools

ID = "C06"
LEVEL = "model_checking"
FLAVOUR = "plain"
TIMEOUT = 600
RULE = ("per dataset (6: simple 3 row groups, foreign file with an empty row group, hive 4 row groups, hive "
        "partitioned, written index, nullable+datetime): states = handles reachable in <= 2 derivation steps over "
        "{pf[i] for every i, pf[i:j:k] for every i,j in {None,-(n+1)..n+1} and k in {None,1,2,3,-1,-2}, "
        "pickle round trip, copy, deepcopy, re-open from path, open from file object}, de-duplicated on (row-group "
        "index tuple, last derivation kind); transitions = derivations executed on the real handle; terminal reads "
        "in every state: to_pandas(columns=S) for every ordered subset of <= 3 columns (<= 2 in quick), index in "
        "{None, False, name}, iter_row_groups with/without columns and categories, head(n) for n in 0..rows+1, "
        "count(), len(), info; oracle = projection of one full read of the root")
ASSUMPTIONS = ["labels of an automatically generated range index are positional and not compared",
               "row order inside a handle follows its row-group list"]

DATASETS = ["simple3", "foreign_empty", "hive4", "hive_part", "written_index", "nullable_dt"]
FIRST = ["root", "pick", "slice", "pickle", "copy", "deepcopy", "reopen", "fileobj"]


def points(tier):
    pts = []
    for ds in DATASETS:
        for first in FIRST:
            pts.append({"ds": ds, "first": first, "tier": tier})
    return pts


def explore(run, tier):
    run.lattice("handles", points(tier), "run")
    run.extra["states"] = run.counts.get("states", 0)
    run.extra["transitions"] = run.counts.get("transitions", 0)
    run.extra["traces_validated_against_impl"] = run.counts.get("transitions", 0)
    run.extra["terminal_reads"] = run.counts.get("reads", 0)


def crash_sig(point, res):
    return {"ds": point["ds"], "first": point["first"], "symptom": res["outcome"]}


# ---------------------------------------------------------------------------------
def build(ds, d):
    """-> (open_fn(kind) -> ParquetFile, columns, index_name)"""
    import io
    import os
    import pandas as pd
    import numpy as np
    import fastparquet
    if ds == "simple3":
        df = pd.DataFrame({"a": range(7), "s": ["x", None, "z", "w", None, "u", "t"],
                           "c": pd.Categorical(list("abcabca")), "f": [0.5, 1.5, None, 3.5, 4.5, 5.5, 6.5]})
        path = os.path.join(d, "t.parquet")
        fastparquet.write(path, df, row_group_offsets=[0, 3, 4], write_index=False)
        return path, ["a", "s", "c", "f"], None, True
    if ds == "foreign_empty":
        from mc.specpq import writer as W
        cols = [{"name": "a", "ptype": 2, "rep": "required"}, {"name": "s", "ptype": 6, "rep": "optional", "ct": 0}]
        rgs = []
        for rows in ([1, 2], [], [3, 4, 5], [6]):
            rgs.append({"a": {"rows": rows, "codec": 0, "stats": {"null_count": 0}},
                        "s": {"rows": [None if v % 2 else ("v%d" % v).encode() for v in rows], "codec": 0,
                              "stats": {"null_count": sum(1 for v in rows if v % 2)}}})
        data = W.write_file({"created_by": "parquet-mr version 1.12.3", "columns": cols, "row_groups": rgs})
        path = os.path.join(d, "f.parquet")
        open(path, "wb").write(data)
        return path, ["a", "s"], None, True
    if ds == "hive4":
        df = pd.DataFrame({"a": range(9), "s": ["r%d" % i for i in range(9)], "c": pd.Categorical(list("xyzxyzxyz"))})
        path = os.path.join(d, "ds")
        fastparquet.write(path, df, file_scheme="hive", row_group_offsets=[0, 2, 5, 6], write_index=False)
        return path, ["a", "s", "c"], None, False
    if ds == "hive_part":
        df = pd.DataFrame({"a": range(8), "s": ["r%d" % i for i in range(8)], "p": [1, 2, 1, 2, 1, 2, 1, 2]})
        path = os.path.join(d, "dsp")
        fastparquet.write(path, df, file_scheme="hive", partition_on=["p"], row_group_offsets=[0, 4], write_index=False)
        return path, ["a", "s", "p"], None, False
    if ds == "written_index":
        df = pd.DataFrame({"a": range(6), "s": list("qwerty")}, index=pd.Index([10, 20, 30, 40, 50, 60], name="idx"))
        path = os.path.join(d, "i.parquet")
        fastparquet.write(path, df, row_group_offsets=[0, 2, 4])
        return path, ["a", "s"], "idx", True
    if ds == "nullable_dt":
        df = pd.DataFrame({"n": pd.array([1, None, 3, 4, None, 6], dtype="Int64"),
                           "t": pd.to_datetime([0, 10 ** 9, None, 3 * 10 ** 9, 4 * 10 ** 9, 5 * 10 ** 9]),
                           "b": pd.array([True, False, None, True, None, False], dtype="boolean"),
                           "z": pd.Series(pd.to_datetime([1711846800 * 10 ** 9 + i * 3600 * 10 ** 9 for i in range(6)]))
                                .dt.tz_localize("UTC").dt.tz_convert("Europe/Paris")})
        path = os.path.join(d, "n.parquet")
        fastparquet.write(path, df, row_group_offsets=[0, 1, 4], write_index=False)
        return path, ["n", "t", "b", "z"], None, True
    raise KeyError(ds)


def slices_for(n):
    vals = [None] + list(range(-(n + 1), n + 2))
    out = {}
    for i in vals:
        for j in vals:
            for k in (None, 1, 2, 3, -1, -2):
                idx = tuple(range(n)[i:j:k])
                out.setdefault(idx, (i, j, k))
    return out     # distinct results with one witness slice each


def derive(pf, kind, arg, path, single_file, keep):
    """apply one derivation to a handle; returns new handle"""
    import copy
    import pickle
    import fastparquet
    if kind == "pick":
        return pf[arg]
    if kind == "slice":
        return pf[slice(*arg)]
    if kind == "pickle":
        return pickle.loads(pickle.dumps(pf))
    if kind == "copy":
        return copy.copy(pf)
    if kind == "deepcopy":
        return copy.deepcopy(pf)
    if kind == "reopen":
        return fastparquet.ParquetFile(path)
    if kind == "fileobj":
        f = open(path, "rb")
        keep.append(f)
        return fastparquet.ParquetFile(f)
    raise KeyError(kind)


def run(p):
    import fastparquet
    from mc.scratch import scratch
    from mc import oracles as O
    ds, first, thorough = p["ds"], p["first"], p["tier"] == "thorough"
    d = scratch()
    path, columns, index_name, single_file = build(ds, d)
    root = fastparquet.ParquetFile(path)
    n = len(root.row_groups)
    sizes = [rg.num_rows for rg in root.row_groups]
    full = root.to_pandas()
    fullcols = {c: O.series_to_list(full[c]) for c in full.columns}
    fullidx = O.series_to_list(full.index.to_series()) if index_name else None

    def kind_of(frame, c):
        a = frame[c].array.dtype
        a = getattr(a, "numpy_dtype", a) if type(a).__name__ == "NumpyEADtype" else a
        k = O.dtype_kind(a)
        return k if k[0] != "category" else ("category",)
    fullkind = {c: kind_of(full, c) for c in full.columns}
    bounds = [0]
    for s in sizes:
        bounds.append(bounds[-1] + s)
    sigs = {}
    detail = [""]
    counts = {"states": 0, "transitions": 0, "reads": 0}
    ctx = {}
    keep = []

    def bad(symptom, msg, **extra):
        s = {"ds": ds, "symptom": symptom}
        s.update(ctx)
        s.update(extra)
        k = repr(sorted(s.items(), key=str))
        if k not in sigs:
            sigs[k] = s
            if not detail[0]:
                detail[0] = msg

    def rows_of(idx):
        out = []
        for g in idx:
            out.extend(range(bounds[g], bounds[g + 1]))
        return out

    def terminal(pf, idx, how):
        """all terminal reads in one state"""
        rows = rows_of(idx)
        nrows = len(rows)
        what0 = "%s %s -> row groups %r" % (ds, how, list(idx))
        # counts
        try:
            if pf.count() != nrows or len(pf) != len(idx) or pf.info["rows"] != nrows or pf.info["row_groups"] != len(idx):
                bad("count", "%s: count()=%r len()=%r info=%r, the handle addresses %d rows in %d row groups" % (
                    what0, pf.count(), len(pf), pf.info, nrows, len(idx)))
        except Exception as e:
            bad("count_raised", "%s: %s: %s" % (what0, type(e).__name__, e))
        maxk = 3 if thorough else 2
        sels = [None]
        for k in range(1, maxk + 1):
            sels += [list(x) for x in itertools.permutations(columns, k)]
        if not rows:
            sels = [None]      # an empty handle knows no partition columns: only the plain read is judged
        for cols in sels:
            for index in ((None, False, index_name) if index_name else (None, False)):
                counts["reads"] += 1
                what = "%s to_pandas(columns=%r, index=%r)" % (what0, cols, index)
                try:
                    df = pf.to_pandas(columns=cols, index=index)
                except Exception as e:
                    bad("read_raised", "%s: %s: %s" % (what, type(e).__name__, str(e)[:150]), op="to_pandas", exc=type(e).__name__)
                    continue
                check_frame(df, cols, index, rows, what, "to_pandas")
        # iteration
        for kw in ({}, {"columns": columns[:1]}, {"categories": None, "columns": list(reversed(columns))}):
            counts["reads"] += 1
            what = "%s iter_row_groups(%r)" % (what0, kw)
            try:
                parts = list(pf.iter_row_groups(**kw))
            except Exception as e:
                bad("read_raised", "%s: %s: %s" % (what, type(e).__name__, str(e)[:150]), op="iter", exc=type(e).__name__)
                continue
            want = [g for g in idx if sizes[g]]
            if len(parts) != len(want):
                bad("iter_parts", "%s: %d frames, %d non-empty row groups" % (what, len(parts), len(want)))
                continue
            for part, g in zip(parts, want):
                check_frame(part, kw.get("columns"), None, list(range(bounds[g], bounds[g + 1])), what, "iter")
        # head
        for k in range(0, nrows + 2):
            counts["reads"] += 1
            what = "%s head(%d)" % (what0, k)
            if not idx:
                continue
            try:
                h = pf.head(k)
            except Exception as e:
                bad("read_raised", "%s: %s: %s" % (what, type(e).__name__, str(e)[:150]), op="head", exc=type(e).__name__)
                continue
            check_frame(h, None, None, rows[:k], what, "head")

    def check_frame(df, cols, index, rows, what, op):
        want_cols = list(cols) if cols is not None else [c for c in full.columns]
        if index is None and index_name and cols is not None and index_name in want_cols:
            want_cols = [c for c in want_cols if c != index_name]
        got_cols = [str(c) for c in df.columns]
        if not rows and cols is None:
            # an empty selection has no paths to derive partition columns from: only the row count is judged
            if len(df):
                bad("rowcount", "%s: %d rows, the part is empty" % (what, len(df)), op=op)
            return
        exp_cols = [c for c in want_cols if not (index_name and c == index_name and index is None)]
        if index is False and index_name and cols is None:
            exp_cols = [c for c in full.columns] + [index_name]
        if sorted(got_cols) != sorted(exp_cols) or (cols is not None and got_cols != exp_cols):
            bad("columns", "%s: columns %r, expected %r" % (what, got_cols, exp_cols), op=op)
            return
        if len(df) != len(rows):
            bad("rowcount", "%s: %d rows, the part has %d" % (what, len(df), len(rows)), op=op)
            return
        for c in got_cols:
            src = fullcols.get(c)
            if src is None and c == index_name:
                src = fullidx
            if src is None:
                continue
            got = O.series_to_list(df[c])
            exp = [src[r] for r in rows]
            i = O.first_diff(got, exp)
            if i is not None:
                bad("values", "%s: column %s row %d is %r, the full read has %r" % (what, c, i, got[i], exp[i]), op=op, col=c)
                return
            if c in fullkind and rows and kind_of(df, c) != fullkind[c]:
                bad("dtype", "%s: column %s has dtype %s, the full read %s" % (what, c, df[c].array.dtype, full[c].array.dtype),
                    op=op, col=c)
                return
        if index_name and index is None and "idx" not in got_cols:
            got = O.series_to_list(df.index.to_series())
            exp = [fullidx[r] for r in rows]
            if O.first_diff(got, exp) is not None:
                bad("index", "%s: index %r, the full read has %r" % (what, got[:6], exp[:6]), op=op)

    # ---- level 1
    slices = slices_for(n)
    level1 = []
    if first == "root":
        level1.append(("root", None, tuple(range(n))))
    elif first == "pick":
        for i in range(-n, n):
            level1.append(("pick", i, (range(n)[i],)))
    elif first == "slice":
        for idx, w in slices.items():
            level1.append(("slice", w, idx))
    else:
        if first == "fileobj" and not single_file:
            return {"ok": True, "outcome": "not_applicable", "nontrivial": False}
        level1.append((first, None, tuple(range(n))))
    seen = set()
    for kind, arg, idx in level1:
        ctx.clear()
        ctx.update({"d1": kind})
        how = "root" if kind == "root" else "%s(%r)" % (kind, arg)
        try:
            h1 = root if kind == "root" else derive(root, kind, arg, path, single_file, keep)
            counts["transitions"] += 0 if kind == "root" else 1
        except Exception as e:
            bad("derive_raised", "%s %s: %s: %s" % (ds, how, type(e).__name__, e))
            continue
        key = (idx, kind)
        if key not in seen:
            seen.add(key)
            counts["states"] += 1
            terminal(h1, idx, how)
        if kind == "root":
            continue
        # ---- level 2
        m = len(idx)
        # a handle opened on a file object cannot be pickled (the file object is not picklable): excluded
        second = [("copy", None)] if kind == "fileobj" else [("pickle", None), ("copy", None), ("deepcopy", None)]
        second += [("pick", i) for i in range(-m, m)]
        sl2 = slices_for(m)
        second += [("slice", w) for w in sl2.values()]
        for kind2, arg2 in second:
            if kind2 == "pick":
                idx2 = (idx[arg2],)
            elif kind2 == "slice":
                idx2 = tuple(idx[slice(*arg2)])
            else:
                idx2 = idx
            ctx.clear()
            ctx.update({"d1": kind, "d2": kind2})
            how2 = "%s.%s(%r)" % (how, kind2, arg2)
            try:
                h2 = derive(h1, kind2, arg2, path, single_file, keep)
                counts["transitions"] += 1
            except Exception as e:
                bad("derive_raised", "%s %s: %s: %s" % (ds, how2, type(e).__name__, e))
                continue
            key = (idx2, kind, kind2)
            if key in seen:
                continue
            seen.add(key)
            counts["states"] += 1
            terminal(h2, idx2, how2)
        # deriving must not disturb the parent
        ctx.clear()
        ctx.update({"d1": kind, "after": "derivations"})
        try:
            again = h1.to_pandas()
            if len(again) != len(rows_of(idx)):
                bad("parent_disturbed", "%s %s: after deriving handles the parent reads %d rows, had %d" % (ds, how, len(again), len(rows_of(idx))))
        except Exception as e:
            bad("parent_disturbed", "%s %s: parent read raises after derivations: %s" % (ds, how, e))
    for f in keep:
        try:
            f.close()
        except Exception:
            pass
    ok = not sigs
    return {"ok": ok, "outcome": "agree" if ok else "disagree", "nontrivial": counts["reads"] > 0,
            "counts": counts, "sig": list(sigs.values()) or None, "detail": detail[0]}


LEVEL_TEXT = ("Explicit-state exploration of the handle-derivation graph (all picks, all distinct slices incl. negative and "
              "out-of-range bounds and steps, pickle/copy/deepcopy/re-open/file-object, depth 2) on six datasets; in "
              "every reachable state the complete menu of terminal reads (all ordered column subsets, index modes, "
              "iteration variants, head(n) for every n, counts) is compared with the projection of a single full read - "
              "a differential oracle with no hand-written expected values.")
LEVEL_NOTE = ("Trusted: Python slicing semantics of range() as the model of row-group selection; pandas value extraction. "
              "States merged when they address the same row groups through the same kinds of derivation.")
TECHNIQUE = "explicit-state BFS over derived handles x exhaustive terminal reads, differential against the full read"
