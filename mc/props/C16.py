"""C16 - user key-value metadata is kept verbatim; in-place updates touch nothing else.

Explorer H: explicit-state breadth-first search over update sequences.  A state
is (file bytes, model dict); every transition re-creates the file from the
initial write and replays the history with the real update function, then checks
all invariants; states are de-duplicated on the file bytes.
"""
import hashlib

ID = "C16"
LEVEL = "model_checking"
FLAVOUR = "plain"
TIMEOUT = 300
RULE = ("BFS over histories: initial (file kind x initial key-value dict) then up to depth d update dicts from an "
        "alphabet built so that every footer-size delta -20..+20, +-130, +-20000 occurs (achieved deltas are "
        "recorded), plus add / remove(None) / remove-two / mixed / bytes-key / unicode operations; every "
        "transition executes fastparquet.update_file_custom_metadata on the real file; states hashed by file bytes; "
        "invariants evaluated in every state")
ASSUMPTIONS = ["specpq validator is the independent reader", "local files only (the API is documented as local-only)"]

FILL = "abcdefghijklmnopqrstuvwxyz0123456789"


def val(n, seed=0):
    return "".join(FILL[(i + seed) % 36] for i in range(n))


INITIALS = {
    "empty": {},
    "ascii": {"a": val(40), "b": "x"},
    "unicode": {"clé": "välue-中", "a": val(40)},
    "bytes": {b"bk": b"bv", "a": val(40)},
    "emptyval": {"e": "", "a": val(40)},
    "large": {"big": val(70000), "a": val(40)},
    "emptykey": {"": "under the empty key", "a": val(40)},
}
KINDS = ["data1", "data2", "meta"]


def operations(full):
    ops = []
    if full:
        for n in range(20, 61):
            ops.append({"a": val(n, 1)})                       # deltas -20..+20
    else:
        for n in (33, 37, 39, 40, 41, 48):
            ops.append({"a": val(n, 1)})                       # -7, -3, -1, 0, +1, +8
    ops.append({"a": val(169, 2)})                             # +130 (value +129, varint +1)
    ops.append({"a": val(20040, 3)})                           # +20000 and more
    ops.append({"a": None})                                    # remove
    ops.append({"zz": None})                                   # remove a missing key
    ops.append({"n1": "v"})                                    # add
    ops.append({"n1": None, "a": None})                        # remove two
    ops.append({"a": None, "b": None, "n2": "w" * 7})          # mixed
    ops.append({b"bk": b"other", "n3": "é"})                   # bytes key, unicode value
    ops.append({"a": val(40, 5), "b": None, "n1": val(9)})     # replace same length + remove + add
    ops.append({"big": "s"})                                   # shrink a large value
    ops.append({"": "e1"})                                     # add / replace the empty key
    ops.append({"": None, "b": "y"})                           # remove the empty key, add another
    return ops


def _enc(d):
    """JSON-able form of an update/initial dict (bytes marked)"""
    out = []
    for k, v in d.items():
        out.append([["b", k.decode("latin1")] if isinstance(k, bytes) else ["s", k],
                    None if v is None else (["b", v.decode("latin1")] if isinstance(v, bytes) else ["s", v])])
    return out


def _dec(lst):
    d = {}
    for k, v in lst:
        kk = k[1].encode("latin1") if k[0] == "b" else k[1]
        vv = None if v is None else (v[1].encode("latin1") if v[0] == "b" else v[1])
        d[kk] = vv
    return d


def explore(run, tier):
    depth = 3 if tier == "thorough" else 2
    seen = {}
    states = [0]
    transitions = [0]
    deltas = set()
    initial = []
    for kind in KINDS:
        for name in INITIALS:
            full = (kind, name) in (("data1", "ascii"), ("meta", "ascii")) or tier == "thorough"
            initial.append({"kind": kind, "init": name, "hist": [], "full": full})

    def on_result(point, res, submit):
        if res.get("outcome") in ("crash", "timeout", "harness_error"):
            return
        transitions[0] += 1 if point["hist"] else 0
        for d in res.get("deltas", []):
            deltas.add(d)
        key = res.get("state")
        if key is None or not res.get("ok"):
            return      # do not expand from a violating state
        dep = len(point["hist"])
        if key in seen and seen[key] <= dep:
            return          # already expanded from the same or a shorter history
        if key not in seen:
            states[0] += 1
        seen[key] = dep
        if dep >= depth:
            return
        # deeper levels use the reduced alphabet unless thorough
        full = point["full"] and (len(point["hist"]) == 0 or tier == "thorough")
        for op in operations(full):
            q = dict(point)
            q["hist"] = point["hist"] + [_enc(op)]
            submit(q)
    run.dynamic("kv-histories", initial, "run", on_result)
    run.extra["states"] = states[0]
    run.extra["transitions"] = transitions[0]
    run.extra["traces_validated_against_impl"] = transitions[0]
    run.extra["depth"] = depth
    run.extra["footer_deltas_achieved"] = sorted(deltas)


def crash_sig(point, res):
    return {"kind": point["kind"], "symptom": res["outcome"], "depth": len(point["hist"])}


# ------------------------------------------------------------------------- worker side
def _frame():
    import pandas as pd
    return pd.DataFrame({"x": [1, 2, 3, 4], "s": ["a", "b", None, "d"]})


def build(kind, init, d):
    """create the initial file; returns path of the file under test"""
    import os
    import fastparquet
    df = _frame()
    cm = dict(INITIALS[init])
    if kind in ("data1", "data2"):
        path = os.path.join(d, "f.parquet")
        fastparquet.write(path, df, custom_metadata=cm or None,
                          row_group_offsets=[0, 2] if kind == "data2" else None)
        return path
    dn = os.path.join(d, "ds")
    fastparquet.write(dn, df, file_scheme="hive", custom_metadata=cm or None, row_group_offsets=[0, 2])
    return os.path.join(dn, "_metadata")


def model_apply(model, upd):
    for k, v in upd.items():
        ks = k.decode() if isinstance(k, bytes) else k
        if v is None:
            model.pop(ks, None)
        else:
            model[ks] = v.decode() if isinstance(v, bytes) else v


def run(point):
    import os
    import fastparquet
    from mc.scratch import scratch
    from mc.specpq import file as F
    from mc import oracles as O
    d = scratch()
    kind = point["kind"]
    path = build(kind, point["init"], d)
    model = {}
    model_apply(model, INITIALS[point["init"]])
    data0 = open(path, "rb").read()
    p0 = F.read_footer(data0)
    fs0 = p0.footer_start
    schema0, rgs0 = p0.fmd["schema"], p0.fmd["row_groups"]
    pf0 = fastparquet.ParquetFile(path if kind != "meta" else os.path.dirname(path))
    rows0 = [O.series_to_list(pf0.to_pandas()[c]) for c in ("x", "s")]
    pandas_kv0 = [kv.get("value") for kv in (p0.fmd.get("key_value_metadata") or []) if kv["key"] == "pandas"]
    deltas = []
    sig = {"kind": kind}

    def bad(symptom, detail, **extra):
        s = dict(sig)
        s["symptom"] = symptom
        s.update(extra)
        return {"ok": False, "outcome": symptom, "nontrivial": True, "sig": s, "detail": detail,
                "deltas": deltas}

    prev_len = p0.footer_len
    last_delta = 0
    for i, enc in enumerate(point["hist"]):
        upd = _dec(enc)
        try:
            fastparquet.update_file_custom_metadata(path, upd)
        except Exception as e:
            return bad("update_raised", "update %d %r raised %s: %s" % (i, _short(upd), type(e).__name__, e),
                       exc=type(e).__name__)
        model_apply(model, upd)
        data = open(path, "rb").read()
        try:
            flen = int.from_bytes(data[-8:-4], "little")
        except Exception:
            flen = -1
        last_delta = flen - prev_len
        # the recorded delta is the one the implementation produced when the file is still parseable
        step = {"delta_class": _dclass(last_delta), "step": i}
        try:
            p = F.read_footer(data)
        except F.FormatError as e:
            # classify by the footer size the update should have produced
            want = _expected_delta(upd, model, prev_len)
            return bad("file_invalid", "after update %d %r: independent reader: %s" % (i, _short(upd), e), **step)
        deltas.append(last_delta)
        prev_len = p.footer_len
        if kind != "meta":
            try:
                pv = F.read_file(data)
                if pv.errors:
                    return bad("file_invalid", "after update %d: validator: %s" % (i, pv.errors[:2]), **step)
            except F.FormatError as e:
                return bad("file_invalid", "after update %d: %s" % (i, e), **step)
            if data[:fs0] != data0[:fs0]:
                return bad("data_bytes_changed", "bytes before the footer differ after update %d" % i, **step)
            if p.footer_start != fs0:
                return bad("footer_moved", "footer starts at %d, was %d" % (p.footer_start, fs0), **step)
        else:
            if data[:4] != b"PAR1" or p.footer_start != 4:
                return bad("file_invalid", "_metadata layout broken after update %d" % i, **step)
        if p.fmd["schema"] != schema0 or p.fmd["row_groups"] != rgs0:
            return bad("metadata_changed", "schema / row groups differ after update %d" % i, **step)
        kv = {}
        for e in p.fmd.get("key_value_metadata") or []:
            k = e["key"]
            if k in kv:
                return bad("duplicate_key", "key %r stored twice after update %d" % (k, i), **step)
            kv[k if isinstance(k, str) else k.decode("utf8", "replace")] = e.get("value")
        pk = kv.pop("pandas", None)
        if [pk] != pandas_kv0 and pandas_kv0:
            return bad("pandas_key_changed", "the pandas key changed after update %d" % i, **step)
        want = {k: v for k, v in model.items()}
        got = {k: (v if isinstance(v, str) else (v.decode("utf8", "replace") if v is not None else None)) for k, v in kv.items()}
        if got != want:
            return bad("kv_differs", "after update %d %r: stored %s, model %s" % (i, _short(upd), _short(got), _short(want)), **step)
        try:
            pf = fastparquet.ParquetFile(path if kind != "meta" else os.path.dirname(path), verify=True)
            kvm = dict(pf.key_value_metadata)
            kvm.pop("pandas", None)
            if kvm != want:
                return bad("kv_differs", "ParquetFile.key_value_metadata %s != model %s" % (_short(kvm), _short(want)),
                           via="api", **step)
            rows = [O.series_to_list(pf.to_pandas()[c]) for c in ("x", "s")]
        except Exception as e:
            return bad("reopen_raised", "after update %d: %s: %s" % (i, type(e).__name__, e), **step)
        if rows != rows0:
            return bad("data_changed", "to_pandas() differs after update %d" % i, **step)
    if not point["hist"]:
        # write-time metadata must come back verbatim
        pf = fastparquet.ParquetFile(path if kind != "meta" else os.path.dirname(path))
        kvm = dict(pf.key_value_metadata)
        kvm.pop("pandas", None)
        if kvm != model:
            return bad("kv_differs", "write-time metadata: read %s, given %s" % (_short(kvm), _short(model)), via="write")
    data = open(path, "rb").read()
    return {"ok": True, "outcome": "consistent", "nontrivial": True,
            "state": hashlib.sha256(data).hexdigest(), "deltas": deltas,
            "counts": {"updates": len(point["hist"])}}


def _dclass(d):
    if -7 <= d <= -1:
        return "shrink1-7"
    if d < -7:
        return "shrink>=8"
    if d == 0:
        return "same"
    return "grow"


def _expected_delta(upd, model, prev):
    return None


def _short(d):
    out = {}
    for k, v in d.items():
        out[k] = v if v is None or len(v) <= 12 else "%s..(%d)" % (v[:6], len(v))
    return out


LEVEL_TEXT = ("Explicit-state BFS (depth 2 quick / 3 thorough) over update histories on real files (1- and 2-row-group "
              "data files and a _metadata file) with an operation alphabet constructed to hit every footer-size delta "
              "in -20..+20 and +-130 / +-20000; after every transition the file is re-parsed by an independent strict "
              "reader and by ParquetFile(verify=True) and compared with a dict model; data bytes, schema and row "
              "groups must be untouched.")
LEVEL_NOTE = ("Trusted: specpq footer/file validator, dict model. States are merged only when the whole file is "
              "byte-identical, which is exact (same futures).")
TECHNIQUE = "explicit-state BFS over update histories on the real file, dict reference model, strict independent re-parse"
