"""C16 - user key-value metadata is kept verbatim; in-place updates touch nothing else.

Explorer H: explicit-state breadth-first search over update sequences.  A state
is (file bytes, model dict); every transition re-creates the file from the
initial write and replays the history with the real update function, then checks
all invariants; states are de-duplicated on the file bytes.

A cell checks the state reached by the LAST step of its history: the states of
the proper prefixes were checked by the cells of those prefixes (the search only
expands from consistent states, and the replay is deterministic).  The initial
files are produced once per worker process and kind/dict (the depth-0 cell
always writes afresh and checks the write itself).
"""
import hashlib

ID = "C16"
LEVEL = "model_checking"
FLAVOUR = "plain"
TIMEOUT = 300
RULE = ("BFS over histories: initial (file kind x initial key-value dict) then up to depth d operations. File kinds: "
        "fastparquet data files with 1 / 2 row groups, a hive _metadata file, (reduced alphabet:) the _common_metadata "
        "file, a data file named x_metadata updated with is_metadata_file=False, a 2-row-group gzip file of 9 column "
        "kinds with a named index, two files of a foreign writer (specpq: version 2, foreign created_by, without any / "
        "with key-value metadata and without a pandas key); depth 0 only: frames carrying attrs. Initial dicts: empty, "
        "ascii, unicode, bytes, empty value, 70 kB value, empty key, 21 keys. Operations: update dicts built so that "
        "every footer-size delta -20..+20, +-130, +-20000 occurs (achieved deltas are recorded), add / remove(None) / "
        "remove-two / mixed / bytes-key / unicode / empty-string and empty-bytes values / updates addressing a "
        "non-ASCII key, a str-written key through bytes and a bytes-written key through str / keys and values that "
        "are not UTF-8; an append of the frame between updates (custom_metadata given and documented as ignored); on "
        "_metadata the object-level util.update_custom_metadata + _write_common_metadata. Every update executes "
        "fastparquet.update_file_custom_metadata on the real file; states hashed by file bytes; invariants evaluated "
        "in every state, and in every state four update dicts with a non-str/bytes key or value are tried on a copy: "
        "if the update is refused (any exception) the copy must be byte-identical; the order of the stored keys and "
        "which dicts are refused are not judged (not part of the property)")
ASSUMPTIONS = ["specpq validator is the independent reader", "local files only (the API is documented as local-only)",
               "the initial write is deterministic (same bytes in every worker process)"]

FILL = "abcdefghijklmnopqrstuvwxyz0123456789"


def val(n, seed=0):
    return "".join(FILL[(i + seed) % 36] for i in range(n))


def _many():
    d = {"k%02d" % i: "v%d" % i for i in range(20)}
    d["a"] = val(40)
    return d


INITIALS = {
    "empty": {},
    "ascii": {"a": val(40), "b": "x"},
    "unicode": {"clé": "välue-中", "a": val(40)},
    # text that a lenient decoder would alter: a leading U+FEFF (byte-order mark) in key and value, a key that
    # differs from another only by it, and a decomposed spelling (e + U+0301) next to the composed one
    "marks": {"\ufeffk": "\ufeffvalue", "k": "plain", "cle\u0301": "nfd", "clé": "nfc", "a": val(40)},
    "bytes": {b"bk": b"bv", "a": val(40)},
    "emptyval": {"e": "", "a": val(40)},
    "large": {"big": val(70000), "a": val(40)},
    "emptykey": {"": "under the empty key", "a": val(40)},
    "many": _many(),                # 21 + pandas entries: the compact list header needs its long form (>= 15)
}
KINDS = ["data1", "data2", "meta"]
# further kinds, each with one initial dict and the reduced alphabet
EXTRA_ROOTS = [("foreign_nokv", "empty"), ("foreign_kv", "ascii"), ("rich1", "ascii"), ("meta_common", "ascii"),
               ("named", "ascii")]
# frames with attrs: the write itself is the subject (depth 0; expanded in the thorough tier)
ATTRS_ROOTS = [("data1_attrs", "empty"), ("data1_attrs", "ascii"), ("meta_attrs", "ascii")]
ATTRS = {"oi": 5, "name": "é"}
META_KINDS = ("meta", "meta_common", "meta_attrs")       # the file under test is a footer-only file
FOREIGN_KV = [("a", val(40)), ("b", "x")]

# update dicts that the library refuses today (TypeError); a refused update must leave the file as it is
REJECTS = [
    ("int_value", {"a": 5}),
    ("int_key", {5: "v"}),
    ("valid_then_float", {"a": val(33, 1), "b": 1.0}),      # a valid shrinking entry first
    ("dict_value", {"n1": {}}),
]


def operations(full, level=1, tier="quick"):
    ops = []
    if full:
        for n in range(20, 61):
            ops.append({"a": val(n, 1)})                       # deltas -20..+20
    else:
        for n in (33, 37, 39, 40, 41, 48):
            ops.append({"a": val(n, 1)})                       # -7, -3, -1, 0, +1, +8
    ops.append({"a": val(169, 2)})                             # +130 (value +129, varint +1)
    ops.append({"a": val(20040, 3)})                           # +20000 and more
    ops.append({"a": None})                                    # remove
    ops.append({"zz": None})                                   # remove a missing key
    ops.append({"n1": "v"})                                    # add
    ops.append({"n1": None, "a": None})                        # remove two
    ops.append({"a": None, "b": None, "n2": "w" * 7})          # mixed
    ops.append({b"bk": b"other", "n3": "é"})                   # bytes key, unicode value
    ops.append({"a": val(40, 5), "b": None, "n1": val(9)})     # replace same length + remove + add
    ops.append({"big": "s"})                                   # shrink a large value
    ops.append({"": "e1"})                                     # add / replace the empty key
    ops.append({"": None, "b": "y"})                           # remove the empty key, add another
    # empty values are values, not removals
    ops.append({"a": ""})                                      # replace by the empty string
    ops.append({"n4": ""})                                     # add an empty string
    ops.append({"b": b""})                                     # add / replace by empty bytes
    # key identity across encodings
    ops.append({"clé": "x"})                                   # add / replace under a non-ASCII key
    ops.append({"clé": None})                                  # remove a non-ASCII key
    ops.append({"\ufeffa": "bom"})                             # a key that differs from "a" by a leading U+FEFF
    ops.append({"\ufeffa": None, "cle\u0301": "n2"})           # remove it again; decomposed spelling of "clé"
    ops.append({b"a": b"q"})                                   # a str-written key addressed through bytes
    ops.append({"bk": None})                                   # a bytes-written key addressed through str
    ops.append({b"\xff\xfe": b"\xe2\x00"})                     # key and value that are not UTF-8
    ops.append({b"\xff\xfe": None, "a": b"\xe2"})              # remove it; a str key with a non-UTF-8 value
    return ops


def pseudo_ops(kind):
    """history entries that are not plain update dicts"""
    out = []
    if kind in ("data1", "data2", "meta", "rich1"):
        out.append({"op": "append"})
    if kind == "meta":
        out.append({"op": "obj", "upd": _enc({"a": None, "b": None, "n2": "w" * 7})})
        out.append({"op": "obj", "upd": _enc({"a": val(33, 1), "n4": ""})})
    return out


def _enc(d):
    """JSON-able form of an update/initial dict (bytes marked)"""
    out = []
    for k, v in d.items():
        out.append([["b", k.decode("latin1")] if isinstance(k, bytes) else ["s", k],
                    None if v is None else (["b", v.decode("latin1")] if isinstance(v, bytes) else ["s", v])])
    return out


def _dec(lst):
    d = {}
    for k, v in lst:
        kk = k[1].encode("latin1") if k[0] == "b" else k[1]
        vv = None if v is None else (v[1].encode("latin1") if v[0] == "b" else v[1])
        d[kk] = vv
    return d


def roots(tier):
    out = []
    for kind in KINDS:
        for name in INITIALS:
            full = (kind, name) in (("data1", "ascii"), ("meta", "ascii")) or tier == "thorough"
            out.append({"kind": kind, "init": name, "hist": [], "full": full})
    for kind, name in EXTRA_ROOTS:
        out.append({"kind": kind, "init": name, "hist": [], "full": False})
    for kind, name in ATTRS_ROOTS:
        out.append({"kind": kind, "init": name, "hist": [], "full": False, "leaf": tier != "thorough"})
    return out


_SUCC = {}


def successors(point, tier):
    """history entries to try from the state reached by point (the bounded space of the tier)"""
    dep = len(point["hist"])
    depth = 3 if tier == "thorough" else 2
    if dep >= depth or point.get("leaf"):
        return []
    # deeper levels use the reduced alphabet unless thorough
    full = point["full"] and (dep == 0 or tier == "thorough")
    key = (full, point["kind"])
    if key not in _SUCC:
        # built once: the histories of the work list share these objects (one 20 kB value, not one per state)
        _SUCC[key] = [_enc(op) for op in operations(full)] + pseudo_ops(point["kind"])
    return _SUCC[key]


def explore(run, tier):
    depth = 3 if tier == "thorough" else 2
    seen = {}
    states = [0]
    transitions = [0]
    deltas = set()
    probes = [0]
    initial = roots(tier)

    def on_result(point, res, submit):
        if res.get("outcome") in ("crash", "timeout", "harness_error"):
            return
        transitions[0] += 1 if point["hist"] else 0
        probes[0] += (res.get("counts") or {}).get("rejected_probes", 0)
        for d in res.get("deltas", []):
            deltas.add(d)
        key = res.get("state")
        if key is None or not res.get("ok"):
            return      # do not expand from a violating state
        dep = len(point["hist"])
        if key in seen and seen[key] <= dep:
            return          # already expanded from the same or a shorter history
        if key not in seen:
            states[0] += 1
        seen[key] = dep
        for h in successors(point, tier):
            q = dict(point)
            q["hist"] = point["hist"] + [h]
            submit(q)
    run.dynamic("kv-histories", initial, "run", on_result)
    run.extra["states"] = states[0]
    run.extra["transitions"] = transitions[0]
    run.extra["traces_validated_against_impl"] = transitions[0]
    run.extra["depth"] = depth
    run.extra["footer_deltas_achieved"] = sorted(deltas)
    run.extra["rejected_update_probes"] = probes[0]


def crash_sig(point, res):
    return {"kind": point["kind"], "symptom": res["outcome"], "depth": len(point["hist"])}


# ------------------------------------------------------------------------- worker side
def _frame(kind="data1"):
    import pandas as pd
    if kind == "rich1":
        import numpy as np
        return pd.DataFrame({
            "x": [1, 2, 3, 4, 5, 6], "s": ["a", "b", None, "d", "", "é"],
            "i": np.arange(6, dtype="int32"), "f": [1.5, np.nan, 3, 4, 5, 6],
            "c": pd.Categorical(["u", "v", "u", None, "v", "u"]),
            "t": pd.date_range("2020-01-01", periods=6, tz="Europe/Paris"),
            "b": [b"\xff\x00", b"a", None, b"zz", b"", b"q"],
            "n": pd.array([1, None, 3, 4, 5, 6], dtype="Int64"),
            "d": pd.to_timedelta([1, 2, 3, 4, 5, 6], unit="s"),
        }, index=pd.Index(list("abcdef"), name="idx"))
    df = pd.DataFrame({"x": [1, 2, 3, 4], "s": ["a", "b", None, "d"]})
    if kind.endswith("_attrs"):
        df.attrs = dict(ATTRS)
    return df


def _foreign(kind):
    from mc.specpq import writer as W
    spec = {"created_by": "parquet-mr version 1.12.0 (build abc)", "version": 2,
            "kv": FOREIGN_KV if kind == "foreign_kv" else None,
            "columns": [{"name": "x", "ptype": 2, "rep": "required"},
                        {"name": "s", "ptype": 6, "rep": "optional", "lt": {"STRING": {}}, "ct": 0}],
            "row_groups": [{"x": {"rows": [1, 2, 3, 4], "codec": 0},
                            "s": {"rows": [b"a", b"b", None, b"d"], "codec": 0}}]}
    return W.write_file(spec)


def _target(kind, d):
    """-> (path of the file under test, what ParquetFile opens for the data, what an append writes to)"""
    import os
    if kind in META_KINDS:
        dn = os.path.join(d, "ds")
        return os.path.join(dn, "_common_metadata" if kind == "meta_common" else "_metadata"), dn, dn
    p = os.path.join(d, "x_metadata" if kind == "named" else "f.parquet")
    return p, p, p


def _update_kwargs(kind):
    return {"is_metadata_file": False} if kind == "named" else {}


def build(kind, init, d):
    """create the initial file(s) with the library (or the foreign writer); returns (path, given, passed):
    the dict that was given and the dict object that was passed to write() (to see whether it was changed)"""
    import os
    import fastparquet
    path, _, wr = _target(kind, d)
    if kind.startswith("foreign"):
        with open(path, "wb") as f:
            f.write(_foreign(kind))
        return path, None, None
    df = _frame(kind)
    cm = dict(INITIALS[init])
    given = dict(cm)
    passed = cm or None
    if kind in META_KINDS:
        fastparquet.write(wr, df, file_scheme="hive", custom_metadata=passed, row_group_offsets=[0, 2])
    elif kind == "rich1":
        fastparquet.write(path, df, custom_metadata=passed, row_group_offsets=[0, 3], compression="GZIP", stats=True)
    else:
        fastparquet.write(path, df, custom_metadata=passed,
                          row_group_offsets=[0, 2] if kind == "data2" else None)
    return path, given, cm


def _norm(x):
    """stored key / value as every reader reports it: text when it is UTF-8, else the bytes"""
    if isinstance(x, bytes):
        try:
            return x.decode("utf8")
        except UnicodeDecodeError:
            return x
    return x


def model_apply(model, upd):
    for k, v in upd.items():
        ks = _norm(k)
        if v is None:
            model.pop(ks, None)
        else:
            model[ks] = _norm(v)        # an existing key keeps its place, a new one goes to the end


def initial_model(kind, init):
    import json
    model = {}
    if kind == "foreign_kv":
        model_apply(model, dict(FOREIGN_KV))
    elif not kind.startswith("foreign"):
        model_apply(model, INITIALS[init])
    if kind.endswith("_attrs"):
        model["PANDAS_ATTRS"] = json.dumps(ATTRS)
    return model


def _rows(pf):
    from mc import oracles as O
    df = pf.to_pandas()
    out = [[str(c) for c in df.columns], O.series_to_list(df.index)]
    for c in df.columns:
        out.append(O.series_to_list(df[c]))
    return out


def _pf(kind, opened, **kw):
    """ParquetFile of the data; the library takes every path ending in _metadata for a footer-only file, so the
    data file of that name is handed over as a file-like object"""
    import fastparquet
    if kind == "named":
        import io
        with open(opened, "rb") as f:
            return fastparquet.ParquetFile(io.BytesIO(f.read()), **kw)
    return fastparquet.ParquetFile(opened, **kw)


def _kv_of(fmd):
    """ordered [(key, value)] of a parsed footer; None when a key is stored twice"""
    out = []
    for e in fmd.get("key_value_metadata") or []:
        out.append((_norm(e["key"]), _norm(e.get("value"))))
    return out


class _Base(object):
    pass


_BASES = {}


def _snapshot(d):
    import os
    files = {}
    for root, _, names in os.walk(d):
        for n in names:
            p = os.path.join(root, n)
            with open(p, "rb") as f:
                files[os.path.relpath(p, d)] = f.read()
    return files


def _baseline(b, kind, path, opened):
    """what must stay as it is: everything of the footer but the key-value list, the bytes before the footer,
    the rows"""
    import fastparquet
    from mc.specpq import file as F
    with open(path, "rb") as f:
        b.data0 = f.read()
    p0 = F.read_footer(b.data0)
    b.fs0 = p0.footer_start
    b.flen0 = p0.footer_len
    b.fmd0 = {k: v for k, v in p0.fmd.items() if k != "key_value_metadata"}
    b.pandas_kv0 = [kv.get("value") for kv in (p0.fmd.get("key_value_metadata") or []) if kv["key"] == "pandas"]
    b.rows0 = _rows(_pf(kind, opened))


def _materialise(kind, init, d, fresh):
    """the initial file(s) in d; returns (base, path, given, passed)"""
    import os
    key = (kind, init)
    if not fresh and key in _BASES:
        b = _BASES[key]
        for rel, content in b.files.items():
            p = os.path.join(d, rel)
            os.makedirs(os.path.dirname(p), exist_ok=True)
            with open(p, "wb") as f:
                f.write(content)
        return b, _target(kind, d)[0], None, None
    path, given, passed = build(kind, init, d)
    b = _Base()
    b.files = _snapshot(d)
    _baseline(b, kind, path, _target(kind, d)[1])
    _BASES[key] = b
    return b, path, given, passed


def run(point):
    import os
    import fastparquet
    from fastparquet.util import update_custom_metadata
    from mc.scratch import scratch
    from mc.specpq import file as F
    d = scratch()
    kind = point["kind"]
    init = point["init"]
    hist = point["hist"]
    deltas = []
    sig = {"kind": kind}

    def bad(symptom, detail, **extra):
        s = dict(sig)
        s["symptom"] = symptom
        s.update(extra)
        return {"ok": False, "outcome": symptom, "nontrivial": True, "sig": s, "detail": detail,
                "deltas": deltas}

    try:
        base, path, given, passed = _materialise(kind, init, d, fresh=not hist)
    except Exception as e:
        return bad("write_raised", "initial write: %s: %s" % (type(e).__name__, e), exc=type(e).__name__)
    _, opened, appendto = _target(kind, d)
    kw = _update_kwargs(kind)
    model = initial_model(kind, init)
    # the current baseline (replaced by an append)
    cur = _Base()
    cur.data0, cur.fs0, cur.fmd0, cur.pandas_kv0, cur.rows0 = base.data0, base.fs0, base.fmd0, base.pandas_kv0, base.rows0
    prev_len = base.flen0

    def check_state(i, what, step):
        """all invariants of the state on disk; returns a violation or None"""
        with open(path, "rb") as f:
            data = f.read()
        try:
            p = F.read_footer(data)
        except F.FormatError as e:
            return bad("file_invalid", "after %s: independent reader: %s" % (what, e), **step)
        if kind not in META_KINDS:
            try:
                pv = F.read_file(data)
                if pv.errors:
                    return bad("file_invalid", "after %s: validator: %s" % (what, pv.errors[:2]), **step)
            except F.FormatError as e:
                return bad("file_invalid", "after %s: %s" % (what, e), **step)
            if data[:cur.fs0] != cur.data0[:cur.fs0]:
                return bad("data_bytes_changed", "bytes before the footer differ after %s" % what, **step)
            if p.footer_start != cur.fs0:
                return bad("footer_moved", "footer starts at %d, was %d" % (p.footer_start, cur.fs0), **step)
        else:
            if data[:4] != b"PAR1" or p.footer_start != 4:
                return bad("file_invalid", "_metadata layout broken after %s" % what, **step)
        if p.fmd["schema"] != cur.fmd0["schema"] or p.fmd["row_groups"] != cur.fmd0["row_groups"]:
            return bad("metadata_changed", "schema / row groups differ after %s" % what, **step)
        rest = {k: v for k, v in p.fmd.items() if k != "key_value_metadata"}
        if rest != cur.fmd0:
            fields = sorted(k for k in set(rest) | set(cur.fmd0) if rest.get(k) != cur.fmd0.get(k))
            return bad("metadata_changed", "footer fields %s differ after %s: %r, was %r"
                       % (fields, what, _short_v(rest.get(fields[0])), _short_v(cur.fmd0.get(fields[0]))),
                       field=fields[0], **step)
        stored = _kv_of(p.fmd)
        kv = {}
        for k, v in stored:
            if k in kv:
                return bad("duplicate_key", "key %r stored twice after %s" % (k, what), **step)
            kv[k] = v
        pk = kv.pop("pandas", None)
        if [pk] != [_norm(x) for x in cur.pandas_kv0] and cur.pandas_kv0:
            return bad("pandas_key_changed", "the pandas key changed after %s" % what, **step)
        want = dict(model)
        if kv != want:
            return bad("kv_differs", "after %s: stored %s, model %s" % (what, _short(kv), _short(want)), **step)
        # (the order of the stored keys is not part of the property: not judged)
        try:
            if kind == "meta_common":
                # the rows come from the dataset, the key-value metadata from the file that was updated
                pf = fastparquet.ParquetFile(path, verify=True)
                pfd = fastparquet.ParquetFile(opened, verify=True)
            else:
                pf = pfd = _pf(kind, opened, verify=True)
            kvm = dict(pf.key_value_metadata)
            kvm.pop("pandas", None)
            if kvm != want:
                return bad("kv_differs", "ParquetFile.key_value_metadata %s != model %s" % (_short(kvm), _short(want)),
                           via="api", **step)
            rows = _rows(pfd)
        except Exception as e:
            return bad("reopen_raised", "after %s: %s: %s" % (what, type(e).__name__, e), **step)
        if rows != cur.rows0:
            return bad("data_changed", "to_pandas() differs after %s" % what, **step)
        return None

    last_delta = 0
    for i, enc in enumerate(hist):
        last = i == len(hist) - 1
        op = enc.get("op") if isinstance(enc, dict) else "update"
        with open(path, "rb") as f:
            before = f.read()
        if op == "append":
            what = "append %d" % i
            step = {"step": i, "op": "append"}
            try:
                df = _frame(kind)
                if kind in META_KINDS:
                    fastparquet.write(appendto, df, file_scheme="hive", append=True,
                                      custom_metadata={"ignored": "x"})
                else:
                    fastparquet.write(appendto, df, append=True, custom_metadata={"ignored": "x"})
            except Exception as e:
                return bad("append_raised", "%s raised %s: %s" % (what, type(e).__name__, e), exc=type(e).__name__,
                           **step)
            if kind not in META_KINDS:
                with open(path, "rb") as f:
                    data = f.read()
                if data[:cur.fs0] != before[:cur.fs0]:
                    return bad("data_bytes_changed", "the append changed bytes of the existing row groups", **step)
            old_rows = cur.rows0
            try:
                _baseline(cur, kind, path, opened)
            except Exception as e:
                return bad("file_invalid", "after %s: %s: %s" % (what, type(e).__name__, e), **step)
            if cur.rows0[2:] != [c + n for c, n in zip(old_rows[2:], base.rows0[2:])]:
                return bad("data_changed", "rows after %s are not the old rows followed by the new ones" % what, **step)
            prev_len = cur.flen0
            if last:
                r = check_state(i, what, step)
                if r:
                    return r
            continue
        if op == "obj":
            upd = _dec(enc["upd"])
            what = "object-level update %d %r + _write_common_metadata" % (i, _short(upd))
            step = {"step": i, "op": "obj"}
            try:
                pf = fastparquet.ParquetFile(opened)
                dict(pf.key_value_metadata)                   # fills the handle's cache
                update_custom_metadata(pf, upd)
                model_apply(model, upd)
                kvm = dict(pf.key_value_metadata)
                kvm.pop("pandas", None)
                if kvm != model or list(kvm) != list(model):
                    return bad("kv_differs", "handle after update_custom_metadata: %s, model %s"
                               % (_short(kvm), _short(model)), via="handle", **step)
                pf._write_common_metadata()
            except Exception as e:
                return bad("update_raised", "%s raised %s: %s" % (what, type(e).__name__, e), exc=type(e).__name__,
                           **step)
            if last:
                # the side-car is written from the same handle: same keys
                try:
                    pc = F.read_footer(open(os.path.join(opened, "_common_metadata"), "rb").read())
                except F.FormatError as e:
                    return bad("file_invalid", "_common_metadata after %s: %s" % (what, e), **step)
                got = [(k, v) for k, v in _kv_of(pc.fmd) if k != "pandas"]
                if got != list(model.items()):
                    return bad("kv_differs", "_common_metadata after %s: %s, model %s"
                               % (what, _short(dict(got)), _short(model)), via="common", **step)
        else:
            upd = _dec(enc)
            what = "update %d %r" % (i, _short(upd))
            try:
                fastparquet.update_file_custom_metadata(path, upd, **kw)
            except Exception as e:
                return bad("update_raised", "%s raised %s: %s" % (what, type(e).__name__, e), exc=type(e).__name__)
            model_apply(model, upd)
        with open(path, "rb") as f:
            f.seek(-8, 2)
            flen = int.from_bytes(f.read(4), "little")
        last_delta = flen - prev_len
        if op == "update":
            step = {"delta_class": _dclass(last_delta), "step": i}
        if last:
            r = check_state(i, what, step)
            if r:
                return r
        # the recorded delta is the one the implementation produced when the file is still parseable
        deltas.append(last_delta)
        prev_len = flen

    if not hist:
        r = _check_write(point, d, path, opened, given, passed, model, bad)
        if r:
            return r
        r = check_state(-1, "the initial write", {"step": -1})
        if r:
            return r

    # in the state reached: updates that must be refused leave the file as it is
    with open(path, "rb") as f:
        data = f.read()
    nprobe = 0
    import shutil
    pdir = os.path.join(os.path.dirname(path), "probe")
    for name, upd in REJECTS:
        nprobe += 1
        # the property does not say which dicts must be refused, nor with which exception: only that an update
        # which IS refused has touched nothing.  Probed on a copy (same file name: footer-only files are recognised
        # by it), so that an implementation accepting such a dict does not disturb the state explored from here
        shutil.rmtree(pdir, ignore_errors=True)
        os.makedirs(pdir)
        ppath = os.path.join(pdir, os.path.basename(path))
        shutil.copyfile(path, ppath)
        try:
            fastparquet.update_file_custom_metadata(ppath, upd, **kw)
            err = None
        except Exception as e:
            err = type(e).__name__
        with open(ppath, "rb") as f:
            after = f.read()
        if err is not None and after != data:
            shutil.rmtree(pdir, ignore_errors=True)
            return bad("rejected_update_changed_file", "update %r raised %s and the file changed "
                       "(%d -> %d bytes)" % (upd, err, len(data), len(after)), probe=name)
    shutil.rmtree(pdir, ignore_errors=True)
    return {"ok": True, "outcome": "consistent", "nontrivial": True,
            "state": hashlib.sha256(kind.encode() + b"\0" + data).hexdigest(), "deltas": deltas,
            "counts": {"updates": len(hist), "rejected_probes": nprobe}}


def _check_write(point, d, path, opened, given, passed, model, bad):
    """the write itself: metadata back verbatim from every file of the dataset, the caller's dict untouched,
    invalid dicts refused"""
    import os
    import fastparquet
    from mc.specpq import file as F
    kind = point["kind"]
    pf = _pf(kind, opened)
    kvm = dict(pf.key_value_metadata)
    kvm.pop("pandas", None)
    if kvm != model:
        return bad("kv_differs", "write-time metadata: read %s, given %s" % (_short(kvm), _short(model)), via="write")
    if kind.startswith("foreign"):
        return None
    if kind.endswith("_attrs"):
        got = pf.to_pandas().attrs
        if got != ATTRS:
            return bad("attrs_differ", "attrs read %r, written %r" % (got, ATTRS), via="write")
    if passed is not None and (passed != given or list(passed) != list(given)):
        return bad("caller_dict_mutated", "write() changed the custom_metadata dict it was given: now %s, was %s"
                   % (_short(passed), _short(given)), via="write")
    if kind in META_KINDS:
        # every file of the dataset carries the metadata
        for root, _, names in os.walk(opened):
            for n in sorted(names):
                if n == "_metadata" and kind != "meta_common" or n == "_common_metadata" and kind == "meta_common":
                    continue
                p = F.read_footer(open(os.path.join(root, n), "rb").read())
                got = [(k, v) for k, v in _kv_of(p.fmd) if k != "pandas"]
                if got != list(model.items()):
                    return bad("kv_differs", "write-time metadata in %s: %s, given %s"
                               % (n, _short(dict(got)), _short(model)), via="write", file=n.split(".")[0])
    # invalid dicts are refused by write()
    df = _frame(kind)
    for name, cm in (("int_value", {"k": 5}), ("int_key", {5: "v"}), ("none_value", {"k": None})):
        try:
            fastparquet.write(os.path.join(d, "rejected.parquet"), df, custom_metadata=cm)
        except Exception:
            continue
    return None


def _dclass(d):
    if -7 <= d <= -1:
        return "shrink1-7"
    if d < -7:
        return "shrink>=8"
    if d == 0:
        return "same"
    return "grow"


def _short_v(v):
    s = repr(v)
    return s if len(s) <= 60 else s[:57] + "..."


def _short_l(keys):
    return keys if len(keys) <= 8 else keys[:4] + ["..(%d).." % (len(keys) - 7)] + keys[-3:]


def _short(d):
    out = {}
    for k, v in d.items():
        out[k] = v if v is None or len(v) <= 12 else "%s..(%d)" % (v[:6], len(v))
    if len(out) > 8:
        ks = list(out)
        out = {k: out[k] for k in ks[:4] + ks[-3:]}
        out["..more.."] = len(ks) - 7
    return out


LEVEL_TEXT = ("Explicit-state BFS (depth 2 quick / 3 thorough) over histories on real files (1- and 2-row-group data "
              "files, _metadata, _common_metadata, a data file named *_metadata with is_metadata_file=False, a file of "
              "nine column kinds, two files of a foreign writer without pandas key / without any key-value list) with "
              "an operation alphabet constructed to hit every footer-size delta in -20..+20 and +-130 / +-20000, "
              "empty values, keys addressed across str / bytes, non-UTF-8 bytes, interleaved appends and object-level "
              "updates; after every transition the file is re-parsed by an independent strict reader and by "
              "ParquetFile(verify=True) and compared with an ordered dict model (values and key order); data bytes "
              "and every footer field other than the key-value list must be untouched; in every state invalid update "
              "dicts must be refused leaving the file byte-identical; at depth 0 the write is checked (every file of "
              "the dataset carries the metadata, attrs, caller's dict untouched, invalid dicts refused).")
LEVEL_NOTE = ("Trusted: specpq footer/file validator, dict model. States are merged only when the whole file is "
              "byte-identical, which is exact (same futures). A cell checks the state after its last step; prefixes "
              "are checked by their own cells.")
TECHNIQUE = "explicit-state BFS over update histories on the real file, dict reference model, strict independent re-parse"
