"""C17 - metadata-only answers (columns, dtypes, counts) match the data actually read."""
import itertools

ID = "C17"
LEVEL = "exploration"
FLAVOUR = "plain"
TIMEOUT = 400
RULE = ("files x read options. Files: W = written by fastparquet (two columns of every kind pair from a 14-kind set, "
        "1-3 row groups, nulls placed in none / first / last row group only); F = foreign files from the specpq "
        "writer (optional/required INT32, INT64, BOOLEAN, DOUBLE, UTF8, dictionary-encoded, 1-3 row groups, nulls "
        "in none/first/middle/last row group only, chunk statistics present / absent / partly, v1/v2); H = hive "
        "datasets with 1-2 partition columns; I = frames written with a named index of 10 kinds (ints, floats, "
        "text, timestamps of several units and time zones, timedelta). Options: columns (None, each single, reversed), categories (None, "
        "list, dict), index (None, False, name of another column), pandas_nulls (True, False), dtypes override. Oracle: "
        "columns / dtypes / categories / cats / _get_index / count / num_rows / info versus the frame returned; "
        "non-trivial = a read that returned >= 1 row and was compared")
ASSUMPTIONS = ["dtype compared by kind + width + nullable-extension-ness + category-ness",
               "under pandas 3 the category dtype is read from the column's array (DataFrame.dtypes can be stale)"]

W_KINDS = ["bool", "int32", "int64", "uint8", "float64", "str_obj", "bytes_obj", "dt_ns", "dt_us_paris", "td_us",
           "cat_str", "cat_int", "Int64", "boolean"]
I_KINDS = ["int64", "float64", "str_obj", "dt_ns", "dt_us", "dt_ms", "dt_ns_utc", "dt_us_paris", "dt_ns_offset", "td_us"]
CREATED_BY = "parquet-mr version 1.12.3 (build f8dced182c4c1fbdec6ccb3185537b5a01e6ed6b)"


def points(tier):
    pts = []
    for k in W_KINDS:
        for nrg in (1, 2, 3):
            for where in ("none", "first", "last"):
                for ver in (1, 2):
                    pts.append({"f": "W", "kind": k, "nrg": nrg, "nulls_in": where, "v": ver})
    for t in ("int32", "int64", "bool", "double", "utf8", "int32_dict"):
        for rep in ("optional", "required"):
            for nrg in (1, 2, 3):
                for where in ("none", "first", "middle", "last"):
                    if rep == "required" and where != "none":
                        continue
                    if where == "middle" and nrg < 3:
                        continue
                    for st in ("all", "none", "first_only", "no_null_count"):
                        for ver in ((1, 2) if tier == "thorough" else (1,)):
                            pts.append({"f": "F", "type": t, "rep": rep, "nrg": nrg, "nulls_in": where,
                                        "stats": st, "v": ver})
    for nparts in (1, 2):
        for pk in ("int", "str", "float"):
            pts.append({"f": "H", "nparts": nparts, "pkind": pk})
    # I: frames written with a named index of every plain kind (incl. tz-aware / non-ns timestamps); the index comes
    # from the pandas metadata, is dropped (index=False) or another column is chosen (index=name)
    for k in I_KINDS:
        for nrg in (1, 2):
            pts.append({"f": "I", "kind": k, "nrg": nrg})
    return pts


def explore(run, tier):
    run.lattice("metadata-vs-read", points(tier), "run")


def crash_sig(point, res):
    s = {"f": point["f"], "symptom": res["outcome"]}
    for k in ("kind", "type", "rep", "stats", "nulls_in"):
        if k in point:
            s[k] = point[k]
    return s


# ------------------------------------------------------------------------------
def norm_dtype(x):
    """(kind, itemsize, masked, category) of a predicted or actual dtype"""
    import numpy as np
    import pandas as pd
    from mc import oracles as O
    if isinstance(x, str) and x == "category":
        return ("category", None, False)
    if isinstance(x, (float, np.floating)) and not isinstance(x, np.dtype):
        # a scalar instance used where a dtype is meant (np.float64()): its type is the intent
        x = np.dtype(type(x))
    try:
        dt = pd.api.types.pandas_dtype(x)
    except TypeError:
        return ("?", str(x), False)
    k = O.dtype_kind(dt)
    if k[0] == "category":
        return ("category", None, False)
    if k[0] in "Mm":
        # resolution and time zone both belong to the dtype
        return (k[0], "%s%s" % (k[2][0], ("," + str(k[2][1])) if k[2][1] else "") if k[2] else None, False)
    if k[0] == "O":
        return ("O", None, False)
    if k[0] in ("S", "U"):
        return ("O", None, False) if False else (k[0], k[1], False)
    return (k[0], k[1], bool(k[3]))


def actual_dtype(df, col):
    a = df[col].array.dtype
    a = getattr(a, "numpy_dtype", a) if type(a).__name__ == "NumpyEADtype" else a
    return a


class Cell:
    def __init__(self, p):
        self.p = p
        self.reads = 0
        self.sigs = {}
        self.detail = ""
        self.ctx = {}

    def bad(self, symptom, detail, **extra):
        s = {"f": self.p["f"], "symptom": symptom}
        for k in ("kind", "type", "rep", "stats", "nulls_in", "nrg", "pkind", "nparts"):
            if k in self.p:
                s[k] = self.p[k]
        s.update(self.ctx)
        s.update(extra)
        key = repr(sorted(s.items(), key=str))
        if key not in self.sigs:
            self.sigs[key] = s
            if not self.detail:
                self.detail = detail

    def result(self):
        ok = not self.sigs
        return {"ok": ok, "outcome": "agree" if ok else "disagree", "nontrivial": self.reads > 0,
                "counts": {"reads": self.reads}, "sig": list(self.sigs.values()) or None, "detail": self.detail}


def compare(c, pf_factory, what, datacols, partcols=(), index_names=()):
    """all option tuples on one dataset"""
    import numpy as np
    import pandas as pd
    allcols = list(datacols)
    col_opts = [None] + [[x] for x in allcols] + ([list(reversed(allcols))] if len(allcols) > 1 else [])
    for pn in (True, False):
        for cols in col_opts:
            for cats in ("none", "list", "dict"):
                for index in (None, False) + tuple(index_names):
                    if isinstance(index, str) and cols is not None and index not in cols:
                        continue
                    c.ctx = {"pandas_nulls": pn, "cols": "all" if cols is None else ("single" if len(cols) == 1 else "reversed"),
                             "categories": cats, "index": str(index)}
                    try:
                        pf = pf_factory(pn)
                    except Exception as e:
                        c.bad("open_raised", "%s: %s: %s" % (what, type(e).__name__, e))
                        return
                    known_cats = dict(pf.categories) if pf.categories else {}
                    if cats == "none":
                        carg = None
                    elif cats == "list":
                        carg = [k for k in known_cats if cols is None or k in cols]
                        if not carg:
                            continue
                    else:
                        carg = {k: v for k, v in known_cats.items() if cols is None or k in cols}
                        if not carg:
                            continue
                    # ---- metadata-only answers
                    try:
                        m_columns = list(pf.columns)
                        m_dtypes = dict(pf._dtypes(carg))
                        m_count = pf.count()
                        m_rg = [rg.num_rows for rg in pf.row_groups]
                        m_info = pf.info
                        m_index = pf._get_index()
                        m_cats = list(pf.cats)
                    except Exception as e:
                        c.bad("metadata_raised", "%s: %s: %s" % (what, type(e).__name__, e))
                        continue
                    # ---- the read
                    try:
                        df = pf.to_pandas(columns=cols, categories=carg, index=index)
                    except Exception as e:
                        c.bad("read_raised", "%s opts=%r: predicted dtypes %r; read raised %s: %s" % (
                            what, c.ctx, {k: str(v) for k, v in m_dtypes.items()}, type(e).__name__, str(e)[:120]),
                            exc=type(e).__name__)
                        continue
                    if len(df):
                        c.reads += 1
                    if m_count != len(df):
                        c.bad("count", "%s: count()=%d, rows read %d" % (what, m_count, len(df)))
                    if sum(m_rg) != len(df) or m_info["rows"] != len(df):
                        c.bad("count", "%s: row-group num_rows %r / info %r, rows read %d" % (what, m_rg, m_info["rows"], len(df)))
                    if m_info["columns"] != m_columns or m_info["partitions"] != m_cats:
                        c.bad("info", "%s: info %r disagrees with columns/cats" % (what, m_info))
                    want_cols = (cols if cols is not None else m_columns + m_cats)
                    got_cols = [str(x) for x in df.columns]
                    if index is None and m_index:
                        want_cols = [x for x in want_cols if x not in m_index]
                        if list(df.index.names) != list(m_index):
                            c.bad("index", "%s: _get_index()=%r, frame index names %r" % (what, m_index, list(df.index.names)))
                    if isinstance(index, str):
                        want_cols = [x for x in want_cols if x != index]
                        if list(df.index.names) != [index]:
                            c.bad("index", "%s: index=%r requested, frame index names %r" % (what, index, list(df.index.names)))
                    if index is not False and df.index.nlevels == 1 and df.index.name is not None \
                            and str(df.index.name) in m_dtypes:
                        # the index column's predicted dtype must be the dtype of the index actually built
                        idt = df.index.dtype
                        pred = norm_dtype(m_dtypes[str(df.index.name)])
                        act = norm_dtype(idt)
                        if pred != act:
                            c.bad("index_dtype", "%s opts=%r: index %s predicted %s %r, read gives %s %r" % (
                                what, c.ctx, df.index.name, m_dtypes[str(df.index.name)], pred, idt, act),
                                pred=str(pred[0]) + str(pred[1]), act=str(act[0]) + str(act[1]))
                    if got_cols != [str(x) for x in want_cols]:
                        c.bad("columns", "%s opts=%r: predicted columns %r, frame has %r" % (what, c.ctx, want_cols, got_cols))
                        continue
                    for col in got_cols:
                        if col not in m_dtypes:
                            c.bad("dtype_missing", "%s: no predicted dtype for %s" % (what, col))
                            continue
                        pred = norm_dtype(m_dtypes[col])
                        act = norm_dtype(actual_dtype(df, col))
                        if pred != act:
                            c.bad("dtype", "%s opts=%r: column %s predicted %s %r, read gives %s %r" % (
                                what, c.ctx, col, m_dtypes[col], pred, actual_dtype(df, col), act),
                                pred=str(pred[0]) + str(pred[1]) + ("m" if pred[2] else ""),
                                act=str(act[0]) + str(act[1]) + ("m" if act[2] else ""))
                    # per-row-group counts
                    try:
                        parts = [len(x) for x in pf.iter_row_groups(columns=cols, categories=carg, index=index)]
                        if parts != [n for n in m_rg if n]:
                            c.bad("count", "%s: iter_row_groups lengths %r, num_rows %r" % (what, parts, m_rg))
                    except Exception as e:
                        c.bad("iter_raised", "%s: iter_row_groups: %s: %s" % (what, type(e).__name__, str(e)[:100]))
    # dtypes override
    try:
        pf = pf_factory(True)
        col = [x for x in pf.columns if x not in (pf._get_index() or [])][0]
        base = pf.dtypes[col]
        k = norm_dtype(base)
        if k[0] in "iu" and not k[2]:
            import numpy as np
            over = dict(pf.dtypes)
            over[col] = np.dtype("float64")
            df = pf.to_pandas(dtypes=over)
            c.ctx = {"override": True}
            if col not in df.columns or norm_dtype(actual_dtype(df, col)) != ("f", 8, False):
                c.bad("dtype_override", "%s: dtypes={%s: float64} gave columns %r dtype %s" % (
                    what, col, list(df.columns), actual_dtype(df, col)))
    except Exception as e:
        c.ctx = {"override": True}
        c.bad("override_raised", "%s: dtypes override: %s: %s" % (what, type(e).__name__, str(e)[:100]))


def run(p):
    c = Cell(p)
    globals()["run_" + p["f"]](c, p)
    return c.result()


def _split_rows(n_per, nrg):
    return [(i * n_per, (i + 1) * n_per) for i in range(nrg)]


def run_W(c, p):
    import os
    import pandas as pd
    import fastparquet
    from mc import alphabets as A, wr
    from mc.scratch import scratch
    kind, nrg, where, ver = p["kind"], p["nrg"], p["nulls_in"], p["v"]
    if where != "none" and kind not in A.NULLABLE_KINDS:
        return
    if where == "last" and nrg == 1:
        return
    n_per = 3
    n = n_per * nrg
    s = A.series(kind, n, "none", 0, "a")
    if where != "none":
        tgt = 0 if where == "first" else n - 1
        s = s.copy()
        m = pd.Series([i == tgt for i in range(n)])
        s = s.where(~m) if not (kind[0] in "IU" or kind == "boolean") else s.mask(m)
        s.name = "a"
    other = A.series("int64", n, "none", 1, "b")
    df = pd.DataFrame({"a": s, "b": other})
    d = scratch()
    for scheme in ("simple", "hive"):
        path = os.path.join(d, "t.parquet" if scheme == "simple" else "ds")
        try:
            with wr.PageCfg(ver, None):
                fastparquet.write(path, df, row_group_offsets=[x[0] for x in _split_rows(n_per, nrg)],
                                  file_scheme=scheme, write_index=False)
        except Exception:
            return
        compare(c, lambda pn, path=path: fastparquet.ParquetFile(path, pandas_nulls=pn),
                "W %s nrg=%d nulls_in=%s v%d %s" % (kind, nrg, where, ver, scheme), ["a", "b"])


def run_I(c, p):
    import os
    import pandas as pd
    import fastparquet
    from mc import alphabets as A
    from mc.scratch import scratch
    kind, nrg = p["kind"], p["nrg"]
    n = 3 * nrg
    df = pd.DataFrame({"a": A.series("int64", n, "none", 1, "a"), "t": A.series(kind, n, "none", 2, "t"),
                       "s": A.series("str_obj", n, "none", 0, "s")})
    df.index = pd.Index(A.series(kind, n, "none", 0, "ix"), name="ix")
    d = scratch()
    path = os.path.join(d, "t.parquet")
    try:
        fastparquet.write(path, df, row_group_offsets=[3 * i for i in range(nrg)], write_index=True)
    except Exception:
        return
    compare(c, lambda pn, path=path: fastparquet.ParquetFile(path, pandas_nulls=pn),
            "I index kind %s nrg=%d" % (kind, nrg), ["ix", "a", "t", "s"], index_names=("t", "a"))


def run_F(c, p):
    import io
    import struct
    import fastparquet
    from mc.specpq import writer as W, file as F
    t, rep, nrg, where, st, ver = p["type"], p["rep"], p["nrg"], p["nulls_in"], p["stats"], p["v"]
    spec = {"int32": (1, None, [1, -2, 3]), "int64": (2, None, [1, -2, 2 ** 40]), "bool": (0, None, [True, False, True]),
            "double": (5, None, [1.5, -2.0, 0.0]), "utf8": (6, 0, [b"a", b"bb", b""]),
            "int32_dict": (1, None, [7, 8, 7])}[t]
    ptype, ct, vals = spec
    col = {"name": "x", "ptype": ptype, "rep": rep, "ct": ct}
    col2 = {"name": "y", "ptype": 2, "rep": "required"}
    rgs = []
    for gi in range(nrg):
        rows = list(vals)
        has_null = (where == "first" and gi == 0) or (where == "last" and gi == nrg - 1) or (where == "middle" and gi == 1)
        if has_null:
            rows[1] = None
        chunk = {"rows": rows, "codec": 0, "pages": [{"n": 3, "enc": "RLE_DICTIONARY" if t.endswith("_dict") else "PLAIN", "v": ver}]}
        if t.endswith("_dict"):
            chunk["dictionary"] = [7, 8]
        nulls = sum(1 for r in rows if r is None)
        with_stats = st == "all" or (st == "first_only" and gi == 0) or st == "no_null_count"
        if with_stats:
            chunk["stats"] = {} if st == "no_null_count" else {"null_count": nulls}
            if ptype in (1, 2):
                nn = [r for r in rows if r is not None]
                fmt = "<i" if ptype == 1 else "<q"
                chunk["stats"]["min"] = struct.pack(fmt, min(nn))
                chunk["stats"]["max"] = struct.pack(fmt, max(nn))
        rgs.append({"x": chunk, "y": {"rows": [gi * 10 + 1, gi * 10 + 2, gi * 10 + 3], "codec": 0,
                                      "stats": {"null_count": 0}}})
    data = W.write_file({"created_by": CREATED_BY, "columns": [col, col2], "row_groups": rgs})
    compare(c, lambda pn: fastparquet.ParquetFile(io.BytesIO(data), pandas_nulls=pn),
            "F %s %s nrg=%d nulls_in=%s stats=%s v%d" % (t, rep, nrg, where, st, ver), ["x", "y"])


def run_H(c, p):
    import os
    import pandas as pd
    import fastparquet
    from mc.scratch import scratch
    nparts, pk = p["nparts"], p["pkind"]
    keys = {"int": [1, 2, 1, 2, 3, 1], "str": ["a", "b", "a", "b", "c", "a"], "float": [0.5, 1.5, 0.5, 1.5, 2.5, 0.5]}[pk]
    df = pd.DataFrame({"v": [1, 2, 3, 4, 5, 6], "s": ["q", "w", None, "r", "t", "y"], "p1": keys})
    parts = ["p1"]
    if nparts == 2:
        df["p2"] = ["x", "x", "y", "y", "x", "y"]
        parts.append("p2")
    d = scratch()
    path = os.path.join(d, "ds")
    fastparquet.write(path, df, file_scheme="hive", partition_on=parts, write_index=False, row_group_offsets=[0, 3])
    compare(c, lambda pn: fastparquet.ParquetFile(path, pandas_nulls=pn), "H parts=%r %s" % (parts, pk), ["v", "s"], parts)


LEVEL_TEXT = ("Bounded-exhaustive lattice of files (written by the library for 14 column kinds x row-group counts x "
              "position of the nulls; foreign files from a spec-level writer with every combination of nullability, "
              "null position across row groups and statistics presence; hive datasets) x read options (column "
              "selections, categories as list/dict/None, index, pandas_nulls, dtypes override); every metadata-only "
              "answer is compared with the frame the real read returns.")
LEVEL_NOTE = ("Trusted: pandas dtype introspection, specpq writer for the foreign files. Two data columns per file; "
              "three rows per row group.")
TECHNIQUE = "bounded exhaustive enumeration of files x read options, metadata-only predictions vs the real read"
