"""C17 - metadata-only answers (columns, dtypes, counts) match the data actually read."""
import itertools

ID = "C17"
LEVEL = "exploration"
FLAVOUR = "plain"
TIMEOUT = 400
RULE = ("files x read options x short handle histories. Files: W = written by fastparquet (two columns, the first of "
        "17 kinds (all kinds of the alphabet in thorough), 1-3 row groups, nulls placed in none / first / last row "
        "group only; timestamp kinds also with times='int96'); F = foreign files from the specpq writer "
        "(optional/required INT32, INT64, BOOLEAN, DOUBLE, UTF8, dictionary-encoded INT32 / UTF8, INT_8, UINT_8, "
        "UINT_64, TIMESTAMP_MILLIS, INT96, FLOAT; 1-3 row groups, nulls in none/first/middle/last row group only, "
        "chunk statistics present / absent / partly / without null count, v1/v2; column layouts x,y / y,x / map,x,y "
        "so that the schema position of the nullable column differs from its chunk position); P = foreign files "
        "WITH pandas metadata in the pyarrow style (nullable ints with the two type fields either way round, "
        "numpy ints that do hold NULLs, time zones spelled three ways, range / unnamed / named index, categoricals "
        "with and without a plain-encoded fallback row group); H = hive datasets with 1-2 partition columns; "
        "I = frames written with a named index of 14 kinds (ints, floats, text, bool, masked, categorical, "
        "timestamps of several units and time zones, timedelta; with and without a missing value in the index; also the zero-row slice pf[:0] of such a file and the file written from zero rows); "
        "I2 = frames written with a two-level index; W2 = two categorical columns with the same number of labels and different order flags. Options: columns (None, each single, reversed; on hive datasets also selections naming the partition columns before / between / after data columns and in reversed level order), categories "
        "(None, list, dict, [] and {} = decline the stored categoricals; list / dict also on dictionary-encoded "
        "foreign columns), index (None, False, name of another data or partition column, list of two names), "
        "pandas_nulls (True, False), dtypes override (per column int -> float64 / masked int, masked -> float64; "
        "through to_pandas(dtypes=) and through the constructor). Histories: one handle used for two reads with "
        "different options (a changed option followed by the default read; every ordered pair in "
        "thorough) against a fresh handle. Oracle: columns / dtypes / categories / cats / _get_index / count / "
        "num_rows / info / the order flag of categoricals in the pandas metadata versus the frame returned, versus every frame of iter_row_groups, versus head(), and "
        "versus the predictions and counts of every sliced handle pf[i]; non-trivial = a read that returned >= 1 row and was "
        "compared")
ASSUMPTIONS = ["dtype compared by kind + width + nullable-extension-ness + category-ness",
               "under pandas 3 the category dtype is read from the column's array (DataFrame.dtypes can be stale)",
               "levels of a multi-level index are compared by name and count only (fastparquet stores them as "
               "categoricals and rebuilds the levels from the dictionaries)",
               "asking for a category of a column that has no dictionary is a usage error and not enumerated",
               "a dtypes override names every column (the library has no documented meaning for a partial mapping)"]

W_KINDS = ["bool", "int32", "int64", "uint8", "float64", "str_obj", "bytes_obj", "dt_ns", "dt_us_paris", "td_us",
           "cat_str", "cat_int", "Int64", "boolean"]
W_KINDS_MORE = ["float32", "UInt8", "cat_str_ordered"]
W_INT96 = ["dt_ns", "dt_us_paris"]
I_KINDS = ["int64", "float64", "str_obj", "dt_ns", "dt_us", "dt_ms", "dt_ns_utc", "dt_us_paris", "dt_ns_offset", "td_us"]
I_KINDS_MORE = ["bool", "Int64", "boolean", "cat_str"]
I_INT96 = ["dt_us_paris"]
I2_PAIRS = [("int64", "str_obj"), ("Int64", "cat_str"), ("dt_us_paris", "float64")]
F_TYPES = ["int32", "int64", "bool", "double", "utf8", "int32_dict"]
F_TYPES_SCAN = ["int8", "uint8", "uint64"]          # the null scan decides: statistics matter
F_TYPES_PLAIN = ["utf8_dict", "ts_millis", "int96", "float"]   # never promoted: one statistics setting
F_LAYOUT_TYPES = ["int32", "bool"]
P_CASES = ["Int64_arrow", "Int64_swapped", "int64_md_nulls", "bool_md_nulls", "object_md_nulls", "tz_ns", "tz_us",
           "tz_us_full", "tz_index", "range_index", "unnamed_index", "named_index", "cat_dict", "cat_fallback"]
CREATED_BY = "parquet-mr version 1.12.3 (build f8dced182c4c1fbdec6ccb3185537b5a01e6ed6b)"
CREATED_BY_ARROW = "parquet-cpp-arrow version 14.0.1"


def points(tier):
    from mc import alphabets as A
    thorough = tier == "thorough"
    pts = []
    wk = W_KINDS + W_KINDS_MORE
    if thorough:
        wk = wk + [k for k in A.ALL_KINDS if k not in wk]
    for k in wk:
        for nrg in (1, 2, 3):
            for where in ("none", "first", "last"):
                for ver in (1, 2):
                    if k not in W_KINDS and ver == 2 and not thorough:
                        continue
                    pts.append({"f": "W", "kind": k, "nrg": nrg, "nulls_in": where, "v": ver})
    for k in ([x for x in A.ALL_KINDS if x.startswith("dt_")] if thorough else W_INT96):
        for where in ("none", "first"):
            pts.append({"f": "W", "kind": k, "nrg": 2, "nulls_in": where, "v": 1, "times": "int96"})

    def f_points(t, stats, layouts, versions):
        for rep in ("optional", "required"):
            for nrg in (1, 2, 3):
                for where in ("none", "first", "middle", "last"):
                    if rep == "required" and where != "none":
                        continue
                    if where == "middle" and nrg < 3:
                        continue
                    for st in stats:
                        for ver in versions:
                            for lay in layouts:
                                p = {"f": "F", "type": t, "rep": rep, "nrg": nrg, "nulls_in": where,
                                     "stats": st, "v": ver}
                                if lay != "xy":
                                    p["layout"] = lay
                                pts.append(p)
    all_stats = ("all", "none", "first_only", "no_null_count")
    vers = (1, 2) if thorough else (1,)
    for t in F_TYPES:
        f_points(t, all_stats, ("xy",), vers)
    for t in F_LAYOUT_TYPES:
        # the nullable column second, and behind a column that owns two chunks
        f_points(t, all_stats if thorough else ("all", "none"), ("yx", "mxy"), vers)
    for t in F_TYPES_SCAN:
        f_points(t, all_stats if thorough else ("all", "none"), ("xy",), vers)
    for t in F_TYPES_PLAIN:
        f_points(t, ("all",), ("xy",), vers)
    for case in P_CASES:
        for nrg in (1, 2):
            pts.append({"f": "P", "case": case, "nrg": nrg})
    for nparts in (1, 2):
        for pk in ("int", "str", "float"):
            pts.append({"f": "H", "nparts": nparts, "pkind": pk})
    # I: frames written with a named index of every plain kind (incl. tz-aware / non-ns timestamps); the index comes
    # from the pandas metadata, is dropped (index=False) or another column is chosen (index=name)
    for k in I_KINDS + I_KINDS_MORE:
        for nrg in (1, 2):
            pts.append({"f": "I", "kind": k, "nrg": nrg})
            if k in A.NULLABLE_KINDS and (k in I_KINDS_MORE or nrg == 2 or thorough):
                pts.append({"f": "I", "kind": k, "nrg": nrg, "ixnull": True})
    for k in ([x for x in I_KINDS if x.startswith("dt_")] if thorough else I_INT96):
        pts.append({"f": "I", "kind": k, "nrg": 2, "times": "int96"})
    for a, b in I2_PAIRS:
        for nrg in (1, 2):
            pts.append({"f": "I2", "kinds": a + "+" + b, "nrg": nrg})
    # W2: two categorical columns with the same number of labels and different order flags (either way round)
    for first_ordered in (True, False):
        for nrg in (1, 2):
            pts.append({"f": "W2", "first_ordered": first_ordered, "nrg": nrg})
    for p in pts:
        p["tier"] = tier
    return pts


def explore(run, tier):
    run.lattice("metadata-vs-read", points(tier), "run")


SIG_KEYS = ("kind", "type", "rep", "stats", "nulls_in", "nrg", "pkind", "nparts", "layout", "case", "times", "ixnull",
            "kinds")


def crash_sig(point, res):
    s = {"f": point["f"], "symptom": res["outcome"]}
    for k in ("kind", "type", "rep", "stats", "nulls_in", "layout", "case", "times", "ixnull", "kinds"):
        if k in point:
            s[k] = point[k]
    return s


# ------------------------------------------------------------------------------
def norm_dtype(x):
    """(kind, itemsize, masked, category) of a predicted or actual dtype"""
    import numpy as np
    import pandas as pd
    from mc import oracles as O
    if isinstance(x, str) and x == "category":
        return ("category", None, False)
    if isinstance(x, (float, np.floating)) and not isinstance(x, np.dtype):
        # a scalar instance used where a dtype is meant (np.float64()): its type is the intent
        x = np.dtype(type(x))
    try:
        dt = pd.api.types.pandas_dtype(x)
    except TypeError:
        return ("?", str(x), False)
    k = O.dtype_kind(dt)
    if k[0] == "category":
        return ("category", None, False)
    if k[0] in "Mm":
        # resolution and time zone both belong to the dtype
        return (k[0], "%s%s" % (k[2][0], ("," + str(k[2][1])) if k[2][1] else "") if k[2] else None, False)
    if k[0] == "O":
        return ("O", None, False)
    if k[0] in ("S", "U"):
        return ("O", None, False) if False else (k[0], k[1], False)
    return (k[0], k[1], bool(k[3]))


def actual_dtype(df, col):
    a = df[col].array.dtype
    a = getattr(a, "numpy_dtype", a) if type(a).__name__ == "NumpyEADtype" else a
    return a


def _dts(n):
    return str(n[0]) + str(n[1]) + ("m" if n[2] else "")


class Cell:
    def __init__(self, p):
        self.p = p
        self.reads = 0
        self.sigs = {}
        self.detail = ""
        self.ctx = {}

    def bad(self, symptom, detail, **extra):
        s = {"f": self.p["f"], "symptom": symptom}
        for k in SIG_KEYS:
            if k in self.p:
                s[k] = self.p[k]
        s.update(self.ctx)
        s.update(extra)
        key = repr(sorted(s.items(), key=str))
        if key not in self.sigs:
            self.sigs[key] = s
            if not self.detail:
                self.detail = detail

    def result(self):
        ok = not self.sigs
        return {"ok": ok, "outcome": "agree" if ok else "disagree", "nontrivial": self.reads > 0,
                "counts": {"reads": self.reads}, "sig": list(self.sigs.values()) or None, "detail": self.detail}


def _index_list(index):
    if isinstance(index, str):
        return [index]
    if isinstance(index, (list, tuple)):
        return list(index)
    return None


def _shown_names(names):
    import re
    return [None if (n is None or re.match(r"__index_level_\d+__$", str(n))) else n for n in names]


def _cat_arg(mode, pf, cols, dict_cols):
    """categories argument of one mode, or the marker 'skip'"""
    known = dict(pf.categories) if pf.categories else {}
    if not known and dict_cols:
        known = dict(dict_cols)
    avail = {k: v for k, v in known.items() if cols is None or k in cols}
    if mode == "none":
        return None
    if not avail:
        return "skip"
    if mode == "list":
        return list(avail)
    if mode == "dict":
        return avail
    # decline the stored categoricals: the columns come back with their value type
    if not pf.categories:
        return "skip"
    return [] if mode == "empty_list" else {}


def predict(pf, carg):
    """the metadata-only answers of one handle"""
    return {"columns": list(pf.columns), "dtypes": dict(pf._dtypes(carg)), "count": pf.count(),
            "rg": [rg.num_rows for rg in pf.row_groups], "info": pf.info, "index": pf._get_index(),
            "cats": list(pf.cats)}


def check_read(c, pf, what, cols, carg, index, m, parts=True):
    """read with the options and compare every metadata-only answer in m with the frame; -> frame or None"""
    m_columns, m_dtypes, m_count, m_rg, m_info, m_index, m_cats = (
        m["columns"], m["dtypes"], m["count"], m["rg"], m["info"], m["index"], m["cats"])
    ilist = _index_list(index)
    iarg = list(index) if isinstance(index, tuple) else index
    try:
        df = pf.to_pandas(columns=cols, categories=carg, index=iarg)
    except Exception as e:
        c.bad("read_raised", "%s opts=%r: predicted dtypes %r; read raised %s: %s" % (
            what, c.ctx, {k: str(v) for k, v in m_dtypes.items()}, type(e).__name__, str(e)[:120]),
            exc=type(e).__name__)
        return None
    if len(df):
        c.reads += 1
    if m_count != len(df):
        c.bad("count", "%s: count()=%d, rows read %d" % (what, m_count, len(df)))
    if sum(m_rg) != len(df) or m_info["rows"] != len(df):
        c.bad("count", "%s: row-group num_rows %r / info %r, rows read %d" % (what, m_rg, m_info["rows"], len(df)))
    if m_info["columns"] != m_columns or m_info["partitions"] != m_cats:
        c.bad("info", "%s: info %r disagrees with columns/cats" % (what, m_info))
    if m_info.get("row_groups") != len(m_rg):
        c.bad("info", "%s: info %r disagrees with the number of row groups %d" % (what, m_info, len(m_rg)))
    want_cols = (cols if cols is not None else m_columns + m_cats)
    got_cols = [str(x) for x in df.columns]
    eff_index = []
    if index is None and m_index:
        eff_index = list(m_index)
        want_cols = [x for x in want_cols if x not in m_index]
        if list(df.index.names) != _shown_names(m_index):
            c.bad("index", "%s: _get_index()=%r, frame index names %r" % (what, m_index, list(df.index.names)))
    if ilist is not None:
        eff_index = ilist
        want_cols = [x for x in want_cols if x not in ilist]
        if list(df.index.names) != ilist:
            c.bad("index", "%s: index=%r requested, frame index names %r" % (what, index, list(df.index.names)))
    if eff_index and df.index.nlevels != len(eff_index):
        c.bad("index", "%s opts=%r: %d index columns announced, the frame index has %d level(s)" % (
            what, c.ctx, len(eff_index), df.index.nlevels))
    if not eff_index and (df.index.nlevels != 1 or type(df.index).__name__ != "RangeIndex"):
        c.bad("index", "%s opts=%r: no index column announced, the frame index is %s %r" % (
            what, c.ctx, type(df.index).__name__, list(df.index.names)))
    ipred = None
    if len(eff_index) == 1 and df.index.nlevels == 1 and eff_index[0] in m_dtypes:
        # the index column's predicted dtype must be the dtype of the index actually built
        idt = df.index.dtype
        ipred = norm_dtype(m_dtypes[eff_index[0]])
        act = norm_dtype(idt)
        if ipred != act:
            c.bad("index_dtype", "%s opts=%r: index %s predicted %s %r, read gives %s %r" % (
                what, c.ctx, eff_index[0], m_dtypes[eff_index[0]], ipred, idt, act),
                pred=str(ipred[0]) + str(ipred[1]), act=str(act[0]) + str(act[1]))
    if got_cols != [str(x) for x in want_cols]:
        c.bad("columns", "%s opts=%r: predicted columns %r, frame has %r" % (what, c.ctx, want_cols, got_cols))
        return df
    # the order flag of a categorical is announced by the pandas metadata
    try:
        announced = {str(x["name"]): (x.get("metadata") or {}).get("ordered")
                     for x in ((pf.pandas_metadata or {}).get("columns") or []) if x.get("pandas_type") == "categorical"}
    except Exception:
        announced = {}
    for col in got_cols:
        adt = actual_dtype(df, col)
        if announced.get(col) is not None and hasattr(adt, "ordered") and bool(adt.ordered) != bool(announced[col]):
            c.bad("ordered_flag", "%s opts=%r: categorical %s announced ordered=%s, read gives ordered=%s" % (
                what, c.ctx, col, announced[col], adt.ordered), col=col)
    for col in got_cols:
        if col not in m_dtypes:
            c.bad("dtype_missing", "%s: no predicted dtype for %s" % (what, col))
            continue
        pred = norm_dtype(m_dtypes[col])
        act = norm_dtype(actual_dtype(df, col))
        if pred != act:
            c.bad("dtype", "%s opts=%r: column %s predicted %s %r, read gives %s %r" % (
                what, c.ctx, col, m_dtypes[col], pred, actual_dtype(df, col), act),
                pred=_dts(pred), act=_dts(act))
    if not parts:
        return df
    # per-row-group counts, and every row-group frame against the same predictions (a task graph is built from
    # the predictions of the whole dataset and executed row group by row group)
    try:
        frames = list(pf.iter_row_groups(columns=cols, categories=carg, index=iarg))
        lens = [len(x) for x in frames]
        if lens != [n for n in m_rg if n]:
            c.bad("count", "%s: iter_row_groups lengths %r, num_rows %r" % (what, lens, m_rg))
        for gi, part in enumerate(frames):
            pcols = [str(x) for x in part.columns]
            if pcols != got_cols or list(part.index.names) != list(df.index.names):
                c.bad("rg_columns", "%s opts=%r: row-group frame %d has columns %r index %r, the whole read %r %r" % (
                    what, c.ctx, gi, pcols, list(part.index.names), got_cols, list(df.index.names)))
                continue
            for col in pcols:
                if col not in m_dtypes:
                    continue
                pred = norm_dtype(m_dtypes[col])
                act = norm_dtype(actual_dtype(part, col))
                if pred != act:
                    c.bad("rg_dtype", "%s opts=%r: column %s predicted %s, row-group frame %d of %d gives %s" % (
                        what, c.ctx, col, m_dtypes[col], gi, len(frames), actual_dtype(part, col)),
                        pred=_dts(pred), act=_dts(act))
            if ipred is not None and part.index.nlevels == 1 and norm_dtype(part.index.dtype) != ipred:
                act = norm_dtype(part.index.dtype)
                c.bad("rg_index_dtype", "%s opts=%r: index %s predicted %s, row-group frame %d gives %s" % (
                    what, c.ctx, eff_index[0], m_dtypes[eff_index[0]], gi, part.index.dtype),
                    pred=str(ipred[0]) + str(ipred[1]), act=str(act[0]) + str(act[1]))
    except Exception as e:
        c.bad("iter_raised", "%s: iter_row_groups: %s: %s" % (what, type(e).__name__, str(e)[:100]))
    return df


def _same_prediction(a, b):
    """two predictions (dicts of predict()) say the same"""
    if a["columns"] != b["columns"] or a["index"] != b["index"] or a["cats"] != b["cats"] or a["count"] != b["count"]:
        return False
    if list(a["dtypes"]) != list(b["dtypes"]):
        return False
    return all(norm_dtype(a["dtypes"][k]) == norm_dtype(b["dtypes"][k]) for k in a["dtypes"])


def compare(c, pf_factory, what, datacols, partcols=(), index_names=(), dict_cols=None, extras=True):
    """all option tuples on one dataset; extras: also the handle histories and the override sweep (the thorough tier
    runs them on every dataset, the quick tier where the caller says so)"""
    import numpy as np
    import pandas as pd
    thorough = c.p.get("tier") == "thorough"
    allcols = list(datacols)
    col_opts = [None] + [[x] for x in allcols] + ([list(reversed(allcols))] if len(allcols) > 1 else [])
    if partcols:
        # partition columns named in the selection: before / between / after the data columns, and in an order
        # other than that of the directory levels
        pc = list(partcols)
        col_opts += [[pc[0], allcols[0]], [allcols[0], pc[0]], [pc[0]], [allcols[-1]] + pc[::-1] + allcols[:1]]
        if len(pc) > 1:
            col_opts += [pc[::-1], [pc[1], allcols[0], pc[0]]]
    for pn in (True, False):
        for cols in col_opts:
            for cats in ("none", "list", "dict", "empty_list") + (("empty_dict",) if thorough or cols is None else ()):
                for index in (None, False) + tuple(index_names):
                    ilist = _index_list(index)
                    if ilist is not None and cols is not None and any(i not in cols for i in ilist):
                        continue
                    c.ctx = {"pandas_nulls": pn, "cols": "all" if cols is None else ("with_partition" if any(x in partcols for x in cols) else
                                                                   "single" if len(cols) == 1 else "reversed"),
                             "categories": cats, "index": str(index)}
                    if ilist is not None and any(i in partcols for i in ilist):
                        c.ctx["index_is"] = "partition"
                    if isinstance(index, tuple):
                        c.ctx["index"] = "+".join(index)
                    try:
                        pf = pf_factory(pn)
                    except Exception as e:
                        c.bad("open_raised", "%s: %s: %s" % (what, type(e).__name__, e))
                        return
                    carg = _cat_arg(cats, pf, cols, dict_cols)
                    if isinstance(carg, str):
                        continue
                    # ---- metadata-only answers
                    try:
                        m = predict(pf, carg)
                    except Exception as e:
                        c.bad("metadata_raised", "%s: %s: %s" % (what, type(e).__name__, e))
                        continue
                    # ---- the read
                    df = check_read(c, pf, what, cols, carg, index, m)
                    if df is None or cols is not None or index is not None:
                        continue
                    # ---- handles derived from this one predict what the whole dataset predicts
                    try:
                        for gi in range(len(m["rg"])):
                            h1 = pf[gi]
                            # the sliced handle's own counts are those of its row group
                            c1, i1 = h1.count(), h1.info["rows"]
                            if c1 != m["rg"][gi] or i1 != m["rg"][gi]:
                                c.bad("slice_count", "%s: pf[%d].count()=%r, info rows %r, its row group holds %d rows" % (
                                    what, gi, c1, i1, m["rg"][gi]))
                            sub = h1._dtypes(carg)
                            diff = [k for k in m["dtypes"] if k not in sub
                                    or norm_dtype(sub[k]) != norm_dtype(m["dtypes"][k])]
                            if diff or list(sub) != list(m["dtypes"]):
                                k = (diff or ["(order)"])[0]
                                c.bad("slice_prediction", "%s opts=%r: pf[%d] predicts %s for %s, the dataset %s" % (
                                    what, c.ctx, gi, sub.get(k), k, m["dtypes"].get(k)))
                        if cats == "none" and m["count"]:
                            h = pf.head(1)
                            for col in [str(x) for x in h.columns]:
                                if col in m["dtypes"] and norm_dtype(actual_dtype(h, col)) != norm_dtype(m["dtypes"][col]):
                                    c.bad("head_dtype", "%s opts=%r: column %s predicted %s, head(1) gives %s" % (
                                        what, c.ctx, col, m["dtypes"][col], actual_dtype(h, col)),
                                        pred=_dts(norm_dtype(m["dtypes"][col])), act=_dts(norm_dtype(actual_dtype(h, col))))
                    except Exception as e:
                        c.bad("slice_raised", "%s opts=%r: pf[i] / head: %s: %s" % (what, c.ctx, type(e).__name__, str(e)[:100]))
    if extras or thorough:
        history(c, pf_factory, what, allcols, index_names, dict_cols, thorough)
    overrides(c, pf_factory, what, partcols, sweep=extras or thorough)


def history(c, pf_factory, what, allcols, index_names, dict_cols, thorough):
    """one handle, two reads with different options: the second behaves like on a fresh handle, and what the used
    handle reports (dtypes, columns) is what a fresh one reports"""
    opts = [("default", None, "none", None), ("single", [allcols[0]], "none", None), ("no_index", None, "none", False),
            ("declined", None, "empty_list", None), ("cats_list", None, "list", None)]
    if index_names:
        opts.append(("index", None, "none", index_names[0]))
    # quick: a changed option, then the default read; thorough: every ordered pair
    pairs = [(a, b) for a in opts for b in opts if a is not b and (thorough or b[0] == "default")]
    for a, b in pairs:
        c.ctx = {"history": a[0] + ">" + b[0]}
        try:
            used, fresh = pf_factory(True), pf_factory(True)
        except Exception as e:
            c.bad("open_raised", "%s: %s: %s" % (what, type(e).__name__, e))
            return
        ca, cb = _cat_arg(a[2], used, a[1], dict_cols), _cat_arg(b[2], used, b[1], dict_cols)
        if isinstance(ca, str) or isinstance(cb, str):
            continue
        try:
            used._dtypes(ca)
            ia = list(a[3]) if isinstance(a[3], tuple) else a[3]
            used.to_pandas(columns=a[1], categories=ca, index=ia)
        except Exception:
            continue        # judged by compare()
        try:
            attr_used = {"columns": list(used.columns), "dtypes": dict(used.dtypes)}
            attr_fresh = {"columns": list(fresh.columns), "dtypes": dict(fresh.dtypes)}
            if attr_used["columns"] != attr_fresh["columns"] or list(attr_used["dtypes"]) != list(attr_fresh["dtypes"]) \
                    or any(norm_dtype(attr_used["dtypes"][k]) != norm_dtype(attr_fresh["dtypes"][k]) for k in attr_fresh["dtypes"]):
                k = [k for k in attr_fresh["dtypes"] if k not in attr_used["dtypes"]
                     or norm_dtype(attr_used["dtypes"][k]) != norm_dtype(attr_fresh["dtypes"][k])]
                c.bad("stale_attributes", "%s: after a read with %s the handle reports columns %r dtypes %r, a fresh "
                      "handle %r %r" % (what, a[0], attr_used["columns"], {x: str(attr_used["dtypes"].get(x)) for x in k},
                                        attr_fresh["columns"], {x: str(attr_fresh["dtypes"].get(x)) for x in k}),
                      after=a[0])
            m_used, m_fresh = predict(used, cb), predict(fresh, cb)
        except Exception as e:
            c.bad("metadata_raised", "%s history %s: %s: %s" % (what, c.ctx["history"], type(e).__name__, e))
            continue
        if not _same_prediction(m_used, m_fresh):
            c.bad("history_prediction", "%s: after a read with %s the handle predicts %r for %s, a fresh handle %r" % (
                what, a[0], {k: str(v) for k, v in m_used["dtypes"].items()}, b[0],
                {k: str(v) for k, v in m_fresh["dtypes"].items()}))
        check_read(c, used, what + " (second read of the handle)", b[1], cb, b[3], m_used, parts=False)


def overrides(c, pf_factory, what, partcols=(), sweep=True):
    """dtypes override: the frame has the dtypes that were asked for (to_pandas(dtypes=) and the constructor)"""
    import numpy as np
    import pandas as pd
    # the original probe: first data column, int -> float64
    try:
        pf = pf_factory(True)
        col = [x for x in pf.columns if x not in (pf._get_index() or [])][0]
        base = pf.dtypes[col]
        k = norm_dtype(base)
        if k[0] in "iu" and not k[2]:
            over = dict(pf.dtypes)
            over[col] = np.dtype("float64")
            df = pf.to_pandas(dtypes=over)
            c.ctx = {"override": True}
            if col not in df.columns or norm_dtype(actual_dtype(df, col)) != ("f", 8, False):
                c.bad("dtype_override", "%s: dtypes={%s: float64} gave columns %r dtype %s" % (
                    what, col, list(df.columns), actual_dtype(df, col)))
    except Exception as e:
        c.ctx = {"override": True}
        c.bad("override_raised", "%s: dtypes override: %s: %s" % (what, type(e).__name__, str(e)[:100]))
    if not sweep:
        return
    # every data column x target x way of passing the mapping; all columns of the frame are compared
    try:
        pf0 = pf_factory(True)
        base = dict(pf0.dtypes)
        idx = pf0._get_index() or []
        data_cols = [x for x in pf0.columns if x not in idx]
    except Exception as e:
        c.ctx = {"override": True}
        c.bad("override_raised", "%s: dtypes override: %s: %s" % (what, type(e).__name__, str(e)[:100]))
        return
    for col in data_cols:
        k = norm_dtype(base[col])
        if k[0] in "iu" and not k[2]:
            targets = [("float64", np.dtype("float64")),
                       ("masked", pd.api.types.pandas_dtype({"i": "Int", "u": "UInt"}[k[0]] + str(8 * k[1])))]
        elif k[0] in "iu" and k[2]:
            targets = [("float64", np.dtype("float64"))]
        else:
            continue
        for tname, tgt in targets:
            for way in ("to_pandas", "constructor"):
                c.ctx = {"override": way, "target": tname}
                over = dict(base)
                over[col] = tgt
                try:
                    if way == "to_pandas":
                        df = pf_factory(True).to_pandas(dtypes=over)
                    else:
                        df = pf_factory(True, dtypes=over).to_pandas()
                except Exception as e:
                    c.bad("override_raised", "%s: dtypes override of %s to %s through %s: %s: %s" % (
                        what, col, tgt, way, type(e).__name__, str(e)[:100]), exc=type(e).__name__)
                    continue
                if len(df):
                    c.reads += 1
                for x in [str(y) for y in df.columns]:
                    if x in over and norm_dtype(actual_dtype(df, x)) != norm_dtype(over[x]):
                        c.bad("dtype_override", "%s: dtypes override of %s to %s through %s: column %s asked %s, read gives %s" % (
                            what, col, tgt, way, x, over[x], actual_dtype(df, x)),
                            pred=_dts(norm_dtype(over[x])), act=_dts(norm_dtype(actual_dtype(df, x))),
                            column="target" if x == col else "other")
                missing = [x for x in data_cols if x not in [str(y) for y in df.columns]]
                if missing:
                    c.bad("dtype_override", "%s: dtypes override through %s lost the columns %r" % (what, way, missing),
                          column="missing")
                if len(idx) == 1 and idx[0] in over and df.index.nlevels == 1 \
                        and norm_dtype(df.index.dtype) != norm_dtype(over[idx[0]]):
                    c.bad("dtype_override", "%s: dtypes override through %s: index %s asked %s, read gives %s" % (
                        what, way, idx[0], over[idx[0]], df.index.dtype), column="index",
                        pred=_dts(norm_dtype(over[idx[0]])), act=_dts(norm_dtype(df.index.dtype)))


def run(p):
    c = Cell(p)
    globals()["run_" + p["f"]](c, p)
    return c.result()


def _split_rows(n_per, nrg):
    return [(i * n_per, (i + 1) * n_per) for i in range(nrg)]


def run_W(c, p):
    import os
    import pandas as pd
    import fastparquet
    from mc import alphabets as A, wr
    from mc.scratch import scratch
    kind, nrg, where, ver = p["kind"], p["nrg"], p["nulls_in"], p["v"]
    if where != "none" and kind not in A.NULLABLE_KINDS:
        return
    if where == "last" and nrg == 1:
        return
    n_per = 3
    n = n_per * nrg
    s = A.series(kind, n, "none", 0, "a")
    if where != "none":
        tgt = 0 if where == "first" else n - 1
        s = s.copy()
        m = pd.Series([i == tgt for i in range(n)])
        s = s.where(~m) if not (kind[0] in "IU" or kind == "boolean") else s.mask(m)
        s.name = "a"
    other = A.series("int64", n, "none", 1, "b")
    df = pd.DataFrame({"a": s, "b": other})
    d = scratch()
    kw = {"times": p["times"]} if p.get("times") else {}
    for scheme in ("simple", "hive"):
        path = os.path.join(d, "t.parquet" if scheme == "simple" else "ds")
        try:
            with wr.PageCfg(ver, None):
                fastparquet.write(path, df, row_group_offsets=[x[0] for x in _split_rows(n_per, nrg)],
                                  file_scheme=scheme, write_index=False, **kw)
        except Exception:
            return
        compare(c, lambda pn, path=path, **k: fastparquet.ParquetFile(path, pandas_nulls=pn, **k),
                "W %s nrg=%d nulls_in=%s v%d %s%s" % (kind, nrg, where, ver, scheme, " int96" if kw else ""),
                ["a", "b"], index_names=("a",) if ver == 1 or p.get("tier") == "thorough" else (), extras=ver == 1)


def run_W2(c, p):
    import os
    import pandas as pd
    import fastparquet
    from mc.scratch import scratch
    nrg, fo = p["nrg"], p["first_ordered"]
    n = 3 * nrg
    df = pd.DataFrame({"a": pd.Categorical((["lo", "hi", "mid"] * nrg)[:n], categories=["lo", "mid", "hi"], ordered=fo),
                       "b": pd.Categorical((["u", "w", "v"] * nrg)[:n], categories=["u", "v", "w"], ordered=not fo),
                       "x": pd.Series(range(n), dtype="int64")})
    path = os.path.join(scratch(), "t.parquet")
    fastparquet.write(path, df, row_group_offsets=[3 * i for i in range(nrg)], write_index=False)
    compare(c, lambda pn, path=path, **k: fastparquet.ParquetFile(path, pandas_nulls=pn, **k),
            "W2 two categoricals (a ordered=%s, b ordered=%s) nrg=%d" % (fo, not fo, nrg), ["a", "b", "x"], extras=False)


def run_I(c, p):
    import os
    import pandas as pd
    import fastparquet
    from mc import alphabets as A
    from mc.scratch import scratch
    kind, nrg = p["kind"], p["nrg"]
    n = 3 * nrg
    df = pd.DataFrame({"a": A.series("int64", n, "none", 1, "a"), "t": A.series(kind, n, "none", 2, "t"),
                       "s": A.series("str_obj", n, "none", 0, "s")})
    df.index = pd.Index(A.series(kind, n, "last" if p.get("ixnull") else "none", 0, "ix"), name="ix")
    d = scratch()
    path = os.path.join(d, "t.parquet")
    kw = {"times": p["times"]} if p.get("times") else {}
    try:
        fastparquet.write(path, df, row_group_offsets=[3 * i for i in range(nrg)], write_index=True, **kw)
    except Exception:
        return
    compare(c, lambda pn, path=path, **k: fastparquet.ParquetFile(path, pandas_nulls=pn, **k),
            "I index kind %s nrg=%d%s%s" % (kind, nrg, " null in the index" if p.get("ixnull") else "",
                                            " int96" if kw else ""),
            ["ix", "a", "t", "s"], index_names=("t", "a"))
    if nrg != 1:
        return
    # selections of zero rows: what the handle announces (index, dtypes) is still what the (empty) frame must have
    compare(c, lambda pn, path=path, **k: fastparquet.ParquetFile(path, pandas_nulls=pn, **k)[:0],
            "I index kind %s zero-row slice" % kind, ["ix", "a", "t", "s"], index_names=("t", "a"), extras=False)
    path0 = os.path.join(d, "t0.parquet")
    try:
        fastparquet.write(path0, df.iloc[:0], write_index=True, **kw)
    except Exception:
        return
    compare(c, lambda pn, path=path0, **k: fastparquet.ParquetFile(path, pandas_nulls=pn, **k),
            "I index kind %s file without rows" % kind, ["ix", "a", "t", "s"], index_names=("t", "a"), extras=False)


def run_I2(c, p):
    """frames written with a two-level index; read with the stored index, without, with one / two chosen columns"""
    import os
    import pandas as pd
    import fastparquet
    from mc import alphabets as A
    from mc.scratch import scratch
    ka, kb = p["kinds"].split("+")
    nrg = p["nrg"]
    n = 3 * nrg
    df = pd.DataFrame({"a": A.series("int64", n, "none", 1, "a"), "s": A.series("str_obj", n, "none", 0, "s")})
    df.index = pd.MultiIndex.from_arrays([A.series(ka, n, "none", 0, "i0"), A.series(kb, n, "none", 1, "i1")],
                                         names=["i0", "i1"])
    d = scratch()
    path = os.path.join(d, "t.parquet")
    try:
        fastparquet.write(path, df, row_group_offsets=[3 * i for i in range(nrg)], write_index=True)
    except Exception:
        return
    compare(c, lambda pn, path=path, **k: fastparquet.ParquetFile(path, pandas_nulls=pn, **k),
            "I2 index kinds %s nrg=%d" % (p["kinds"], nrg), ["a", "s", "i0", "i1"],
            index_names=("a", ("i0", "i1"), ("a", "s")))


F_SPEC = {
    # name: (physical type, converted type, values, extra schema fields)
    "int32": (1, None, [1, -2, 3], {}), "int64": (2, None, [1, -2, 2 ** 40], {}), "bool": (0, None, [True, False, True], {}),
    "double": (5, None, [1.5, -2.0, 0.0], {}), "utf8": (6, 0, [b"a", b"bb", b""], {}),
    "int32_dict": (1, None, [7, 8, 7], {}), "utf8_dict": (6, 0, [b"a", b"bb", b"a"], {}),
    "int8": (1, 15, [1, -2, 3], {}), "uint8": (1, 11, [1, 2, 200], {}), "uint64": (2, 14, [1, 2, 3], {}),
    "ts_millis": (2, 9, [1, 2, 3], {}), "float": (4, None, [1.5, -2.0, 0.0], {}),
    "int96": (3, None, None, {}),
}


def run_F(c, p):
    import io
    import struct
    import fastparquet
    from mc.specpq import writer as W, file as F
    t, rep, nrg, where, st, ver = p["type"], p["rep"], p["nrg"], p["nulls_in"], p["stats"], p["v"]
    layout = p.get("layout", "xy")
    ptype, ct, vals, extra = F_SPEC[t]
    if t == "int96":
        vals = [struct.pack("<qi", 0, 2440588), struct.pack("<qi", 5, 2440589), struct.pack("<qi", 0, 2440590)]
    col = dict({"name": "x", "ptype": ptype, "rep": rep, "ct": ct}, **extra)
    col2 = {"name": "y", "ptype": 2, "rep": "required"}
    colm = {"name": "m", "rep": "optional", "nested": "map", "ptype": None,
            "key": {"ptype": 6, "rep": "required", "ct": 0}, "value": {"ptype": 1, "rep": "optional"}}
    rgs = []
    for gi in range(nrg):
        rows = list(vals)
        has_null = (where == "first" and gi == 0) or (where == "last" and gi == nrg - 1) or (where == "middle" and gi == 1)
        if has_null:
            rows[1] = None
        chunk = {"rows": rows, "codec": 0, "pages": [{"n": 3, "enc": "RLE_DICTIONARY" if t.endswith("_dict") else "PLAIN", "v": ver}]}
        if t.endswith("_dict"):
            chunk["dictionary"] = sorted(set(vals))
        nulls = sum(1 for r in rows if r is None)
        with_stats = st == "all" or (st == "first_only" and gi == 0) or st == "no_null_count"
        if with_stats:
            chunk["stats"] = {} if st == "no_null_count" else {"null_count": nulls}
            if ptype in (1, 2):
                nn = [r for r in rows if r is not None]
                fmt = "<i" if ptype == 1 else "<q"
                chunk["stats"]["min"] = struct.pack(fmt, min(nn))
                chunk["stats"]["max"] = struct.pack(fmt, max(nn))
        rg = {"x": chunk, "y": {"rows": [gi * 10 + 1, gi * 10 + 2, gi * 10 + 3], "codec": 0,
                                "stats": {"null_count": 0}}}
        if layout == "mxy":
            # a map owns two column chunks; both say "no nulls"
            rg["m"] = {"rows": [[(b"k", gi)], [(b"l", 2)], [(b"k", 3), (b"l", 4)]], "codec": 0,
                       "stats": {"null_count": 0}}
        rgs.append(rg)
    columns = {"xy": [col, col2], "yx": [col2, col], "mxy": [colm, col, col2]}[layout]
    data = W.write_file({"created_by": CREATED_BY, "columns": columns, "row_groups": rgs})
    compare(c, lambda pn, **k: fastparquet.ParquetFile(io.BytesIO(data), pandas_nulls=pn, **k),
            "F %s %s nrg=%d nulls_in=%s stats=%s v%d layout=%s" % (t, rep, nrg, where, st, ver, layout),
            [x["name"] for x in columns], dict_cols={"x": 2} if t.endswith("_dict") else None,
            extras=st == "all" and (where in ("none", "last")))


def run_P(c, p):
    """foreign files that carry pandas metadata the way pyarrow writes it"""
    import io
    import json
    import fastparquet
    from mc.specpq import writer as W
    case, nrg = p["case"], p["nrg"]

    def mdcol(name, pandas_type, numpy_type, metadata=None, field_name=None):
        return {"name": name, "field_name": field_name or name, "pandas_type": pandas_type, "numpy_type": numpy_type,
                "metadata": metadata}

    def chunk(rows, **k):
        return dict({"rows": rows, "codec": 0, "stats": {"null_count": sum(r is None for r in rows)}}, **k)

    x = {"name": "x", "ptype": 2, "rep": "optional", "ct": None}
    b = {"name": "x", "ptype": 0, "rep": "optional", "ct": None}
    y = {"name": "y", "ptype": 2, "rep": "required"}
    t = {"name": "t", "ptype": 2, "rep": "optional", "ct": 10,
         "lt": {"TIMESTAMP": {"isAdjustedToUTC": True, "unit": {"MICROS": {}}}}}
    s = {"name": "s", "ptype": 6, "rep": "optional", "ct": 0}
    i0 = {"name": "__index_level_0__", "ptype": 2, "rep": "optional", "ct": None}
    ymd = mdcol("y", "int64", "int64")
    nullrg = nrg - 1          # NULLs only in the last row group
    ints = lambda gi: [1 + 10 * gi, None if gi == nullrg else 2, 3]
    plain = lambda gi: [1 + 10 * gi, 2, 3]
    ys = lambda gi: chunk([gi * 10 + 1, gi * 10 + 2, gi * 10 + 3])
    index_columns, datacols, index_names, dict_cols = [], None, (), None
    if case in ("Int64_arrow", "Int64_swapped", "int64_md_nulls", "object_md_nulls"):
        pt, nt = {"Int64_arrow": ("int64", "Int64"), "Int64_swapped": ("Int64", "int64"),
                  "int64_md_nulls": ("int64", "int64"), "object_md_nulls": ("int64", "object")}[case]
        cols, mds = [x, y], [mdcol("x", pt, nt), ymd]
        rgs = [{"x": chunk(ints(gi)), "y": ys(gi)} for gi in range(nrg)]
    elif case == "bool_md_nulls":
        cols, mds = [b, y], [mdcol("x", "bool", "bool"), ymd]
        rgs = [{"x": chunk([True, None if gi == nullrg else False, True]), "y": ys(gi)} for gi in range(nrg)]
    elif case in ("tz_ns", "tz_us", "tz_us_full", "tz_index"):
        nt = {"tz_ns": "datetime64[ns]", "tz_us": "datetime64[us]", "tz_us_full": "datetime64[us, Europe/Paris]",
              "tz_index": "datetime64[us]"}[case]
        cols, mds = [t, y], [mdcol("t", "datetimetz", nt, {"timezone": "Europe/Paris"}), ymd]
        if case == "tz_index":
            index_columns = ["t"]
            rgs = [{"t": chunk(plain(gi)), "y": ys(gi)} for gi in range(nrg)]
        else:
            rgs = [{"t": chunk(ints(gi)), "y": ys(gi)} for gi in range(nrg)]
            index_names = ("t",)
    elif case == "range_index":
        cols, mds = [x, y], [mdcol("x", "int64", "int64"), ymd]
        index_columns = [{"kind": "range", "name": None, "start": 10, "stop": 10 + 6 * nrg, "step": 2}]
        rgs = [{"x": chunk(plain(gi)), "y": ys(gi)} for gi in range(nrg)]
        index_names = ("y",)
    elif case in ("unnamed_index", "named_index"):
        nm = "__index_level_0__" if case == "unnamed_index" else "ix"
        ic = dict(i0, name=nm)
        cols = [x, y, ic]
        mds = [mdcol("x", "int64", "int64"), ymd,
               mdcol(None if case == "unnamed_index" else nm, "int64", "int64", field_name=nm)]
        index_columns = [nm]
        rgs = [{"x": chunk(plain(gi)), "y": ys(gi), nm: chunk([5 + 10 * gi, 6, 7])} for gi in range(nrg)]
        index_names = ("y",)
    else:
        cols = [s, y]
        mds = [mdcol("s", "categorical", "int8", {"num_categories": 2, "ordered": False}), ymd]
        rgs = []
        for gi in range(nrg):
            if case == "cat_fallback" and gi == nrg - 1:
                # the writer gave up on the dictionary: this column is no categorical
                ch = chunk([b"a", None, b"a"], pages=[{"n": 3, "enc": "PLAIN", "v": 1}])
            else:
                ch = chunk([b"a", b"b" if gi else None, b"a"], pages=[{"n": 3, "enc": "RLE_DICTIONARY", "v": 1}],
                           dictionary=[b"a", b"b"])
            rgs.append({"s": ch, "y": ys(gi)})
    md = json.dumps({"index_columns": index_columns, "column_indexes": [], "columns": mds,
                     "creator": {"library": "pyarrow", "version": "14.0.1"}, "pandas_version": "2.1.0"})
    data = W.write_file({"created_by": CREATED_BY_ARROW, "columns": cols, "row_groups": rgs, "kv": [("pandas", md)]})
    compare(c, lambda pn, **k: fastparquet.ParquetFile(io.BytesIO(data), pandas_nulls=pn, **k),
            "P %s nrg=%d" % (case, nrg), [cc["name"] for cc in cols], index_names=index_names)


def run_H(c, p):
    import os
    import pandas as pd
    import fastparquet
    from mc.scratch import scratch
    nparts, pk = p["nparts"], p["pkind"]
    keys = {"int": [1, 2, 1, 2, 3, 1], "str": ["a", "b", "a", "b", "c", "a"], "float": [0.5, 1.5, 0.5, 1.5, 2.5, 0.5]}[pk]
    df = pd.DataFrame({"v": [1, 2, 3, 4, 5, 6], "s": ["q", "w", None, "r", "t", "y"], "p1": keys})
    parts = ["p1"]
    if nparts == 2:
        df["p2"] = ["x", "x", "y", "y", "x", "y"]
        parts.append("p2")
    d = scratch()
    path = os.path.join(d, "ds")
    fastparquet.write(path, df, file_scheme="hive", partition_on=parts, write_index=False, row_group_offsets=[0, 3])
    compare(c, lambda pn, **k: fastparquet.ParquetFile(path, pandas_nulls=pn, **k), "H parts=%r %s" % (parts, pk),
            ["v", "s"], parts, index_names=tuple(parts) + ("v",))


LEVEL_TEXT = ("Bounded-exhaustive lattice of files (written by the library for 17 column kinds x row-group counts x "
              "position of the nulls, plus int96 timestamps; foreign files from a spec-level writer with every "
              "combination of nullability, null position across row groups, statistics presence and column layout "
              "(nullable column first, second, behind a map); foreign files with pyarrow-style pandas metadata; hive "
              "datasets; frames with a one- or two-level index of many kinds) x read options (column selections, "
              "categories as list/dict/None/declined, index None/False/column/partition column/two columns, "
              "pandas_nulls, dtypes override per column through to_pandas and the constructor) x two-read histories "
              "of one handle; every metadata-only answer is compared with the frame the real read returns, with "
              "every row-group frame, with head() and with the predictions of sliced handles.")
LEVEL_NOTE = ("Trusted: pandas dtype introspection, specpq writer for the foreign files. Two to four data columns per "
              "file; three rows per row group.")
TECHNIQUE = ("bounded exhaustive enumeration of files x read options x two-step handle histories, metadata-only "
             "predictions vs the real read")
