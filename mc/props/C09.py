"""C09 - dataset edits follow a simple model and keep metadata and directory in agreement.

Explorer H: BFS over operation histories on a hive dataset created in an empty
directory; every transition replays the history on the real files with a fresh
ParquetFile(dir) per step and checks all invariants in the state reached.
"""
import hashlib
import itertools

ID = "C09"
LEVEL = "model_checking"
FLAVOUR = "plain"
TIMEOUT = 300
RULE = ("initial write (0, 1 or 2 partition columns) then up to depth d operations from {append(frame) x 4 frames, "
        "append='overwrite'(frame) x 4, remove_row_groups(S) for every non-empty subset S of the first 4 row groups "
        "(sort_pnames False and True), write_row_groups(frame, sort_key, sort_pnames=True), _sort_part_names}; BFS "
        "with de-duplication on the canonical state (relative file paths + their rows + row-group order of "
        "_metadata); depth 2 (quick) / 3 (thorough); invariants in every state: content == model per partition, "
        "every referenced file exists and holds the stated rows, no unreferenced part file, schemas of "
        "_metadata / _common_metadata / part files agree; a refused operation must leave the state unchanged")
ASSUMPTIONS = ["row order inside the dataset is not compared (multiset per partition)",
               "the rows a removal deletes are the rows of the chosen row groups as read in the (already validated) previous state"]

# partition values chosen so that one directory name is a textual prefix of another at the last level
# (p=a / p=ab with one partition column, p=a/q=1 / p=a/q=12 with two)
FRAMES = {
    "ab": [("a", 1), ("ab", 12)],
    "a": [("a", 1)],
    "c": [("c", 9)],
    "abc1": [("a", 1), ("ab", 12), ("c", 9), ("a", 12)],
}


def operations(nparts):
    ops = []
    for f in FRAMES:
        ops.append({"op": "append", "frame": f})
    for f in FRAMES:
        ops.append({"op": "overwrite", "frame": f})
    for k in (1, 2, 3, 4):
        for sub in itertools.combinations(range(4), k):
            ops.append({"op": "remove", "rgs": list(sub), "sort": False})
    for sub in ([0], [1], [0, 2], [1, 2]):
        ops.append({"op": "remove", "rgs": sub, "sort": True})
    ops.append({"op": "write_rgs", "frame": "ab"})
    ops.append({"op": "write_rgs", "frame": "c"})
    ops.append({"op": "sort_names"})
    return ops


def explore(run, tier):
    depth = 3 if tier == "thorough" else 2
    seen = {}
    st = {"states": 0, "transitions": 0}
    initial = [{"nparts": n, "hist": []} for n in (0, 1, 2)]

    def on_result(point, res, submit):
        if res.get("outcome") in ("crash", "timeout", "harness_error"):
            return
        if point["hist"]:
            st["transitions"] += 1
        key = res.get("state")
        if key is None or not res.get("ok"):
            return
        k = (point["nparts"], key)
        dep = len(point["hist"])
        if k in seen and seen[k] <= dep:
            return          # already expanded from the same or a shorter history
        if k not in seen:
            st["states"] += 1
        seen[k] = dep
        if dep >= depth:
            return
        for op in operations(point["nparts"]):
            if op["op"] == "remove" and max(op["rgs"]) >= res.get("nrg", 0):
                continue
            submit({"nparts": point["nparts"], "hist": point["hist"] + [op]})
    run.dynamic("edit-histories", initial, "run", on_result)
    run.extra.update({"states": st["states"], "transitions": st["transitions"],
                      "traces_validated_against_impl": st["transitions"], "depth": depth})


def crash_sig(point, res):
    return {"nparts": point["nparts"], "symptom": res["outcome"],
            "ops": ",".join(o["op"] for o in point["hist"])}


# ------------------------------------------------------------------------------------
def make_frame(name, step, nparts):
    import pandas as pd
    rows = FRAMES[name]
    ids = [step * 100 + i for i in range(len(rows))]
    df = pd.DataFrame({"id": pd.Series(ids, dtype="int64"),
                       "v": pd.Series(["s%d" % i for i in ids], dtype=object),
                       "p": pd.Series([r[0] for r in rows], dtype=object),
                       "q": pd.Series([r[1] for r in rows], dtype="int64")})
    return df, [(i, "s%d" % i, r[0], r[1]) for i, r in zip(ids, rows)]


def part_of(row, nparts):
    return tuple(row[2:2 + nparts])


def read_state(path, nparts):
    """-> (pf, per-row-group rows, all rows)"""
    import fastparquet
    from mc import oracles as O
    pf = fastparquet.ParquetFile(path)
    per = []
    for i in range(len(pf.row_groups)):
        df = pf[i].to_pandas()
        cols = {c: O.series_to_list(df[c]) for c in df.columns}
        per.append([(cols["id"][j], cols["v"][j], cols["p"][j], cols["q"][j]) for j in range(len(df))])
    return pf, per


def invariants(path, nparts, model, bad):
    import os
    import fastparquet
    from mc.specpq import file as F
    from mc import oracles as O
    try:
        pf = fastparquet.ParquetFile(path)
        df = pf.to_pandas()
    except Exception as e:
        return bad("unreadable", "dataset cannot be read: %s: %s" % (type(e).__name__, str(e)[:150]), exc=type(e).__name__)
    cols = {c: O.series_to_list(df[c]) for c in df.columns}
    got = sorted((cols["id"][j], cols["v"][j], cols["p"][j], cols["q"][j]) for j in range(len(df)))
    want = sorted(model)
    if got != want:
        lost = [r for r in want if r not in got]
        extra = [r for r in got if r not in want]
        return bad("content", "content differs from the model: missing %r, unexpected %r" % (lost[:4], extra[:4]),
                   kind="lost" if lost and not extra else ("extra" if extra and not lost else "both"))
    # metadata vs directory
    refs = []
    for rg in pf.row_groups:
        fp = rg.columns[0].file_path
        refs.append(fp)
        full = os.path.join(path, fp)
        if not os.path.exists(full):
            return bad("dangling_reference", "_metadata references %s which does not exist" % fp)
        try:
            own = F.read_footer(open(full, "rb").read())
        except Exception as e:
            return bad("bad_part_file", "%s is not a valid file: %s" % (fp, e))
        if sum(g["num_rows"] for g in own.fmd["row_groups"]) < rg.num_rows:
            return bad("row_count_mismatch", "%s holds %d rows, _metadata says %d" % (
                fp, sum(g["num_rows"] for g in own.fmd["row_groups"]), rg.num_rows))
    if len(set(refs)) != len(refs):
        # several row groups in one file are legal only if the file really holds them
        for fp in set(refs):
            own = F.read_footer(open(os.path.join(path, fp), "rb").read())
            if len(own.fmd["row_groups"]) != refs.count(fp):
                return bad("duplicate_reference", "%s is referenced by %d row groups but holds %d" % (
                    fp, refs.count(fp), len(own.fmd["row_groups"])))
    on_disk = []
    for root, dirs, files in os.walk(path):
        for f in files:
            rel = os.path.relpath(os.path.join(root, f), path)
            if f.startswith("part.") :
                on_disk.append(rel)
    stray = sorted(set(on_disk) - set(refs))
    if stray:
        return bad("unreferenced_file", "part files not referenced by _metadata: %r" % stray,
                   tmp=any(s.endswith(".tmp") for s in stray))
    try:
        pm = F.read_footer(open(os.path.join(path, "_metadata"), "rb").read())
        pc = F.read_footer(open(os.path.join(path, "_common_metadata"), "rb").read())
    except Exception as e:
        return bad("bad_summary", "summary file invalid: %s" % e)

    def sch(p):
        return [(e.get("name"), e.get("type"), e.get("repetition_type"), e.get("converted_type")) for e in p.fmd["schema"]]
    if sch(pm) != sch(pc):
        return bad("schema_mismatch", "_common_metadata schema differs from _metadata")
    for fp in set(refs):
        own = F.read_footer(open(os.path.join(path, fp), "rb").read())
        if sch(own) != sch(pm):
            return bad("schema_mismatch", "%s schema differs from _metadata" % fp)
    if pm.fmd["num_rows"] != len(model):
        return bad("row_count_mismatch", "_metadata num_rows %d, model %d" % (pm.fmd["num_rows"], len(model)))
    return None


def canonical(path):
    import os
    import fastparquet
    h = hashlib.sha256()
    pf = fastparquet.ParquetFile(path)
    for rg in pf.row_groups:
        h.update(("%s:%d;" % (rg.columns[0].file_path, rg.num_rows)).encode())
    for root, dirs, files in sorted(os.walk(path)):
        for f in sorted(files):
            if f.startswith("part."):
                rel = os.path.relpath(os.path.join(root, f), path)
                h.update(rel.encode())
                h.update(hashlib.sha256(open(os.path.join(root, f), "rb").read()).digest())
    return h.hexdigest(), len(pf.row_groups)


def run(point):
    import os
    import shutil
    import fastparquet
    from fastparquet import writer
    from mc.scratch import scratch
    nparts, hist = point["nparts"], point["hist"]
    d = scratch()
    path = os.path.join(d, "ds")
    parts = ["p", "q"][:nparts]
    sig = {"nparts": nparts}

    def bad(symptom, detail, **extra):
        s = dict(sig)
        s["symptom"] = symptom
        s["last_op"] = hist[-1]["op"] if hist else "write"
        s["ops"] = ",".join(o["op"] for o in hist)
        s.update(extra)
        return {"ok": False, "outcome": symptom, "nontrivial": True, "sig": s, "detail":
                "history %r: %s" % ([_short(o) for o in hist], detail)}

    df0, rows0 = make_frame("abc1", 0, nparts)
    df0b, rows0b = make_frame("ab", 1, nparts)
    import pandas as pd
    fastparquet.write(path, pd.concat([df0, df0b], ignore_index=True), file_scheme="hive", partition_on=parts,
                      row_group_offsets=[0, 3], write_index=False)
    model = list(rows0) + list(rows0b)
    for i, op in enumerate(hist):
        step = i + 2
        before_listing = None
        try:
            pf, per = read_state(path, nparts)
        except Exception as e:
            return bad("unreadable", "cannot re-open before step %d: %s" % (i, e))
        before_key = canonical(path)[0]
        refused = None
        try:
            if op["op"] == "append":
                df, rows = make_frame(op["frame"], step, nparts)
                fastparquet.write(path, df, file_scheme="hive", partition_on=parts, append=True)
                model = model + rows
            elif op["op"] == "overwrite":
                df, rows = make_frame(op["frame"], step, nparts)
                new_model = [r for r in model if part_of(r, nparts) not in {part_of(x, nparts) for x in rows}] + rows
                fastparquet.write(path, df, file_scheme="hive", partition_on=parts, append="overwrite")
                model = new_model
            elif op["op"] == "remove":
                if max(op["rgs"]) >= len(pf.row_groups):
                    return {"ok": True, "outcome": "not_applicable", "nontrivial": False}
                gone = [r for g in op["rgs"] for r in per[g]]
                pf.remove_row_groups([pf.row_groups[g] for g in op["rgs"]], sort_pnames=op["sort"])
                m2 = list(model)
                for r in gone:
                    m2.remove(r)
                model = m2
            elif op["op"] == "write_rgs":
                df, rows = make_frame(op["frame"], step, nparts)
                pf.write_row_groups(df, sort_key=lambda rg: rg.columns[0].file_path, sort_pnames=True)
                model = model + rows
            elif op["op"] == "sort_names":
                pf._sort_part_names()
        except Exception as e:
            refused = e
        if refused is not None:
            # a refusal must leave the dataset exactly as it was
            # refusals that are legitimate and judged only for leaving the state unchanged: partition overwrite
            # on an unpartitioned dataset; any write to a dataset emptied of all row groups (it has no paths
            # left to derive its partitioning from)
            legit = isinstance(refused, ValueError) and ((op["op"] == "overwrite" and nparts == 0)
                                                         or len(pf.row_groups) == 0)
            try:
                after_key = canonical(path)[0]
            except Exception as e2:
                return bad("refusal_damaged", "step %d %s raised %s and the dataset cannot be re-opened: %s" % (
                    i, _short(op), type(refused).__name__, e2), exc=type(refused).__name__)
            if after_key != before_key:
                return bad("refusal_changed_state", "step %d %s raised %s: %s but the dataset changed" % (
                    i, _short(op), type(refused).__name__, str(refused)[:100]), exc=type(refused).__name__)
            if not legit:
                return bad("operation_raised", "step %d %s raised %s: %s" % (i, _short(op), type(refused).__name__, str(refused)[:150]),
                           exc=type(refused).__name__)
            return {"ok": True, "outcome": "refused", "nontrivial": False}
    r = invariants(path, nparts, model, bad)
    if r is not None:
        return r
    key, nrg = canonical(path)
    return {"ok": True, "outcome": "consistent", "nontrivial": True, "state": key, "nrg": nrg,
            "counts": {"ops": len(hist)}}


def _short(op):
    return "%s(%s)" % (op["op"], op.get("frame") or op.get("rgs") or "")


LEVEL_TEXT = ("Explicit-state BFS (depth 2 quick / 3 thorough after the initial write) over write / append / partition "
              "overwrite / removal of every subset of the first four row groups / sorted write / renumbering on hive "
              "datasets with 0, 1 and 2 partition columns, re-opening the dataset from disk for every step; in every "
              "reached state the content is compared with a dict-of-rows model and the summary metadata is checked "
              "against the directory (dangling references, unreferenced part files, row counts, schemas).")
LEVEL_NOTE = ("Trusted: multiset-of-rows model, specpq footer reader for the part files. States are merged on (row-group "
              "order in _metadata, part file names and bytes), which includes the part numbers later transitions depend on.")
TECHNIQUE = "explicit-state BFS over dataset edit histories on the real directory, multiset reference model, metadata-vs-directory invariants"
