"""C09 - dataset edits follow a simple model and keep metadata and directory in agreement.

Explorer H: BFS over operation histories on a hive dataset created in an empty
directory; every transition replays the history on the real files with a fresh
ParquetFile(dir) per step and checks all invariants in the state reached.
"""
import hashlib
import itertools
import re

ID = "C09"
LEVEL = "model_checking"
FLAVOUR = "plain"
TIMEOUT = 300
RULE = ("initial write then up to depth d operations, BFS with de-duplication on the canonical state (relative file "
        "paths + their bytes + row-group order of _metadata). Layouts: 'plain' with 0, 1 or 2 partition columns "
        "(str p in {a, ab, c}, int q in {1, 12, 9}; two chunks), 'ts' (1 partition column of Timestamps "
        "2020-01-01 / 2020-01-01 00:00:00.5 / 2021-06-15 12:00, whose directory names differ from str(value)), 'idx' "
        "(1 partition column, a named int64 index written with the data), 'many' (0 or 1 partition columns, 12 "
        "one-row chunks so that part numbers have two digits; depth 1 only). Operations on 'plain' and 'many': "
        "append(frame) x 4 frames, append='overwrite'(frame) x 4, overwrite x 3 / append x 1 with the partition column given as a categorical listing all partition values (unobserved categories), the same two with frame 'aa' split in two chunks "
        "(row_group_offsets=[0,1]: two new files in one partition directory), remove_row_groups(S) for every non-empty "
        "subset S of the first 4 row groups plus {last}, {all} (sort_pnames False; 4 subsets also True), "
        "write_row_groups(frame, sort_key=file path, sort_pnames=True) x 2, _sort_part_names, a plain re-write "
        "(append=False) over the existing dataset, and append / overwrite / write_row_groups of two frames that the "
        "writer must refuse ('badtype': strings in the int64 column; 'halfbad': first partition group fine, a later "
        "one unconvertible); the remove / write_row_groups / _sort_part_names operations also on the ParquetFile "
        "object kept from the previous step instead of a re-opened one (6 representatives). On 'ts' and 'idx' "
        "(quick): append x 4 and overwrite x 4 (+ the two-chunk pair); thorough: all operations, and 'ts' / 'idx' "
        "with 2 partition columns. depth 2 (quick) / 3 (thorough, 'ts' and 'idx' 2). Invariants in every state: "
        "content == model per partition, every referenced file exists and holds the stated rows, all column chunks of "
        "a row group name the same file, no unreferenced part file, schemas of _metadata / _common_metadata / part "
        "files agree; the ParquetFile object an operation was called on shows the same row groups and rows as a "
        "re-opened one; after a renumbering operation every part.N file is numbered by the position of its first "
        "row group; write_row_groups(sort_key) leaves the directories in key order; overwrite keeps the partitions "
        "that existed in their former order, contiguous, and puts new partitions last; a refused operation must "
        "leave the state unchanged")
ASSUMPTIONS = ["row order inside a row group / partition is not compared (multiset per partition); the order of the row groups "
               "and the numbering of the part files are not judged (documented in docstrings, not part of the property)",
               "the rows a removal deletes are the rows of the chosen row groups as read in the (already validated) previous state",
               "a frame whose values cannot be converted to the dataset's column types is legitimately refused (ValueError)"]

# partition values chosen so that one directory name is a textual prefix of another at the last level
# (p=a / p=ab with one partition column, p=a/q=1 / p=a/q=12 with two)
FRAMES = {
    "ab": [("a", 1), ("ab", 12)],
    "a": [("a", 1)],
    "c": [("c", 9)],
    "abc1": [("a", 1), ("ab", 12), ("c", 9), ("a", 12)],
}
# frames used only by specific operations
EXTRA_FRAMES = {
    "aa": [("a", 1), ("a", 1)],                       # written in two chunks: two files for one partition
    "badtype": [("a", 1), ("c", 9)],                  # 'id' holds strings
    "halfbad": [("a", 1), ("c", 9)],                  # 'v' of the second partition group is not a string
    "many": [("a", 1), ("ab", 12), ("c", 9)] * 4,     # initial frame of layout 'many'
}
BAD_FRAMES = ("badtype", "halfbad")
TS = {"a": "2020-01-01", "ab": "2020-01-01 00:00:00.5", "c": "2021-06-15 12:00:00"}
PF_OPS = ("remove", "write_rgs", "sort_names")
PART_NO = re.compile(r"(?:^|/)part\.(\d+)\.parquet$")


def base_operations():
    ops = []
    for f in FRAMES:
        ops.append({"op": "append", "frame": f})
    for f in FRAMES:
        ops.append({"op": "overwrite", "frame": f})
    for k in (1, 2, 3, 4):
        for sub in itertools.combinations(range(4), k):
            ops.append({"op": "remove", "rgs": list(sub), "sort": False})
    for sub in ([0], [1], [0, 2], [1, 2]):
        ops.append({"op": "remove", "rgs": sub, "sort": True})
    ops.append({"op": "write_rgs", "frame": "ab"})
    ops.append({"op": "write_rgs", "frame": "c"})
    ops.append({"op": "sort_names"})
    return ops


def chunked_operations(tier):
    ops = [{"op": "append", "frame": "aa", "offsets": [0, 1]},
           {"op": "overwrite", "frame": "aa", "offsets": [0, 1]}]
    if tier == "thorough":
        ops.append({"op": "append", "frame": "abc1", "offsets": [0, 1, 2, 3]})
        ops.append({"op": "overwrite", "frame": "abc1", "offsets": [0, 1, 2, 3]})
    return ops


def unit_operations():
    """layout ts: the timestamp key column of the operation's frame in another resolution than the frames that
    created the partitions (the same instants: the same partitions)"""
    return [{"op": "overwrite", "frame": "a", "unit": "ns"}, {"op": "overwrite", "frame": "ab", "unit": "ms"},
            {"op": "overwrite", "frame": "c", "unit": "s"}, {"op": "append", "frame": "a", "unit": "ns"}]


def operations(nparts, lay="plain", tier="quick", prev=None):
    """Operation alphabet in a state of layout `lay` reached by operation `prev`."""
    if lay in ("ts", "idx") and tier != "thorough":
        ops = [o for o in base_operations() if o["op"] in ("append", "overwrite")]
        return ops + chunked_operations(tier) + (unit_operations() if lay == "ts" else [])
    ops = base_operations() + chunked_operations(tier)
    if lay == "ts":
        ops += unit_operations()
    if lay in ("plain", "many") and nparts >= 1:
        for f in ("a", "c", "ab"):
            ops.append({"op": "overwrite", "frame": f, "catkeys": True})
        ops.append({"op": "append", "frame": "c", "catkeys": True})
    ops.append({"op": "remove", "rgs": "last", "sort": False})
    ops.append({"op": "remove", "rgs": "all", "sort": False})
    ops.append({"op": "rewrite", "frame": "ab"})
    for f in BAD_FRAMES:
        for o in ("append", "overwrite", "write_rgs"):
            ops.append({"op": o, "frame": f})
    if prev is not None and prev["op"] in PF_OPS:
        # the same operation on the object the previous operation was called on (no re-open in between)
        ops.append({"op": "remove", "rgs": [0], "sort": False, "reuse": True})
        ops.append({"op": "remove", "rgs": [0], "sort": True, "reuse": True})
        ops.append({"op": "remove", "rgs": [1, 2], "sort": True, "reuse": True})
        ops.append({"op": "write_rgs", "frame": "ab", "reuse": True})
        ops.append({"op": "write_rgs", "frame": "c", "reuse": True})
        ops.append({"op": "sort_names", "reuse": True})
    if lay == "idx":
        # write_row_groups does not take the index of the frame: only the operations going through write()
        ops = [o for o in ops if o["op"] != "write_rgs"]
    return ops


def layouts(tier):
    lays = [(0, "plain"), (1, "plain"), (2, "plain"), (1, "ts"), (1, "idx"), (0, "many"), (1, "many")]
    if tier == "thorough":
        lays += [(2, "ts"), (2, "idx")]
    return lays


def depth_of(lay, tier):
    if lay == "many":
        return 1
    if tier == "thorough":
        return 3 if lay == "plain" else 2
    return 2


def explore(run, tier):
    depth = 3 if tier == "thorough" else 2
    seen = {}
    st = {"states": 0, "transitions": 0}
    initial = [{"nparts": n, "lay": lay, "hist": []} for n, lay in layouts(tier)]

    def on_result(point, res, submit):
        if res.get("outcome") in ("crash", "timeout", "harness_error"):
            return
        if point["hist"]:
            st["transitions"] += 1
        key = res.get("state")
        if key is None or not res.get("ok"):
            return
        lay = point.get("lay", "plain")
        k = (point["nparts"], lay, key)
        dep = len(point["hist"])
        prev = point["hist"][-1] if point["hist"] else None
        # the object-reuse operations depend on the kind of the last operation: part of the expansion key
        k = k + (bool(prev is not None and prev["op"] in PF_OPS),)
        if k in seen and seen[k] <= dep:
            return          # already expanded from the same or a shorter history
        if k not in seen:
            st["states"] += 1
        seen[k] = dep
        if dep >= depth_of(lay, tier):
            return
        nrg = res.get("nrg", 0)
        for op in operations(point["nparts"], lay, tier, prev):
            if op["op"] == "remove":
                if isinstance(op["rgs"], str):
                    if nrg <= 4:
                        continue    # 'last' / 'all' are among the enumerated subsets
                elif max(op["rgs"]) >= nrg:
                    continue
            submit({"nparts": point["nparts"], "lay": lay, "hist": point["hist"] + [op]})
    run.dynamic("edit-histories", initial, "run", on_result)
    run.extra.update({"states": st["states"], "transitions": st["transitions"],
                      "traces_validated_against_impl": st["transitions"], "depth": depth})


def crash_sig(point, res):
    return {"nparts": point["nparts"], "lay": point.get("lay", "plain"), "symptom": res["outcome"],
            "ops": ",".join(o["op"] for o in point["hist"])}


# ------------------------------------------------------------------------------------
def pval(name, lay):
    if lay == "ts":
        import pandas as pd
        return pd.Timestamp(TS[name])
    return name


def pkey(name, lay):
    """partition value as the oracle's canonical cell"""
    if lay == "ts":
        import pandas as pd
        return ("ts", pd.Timestamp(TS[name]).value)
    return name


def make_frame(name, step, nparts, lay="plain", catkeys=False, unit=None):
    import pandas as pd
    rows = FRAMES.get(name) or EXTRA_FRAMES[name]
    ids = [step * 100 + i for i in range(len(rows))]
    vs = ["s%d" % i for i in ids]
    idcol = pd.Series(ids, dtype="int64")
    vcol = pd.Series(vs, dtype=object)
    if name == "badtype":
        idcol = pd.Series(["x%d" % i for i in ids], dtype=object)
    if name == "halfbad":
        vcol = pd.Series([vs[0], 3.5], dtype=object)
    pcol = (pd.Series([pval(r[0], lay) for r in rows]) if lay == "ts"
            else pd.Series([r[0] for r in rows], dtype=object))
    if unit and lay == "ts":
        pcol = pcol.astype("datetime64[%s]" % unit)
    if catkeys:
        # the partition column as a categorical that lists every partition value of the dataset, as a frame read
        # from the dataset and cut down to some partitions has it (read - modify - write back)
        pcol = pd.Series(pd.Categorical([r[0] for r in rows], categories=["a", "ab", "c"]))
    df = pd.DataFrame({"id": idcol, "v": vcol, "p": pcol,
                       "q": pd.Series([r[1] for r in rows], dtype="int64")})
    model = [(i, "s%d" % i, pkey(r[0], lay), r[1]) for i, r in zip(ids, rows)]
    if lay == "idx":
        df.index = pd.Index([i + 1000 for i in ids], dtype="int64", name="ix")
        model = [r + (r[0] + 1000,) for r in model]
    return df, model


def part_of(row, nparts):
    return tuple(row[2:2 + nparts])


def rows_of(df, lay):
    """rows of a frame read from the dataset as model tuples"""
    from mc import oracles as O
    if len(df) == 0:
        return []
    cols = {c: O.series_to_list(df[c]) for c in df.columns}
    rows = [(cols["id"][j], cols["v"][j], cols["p"][j], cols["q"][j]) for j in range(len(df))]
    if lay == "idx":
        ix = O.series_to_list(df.index) if df.index.name == "ix" else cols.get("ix", [None] * len(df))
        rows = [r + (i,) for r, i in zip(rows, ix)]
    return rows


def read_state(path, nparts, lay="plain"):
    """-> (pf, per-row-group rows)"""
    import fastparquet
    pf = fastparquet.ParquetFile(path)
    per = []
    for i in range(len(pf.row_groups)):
        per.append(rows_of(pf[i].to_pandas(), lay))
    return pf, per


def rg_list(pf):
    return [(rg.columns[0].file_path, rg.num_rows) for rg in pf.row_groups]


def dir_of(fp):
    return fp.rsplit("/", 1)[0] + "/" if "/" in fp else ""


def invariants(path, nparts, model, bad, lay="plain"):
    import os
    import fastparquet
    from mc.specpq import file as F
    try:
        pf = fastparquet.ParquetFile(path)
        df = pf.to_pandas()
    except Exception as e:
        return bad("unreadable", "dataset cannot be read: %s: %s" % (type(e).__name__, str(e)[:150]), exc=type(e).__name__)
    got = sorted(rows_of(df, lay))
    want = sorted(model)
    if got != want:
        lost = [r for r in want if r not in got]
        extra = [r for r in got if r not in want]
        return bad("content", "content differs from the model: missing %r, unexpected %r" % (lost[:4], extra[:4]),
                   kind="lost" if lost and not extra else ("extra" if extra and not lost else "both"))
    # metadata vs directory
    refs = []
    for rg in pf.row_groups:
        fp = rg.columns[0].file_path
        refs.append(fp)
        full = os.path.join(path, fp)
        if not os.path.exists(full):
            return bad("dangling_reference", "_metadata references %s which does not exist" % fp)
        try:
            own = F.read_footer(open(full, "rb").read())
        except Exception as e:
            return bad("bad_part_file", "%s is not a valid file: %s" % (fp, e))
        if sum(g["num_rows"] for g in own.fmd["row_groups"]) < rg.num_rows:
            return bad("row_count_mismatch", "%s holds %d rows, _metadata says %d" % (
                fp, sum(g["num_rows"] for g in own.fmd["row_groups"]), rg.num_rows))
    if len(set(refs)) != len(refs):
        # several row groups in one file are legal only if the file really holds them
        for fp in set(refs):
            own = F.read_footer(open(os.path.join(path, fp), "rb").read())
            if len(own.fmd["row_groups"]) != refs.count(fp):
                return bad("duplicate_reference", "%s is referenced by %d row groups but holds %d" % (
                    fp, refs.count(fp), len(own.fmd["row_groups"])))
    on_disk = []
    for root, dirs, files in os.walk(path):
        for f in files:
            rel = os.path.relpath(os.path.join(root, f), path)
            if f.startswith("part.") :
                on_disk.append(rel)
    stray = sorted(set(on_disk) - set(refs))
    if stray:
        return bad("unreferenced_file", "part files not referenced by _metadata: %r" % stray,
                   tmp=any(s.endswith(".tmp") for s in stray))
    try:
        pm = F.read_footer(open(os.path.join(path, "_metadata"), "rb").read())
        pc = F.read_footer(open(os.path.join(path, "_common_metadata"), "rb").read())
    except Exception as e:
        return bad("bad_summary", "summary file invalid: %s" % e)

    def sch(p):
        return [(e.get("name"), e.get("type"), e.get("repetition_type"), e.get("converted_type")) for e in p.fmd["schema"]]
    if sch(pm) != sch(pc):
        return bad("schema_mismatch", "_common_metadata schema differs from _metadata")
    for fp in set(refs):
        own = F.read_footer(open(os.path.join(path, fp), "rb").read())
        if sch(own) != sch(pm):
            return bad("schema_mismatch", "%s schema differs from _metadata" % fp)
    if pm.fmd["num_rows"] != len(model):
        return bad("row_count_mismatch", "_metadata num_rows %d, model %d" % (pm.fmd["num_rows"], len(model)))
    # every column chunk of a row group lives in the same file: fastparquet itself only ever looks at the first
    # chunk, other readers at each of them
    if len(pm.fmd["row_groups"]) != len(refs):
        return bad("row_group_count", "_metadata holds %d row groups, fastparquet lists %d" % (
            len(pm.fmd["row_groups"]), len(refs)))
    for i, g in enumerate(pm.fmd["row_groups"]):
        fps = [c.get("file_path") for c in g["columns"]]
        fps = [x.decode() if isinstance(x, bytes) else x for x in fps]
        if len(set(fps)) != 1 or fps[0] != refs[i]:
            return bad("column_paths_differ", "row group %d of _metadata: column chunks name %r (first chunk: %r)" % (
                i, sorted(set(map(str, fps))), refs[i]))
    return None


def canonical(path):
    import os
    import fastparquet
    h = hashlib.sha256()
    pf = fastparquet.ParquetFile(path)
    for rg in pf.row_groups:
        h.update(("%s:%d;" % (rg.columns[0].file_path, rg.num_rows)).encode())
    for root, dirs, files in sorted(os.walk(path)):
        for f in sorted(files):
            if f.startswith("part."):
                rel = os.path.relpath(os.path.join(root, f), path)
                h.update(rel.encode())
                h.update(hashlib.sha256(open(os.path.join(root, f), "rb").read()).digest())
    return h.hexdigest(), len(pf.row_groups)


def misnumbered(rgl):
    """part.N files whose N is not the position of the first row group they hold"""
    first = {}
    for i, (fp, _) in enumerate(rgl):
        first.setdefault(fp, i)
    out = []
    for fp, i in first.items():
        m = PART_NO.search(fp)
        if m and int(m.group(1)) != i:
            out.append((fp, i))
    return out


def run(point):
    import os
    import shutil
    import fastparquet
    from fastparquet import writer
    from mc.scratch import scratch
    nparts, hist = point["nparts"], point["hist"]
    lay = point.get("lay", "plain")
    d = scratch()
    path = os.path.join(d, "ds")
    parts = ["p", "q"][:nparts]
    sig = {"nparts": nparts, "lay": lay}

    def bad(symptom, detail, **extra):
        s = dict(sig)
        s["symptom"] = symptom
        s["last_op"] = hist[-1]["op"] if hist else "write"
        s["ops"] = ",".join(o["op"] for o in hist)
        s.update(extra)
        return {"ok": False, "outcome": symptom, "nontrivial": True, "sig": s, "detail":
                "layout %s/%d history %r: %s" % (lay, nparts, [_short(o) for o in hist], detail)}

    import pandas as pd
    if lay == "many":
        df0, model = make_frame("many", 0, nparts, lay)
        fastparquet.write(path, df0, file_scheme="hive", partition_on=parts,
                          row_group_offsets=list(range(len(df0))), write_index=False)
    else:
        df0, rows0 = make_frame("abc1", 0, nparts, lay)
        df0b, rows0b = make_frame("ab", 1, nparts, lay)
        fastparquet.write(path, pd.concat([df0, df0b], ignore_index=(lay != "idx")), file_scheme="hive",
                          partition_on=parts, row_group_offsets=[0, 3], write_index=(lay == "idx"))
        model = list(rows0) + list(rows0b)
    kept = None           # the ParquetFile the previous step operated on (and left valid)
    for i, op in enumerate(hist):
        step = i + 2
        try:
            pf, per = read_state(path, nparts, lay)
        except Exception as e:
            return bad("unreadable", "cannot re-open before step %d: %s" % (i, e))
        before_key = canonical(path)[0]
        before_rgl = rg_list(pf)
        if op.get("reuse"):
            if kept is None:
                return {"ok": True, "outcome": "not_applicable", "nontrivial": False}
            pf = kept
        kept = None
        refused = None
        try:
            if op["op"] == "append":
                df, rows = make_frame(op["frame"], step, nparts, lay, op.get("catkeys", False), op.get("unit"))
                fastparquet.write(path, df, file_scheme="hive", partition_on=parts, append=True,
                                  row_group_offsets=op.get("offsets"))
                model = model + rows
            elif op["op"] == "overwrite":
                df, rows = make_frame(op["frame"], step, nparts, lay, op.get("catkeys", False), op.get("unit"))
                new_model = [r for r in model if part_of(r, nparts) not in {part_of(x, nparts) for x in rows}] + rows
                fastparquet.write(path, df, file_scheme="hive", partition_on=parts, append="overwrite",
                                  row_group_offsets=op.get("offsets"))
                model = new_model
            elif op["op"] == "rewrite":
                df, rows = make_frame(op["frame"], step, nparts, lay)
                fastparquet.write(path, df, file_scheme="hive", partition_on=parts, write_index=(lay == "idx"))
                model = rows
            elif op["op"] == "remove":
                n = len(pf.row_groups)
                which = op["rgs"]
                if which == "last":
                    which = [n - 1]
                elif which == "all":
                    which = list(range(n))
                if not which or max(which) >= n or n != len(per):
                    return {"ok": True, "outcome": "not_applicable", "nontrivial": False}
                gone = [r for g in which for r in per[g]]
                pf.remove_row_groups([pf.row_groups[g] for g in which], sort_pnames=op["sort"])
                m2 = list(model)
                for r in gone:
                    m2.remove(r)
                model = m2
            elif op["op"] == "write_rgs":
                df, rows = make_frame(op["frame"], step, nparts, lay)
                pf.write_row_groups(df, sort_key=lambda rg: rg.columns[0].file_path, sort_pnames=True)
                model = model + rows
            elif op["op"] == "sort_names":
                pf._sort_part_names()
        except Exception as e:
            refused = e
        if refused is None and op.get("frame") in BAD_FRAMES:
            return bad("bad_frame_accepted", "step %d %s: a frame with unconvertible values was accepted" % (i, _short(op)),
                       frame=op["frame"])
        if refused is not None:
            # a refusal must leave the dataset exactly as it was
            # refusals that are legitimate and judged only for leaving the state unchanged: partition overwrite
            # on an unpartitioned dataset; any write to a dataset emptied of all row groups (it has no paths
            # left to derive its partitioning from); a frame whose values cannot be converted
            legit = isinstance(refused, ValueError) and ((op["op"] == "overwrite" and nparts == 0)
                                                         or len(before_rgl) == 0
                                                         or op.get("frame") in BAD_FRAMES)
            try:
                after_key = canonical(path)[0]
            except Exception as e2:
                return bad("refusal_damaged", "step %d %s raised %s and the dataset cannot be re-opened: %s" % (
                    i, _short(op), type(refused).__name__, e2), exc=type(refused).__name__)
            if after_key != before_key:
                return bad("refusal_changed_state", "step %d %s raised %s: %s but the dataset changed" % (
                    i, _short(op), type(refused).__name__, str(refused)[:100]), exc=type(refused).__name__,
                    frame=op.get("frame") or "")
            if not legit:
                return bad("operation_raised", "step %d %s raised %s: %s" % (i, _short(op), type(refused).__name__, str(refused)[:150]),
                           exc=type(refused).__name__)
            return {"ok": True, "outcome": "refused", "nontrivial": False}
        # ---- what the operation promises about names and order (judged on a re-opened dataset)
        try:
            after_rgl = rg_list(fastparquet.ParquetFile(path))
        except Exception as e:
            return bad("unreadable", "cannot re-open after step %d %s: %s: %s" % (
                i, _short(op), type(e).__name__, str(e)[:150]), exc=type(e).__name__)
        # (how part files are numbered and in which order the row groups are listed after a renumbering, a sorted
        # write or an overwrite is documented in the docstrings but is not part of this property: observed, not
        # judged)
        # ---- the object the operation was called on must show what a re-opened one shows
        if op["op"] in PF_OPS:
            try:
                mem_rgl = rg_list(pf)
                mem_rows = sorted(rows_of(pf.to_pandas(), lay)) if model else []
            except Exception as e:
                return bad("stale_object", "step %d %s: the ParquetFile the operation was called on cannot be read "
                           "afterwards: %s: %s" % (i, _short(op), type(e).__name__, str(e)[:150]),
                           step_op=op["op"], kind="unreadable")
            if mem_rgl != after_rgl:
                return bad("stale_object", "step %d %s: row groups of the object operated on %r, of a re-opened "
                           "one %r" % (i, _short(op), mem_rgl, after_rgl), step_op=op["op"], kind="row_groups")
            if mem_rows != sorted(model):
                return bad("stale_object", "step %d %s: the object operated on reads %d rows, the model has %d" % (
                    i, _short(op), len(mem_rows), len(model)), step_op=op["op"], kind="rows")
            kept = pf
    r = invariants(path, nparts, model, bad, lay)
    if r is not None:
        return r
    key, nrg = canonical(path)
    return {"ok": True, "outcome": "consistent", "nontrivial": True, "state": key, "nrg": nrg,
            "counts": {"ops": len(hist)}}


def _short(op):
    return "%s(%s%s%s)" % (op["op"], op.get("frame") or op.get("rgs") or "",
                           ",chunks" if op.get("offsets") else "", ",same object" if op.get("reuse") else "")


LEVEL_TEXT = ("Explicit-state BFS (depth 2 quick / 3 thorough after the initial write) over write / append / partition "
              "overwrite (also in several chunks) / removal of every subset of the first four row groups, of the last "
              "and of all / sorted write / renumbering / plain re-write / refused writes, on hive datasets with 0, 1 "
              "and 2 partition columns (string, integer and timestamp values, with and without a written index, part "
              "numbers up to two digits), re-opening the dataset from disk for every step or keeping the object of "
              "the previous step; in every reached state the content is compared with a dict-of-rows model and the "
              "summary metadata is checked against the directory (dangling references, unreferenced part files, row "
              "counts, schemas, file of every column chunk), the object operated on against a re-opened one, and the "
              "part numbering / row-group order against what renumbering, sort_key and overwrite document.")
LEVEL_NOTE = ("Trusted: multiset-of-rows model, specpq footer reader for the part files. States are merged on (row-group "
              "order in _metadata, part file names and bytes), which includes the part numbers later transitions depend on.")
TECHNIQUE = "explicit-state BFS over dataset edit histories on the real directory, multiset reference model, metadata-vs-directory invariants"
