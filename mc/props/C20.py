"""C20 - concurrent reads and derived handles give the same results as sequential use.

Explorer S: stateless, preemption-bounded exploration (CHESS style) of the
interleavings of real threads at source-line granularity inside
fastparquet/{api,schema,core,util,writer,dataframe,converted_types,encoding}.py.
"""
import itertools

ID = "C20"
LEVEL = "model_checking"
FLAVOUR = "plain"
TIMEOUT = 300
RULE = ("thread programs = ordered pairs over the operation alphabet {to_pandas(), to_pandas(columns=[a]), "
        "to_pandas(filters=..on the int column), to_pandas(filters=..on a categorical text column: statistics decoded "
        "through the converted type and memoised in the shared metadata; two constants, selecting one / both row "
        "groups), to_pandas(categories=..), "
        "to_pandas(filters, row_filter=True), to_pandas(columns=[one categorical]) for the unordered and for the ordered categorical (same number of labels), pf[0].to_pandas(), pf[0:2].to_pandas(), list(iter_row_groups()), head(1), "
        "statistics, pickle round trip, dtypes/columns/count, read_row_group_file(rg 1) called directly, str(pf.schema)} "
        "on one shared, fresh handle of a 2-row-group, 4-column (int, an unordered and an ordered categorical of three labels each, string) single-file dataset; over "
        "{pf[0].to_pandas(), to_pandas(), str(pf.schema), dtypes/columns/count} on a handle of a file with a nested schema "
        "(struct holding a list: the schema tree is flattened); over {to_pandas(), to_pandas(columns=[a]), "
        "pf[0].to_pandas(), pf[1].to_pandas(), to_pandas(filters=..on the partition column), list(iter_row_groups()), dtypes/columns/count/"
        "partition values} on a handle of a hive dataset (2 part files, one partition column; module caches emptied "
        "after the handle is built); plus two threads calling writer.make_part_file with one shared schema/fmd; all "
        "schedules with 0 and 1 preemptions at every source line of the traced files (quick: 27 pairs: every "
        "handle-deriving / memoising operation as the preempted thread, filters and dtypes as the preempted thread, a "
        "memoising operation against itself, the schema text against itself, 3 nested-schema and 7 hive pairs (each pick of a row group before and after the parent's full read); thorough: all ordered pairs of the first "
        "11 single-file operations, each further operation before and after {full, categories, pick0, statistics, "
        "itself}, all ordered pairs of the nested and of the hive operations, three "
        "threads at bound 1); in addition all schedules with 2 preemptions placed at focus points; focus points of the "
        "read programs = write points: each operation is run alone under the tracer, a structural fingerprint of the "
        "shared handle (its attributes by identity and by content: metadata, schema tree, memo fields) is taken at "
        "every traced line, and the point that follows a line after which the fingerprint changed is a write point of "
        "that operation (every read pair of the tier); focus points of the part-file program = lines of frames that "
        "received the shared metadata object as an argument, and its write points (fingerprint of the shared metadata "
        "object and of the shared list of schema elements) (thorough: full bound 2); states = scheduling points visited, transitions = "
        "executions (each a complete run of the real threads); oracle: every call's result (values, dtypes, labels, "
        "column order, index) equals its sequential result, no call raises, afterwards the shared handle still reads "
        "the same data and its metadata, number of row groups, dtypes, columns, partition values and pickled state "
        "are those of a fresh handle; part-file bytes and the returned row-group structures equal the sequential "
        "ones and the shared metadata object is unchanged")
ASSUMPTIONS = ["scheduling points at source-line granularity (a switch inside one line is not explored)",
               "GIL semantics; code outside the traced files (pandas, numpy, the C extensions, json.py, compression.py) "
               "runs atomically between two points", "<= 3 threads, <= 2 preemptions",
               "2-preemption schedules of read programs only at write points: a write that leaves the fingerprinted "
               "handle state (attribute identities, contents of metadata / schema / memo fields) unchanged is not a "
               "write point; write points are those of the sequential run of each operation"]

FILES = {"api.py", "schema.py", "core.py", "util.py", "writer.py", "dataframe.py", "converted_types.py", "encoding.py"}
OPS = ["full", "cols_a", "filters", "categories", "pick0", "slice02", "iter", "head1", "statistics", "pickle", "meta"]
MORE_OPS = ["filters_c", "filters_c2", "rrgf", "rowfilter", "schema_text", "cols_c", "cols_c2"]
PARTNERS = ["full", "categories", "pick0", "statistics"]
NESTED_OPS = ["n:pick0", "n:full", "n:schema_text", "n:meta"]
HIVE_OPS = ["h:full", "h:cols_a", "h:pick0", "h:pick1", "h:pfilt", "h:iter", "h:meta"]
QUICK_PAIRS = [# a handle being derived (pf[0], iteration, head) while another thread reads, pickles; a read while one is derived
               ("pick0", "full"), ("cols_a", "pick0"), ("iter", "cols_a"), ("head1", "pickle"),
               ("statistics", "filters"), ("full", "categories"), ("categories", "full"), ("slice02", "meta"),
               # readers of the dtypes attribute next to reads that set it / use other categories
               ("cols_a", "meta"), ("meta", "categories"),
               # filters as the preempted thread: it selects row group 1 only, the other one both; the statistics of a
               # text column are decoded and memoised in the shared metadata
               ("filters_c", "filters_c2"),
               # one categorical column each: the unordered and the ordered one have the same number of labels
               ("cols_c2", "cols_c"), ("cols_c", "cols_c2"),
               # a memoising operation against itself; the direct entry point used by dask
               ("statistics", "statistics"), ("rrgf", "full"),
               # the two-pass row-level filter as the preempted thread
               ("rowfilter", "categories"),
               # nested schema: the tree is flattened after it is built
               ("n:pick0", "n:schema_text"), ("n:schema_text", "n:pick0"),
               # the schema text against itself (module-level state of the printer), flat and nested
               ("schema_text", "schema_text"), ("n:schema_text", "n:schema_text"),
               # hive dataset: a file opened per row group, partition values, path caches
               ("h:pfilt", "h:full"), ("h:pick1", "h:pfilt"), ("h:cols_a", "h:pick1"),
               # a derived handle numbers the partition values it sees on its own (one of two here, and which of the
               # two comes first in the parent is up to a set): both picks, before and after the parent's read
               ("h:pick0", "h:full"), ("h:full", "h:pick0"), ("h:pick1", "h:full"), ("h:full", "h:pick1")]


def kind_of(op):
    return {"n:": "nested", "h:": "hive"}.get(op[:2], "flat")


def programs(tier):
    if tier == "thorough":
        progs = [list(p) for p in itertools.product(OPS, repeat=2)]
        for x in MORE_OPS:
            for p in PARTNERS:
                progs += [[x, p], [p, x]]
            progs.append([x, x])
        progs += [list(p) for p in itertools.product(NESTED_OPS, repeat=2)]
        progs += [list(p) for p in itertools.product(HIVE_OPS, repeat=2)]
        # a uniform bound of 2 on read pairs costs ~2 million schedules per pair (measured); two preemptions are
        # explored at the write points of the operations instead (fbound), and at every point for the part-file pair
        bound2 = set()
        progs3 = [["pick0", "cols_a", "slice02"], ["iter", "full", "head1"]]
    else:
        progs = [list(p) for p in QUICK_PAIRS]
        bound2 = set()
        progs3 = []
    return progs, bound2, progs3


def explore(run, tier):
    st = {"states": 0, "transitions": 0, "max_points": 0}
    progs, bound2, progs3 = programs(tier)
    # write points of every operation (sequential transient-write detector): the focus points of the read programs
    ops = sorted({op for pr in progs + progs3 for op in pr}) + ["part_file"]
    res = run.lattice("write_points", [{"op": op} for op in ops], "run_writes")
    wl = {op: ((r or {}).get("wl") or []) for op, r in zip(ops, res)}
    run.extra["write_lines_per_operation"] = {op: len(v) for op, v in wl.items()}
    initial = []
    for pr in progs:
        initial.append({"prog": pr, "sched": [], "bound": 2 if tuple(pr) in bound2 else 1, "expect": None,
                        "fbound": 2, "allfocus": True, "wl": [wl[op] for op in pr]})
    for pr in progs3:
        initial.append({"prog": pr, "sched": [], "bound": 1, "expect": None, "fbound": 2, "allfocus": True,
                        "wl": [wl[op] for op in pr]})
    # part-file program: fbound = preemption bound for schedules whose preemptions all lie at focus points (frames
    # that received the shared metadata object / schema as an argument)
    initial.append({"prog": ["part_file", "part_file"], "sched": [], "bound": 2 if tier == "thorough" else 1,
                    "expect": None, "fbound": 2, "allfocus": True, "wl": [wl["part_file"], wl["part_file"]]})

    def on_result(point, res, submit):
        if res.get("outcome") in ("crash", "timeout", "harness_error"):
            return
        st["transitions"] += 1
        en = res.get("enabled_n")
        if en is None:
            return
        cost = res["cost"]
        last = max([i for i, _ in point["sched"]] + [-1])
        used = sum(cost[i] for i, _ in point["sched"])
        if not point["sched"]:
            st["states"] += len(en)
            st["max_points"] = max(st["max_points"], len(en))
        else:
            st["states"] += len(en) - last - 1
        dig = res["digests"]
        foc = res.get("focus") or []
        fb = point.get("fbound", 0)
        for i in range(last + 1, len(en)):
            if en[i] < 2:
                continue
            isfoc = bool(foc[i]) if i < len(foc) else False
            if used + cost[i] > point["bound"]:
                if not (fb and used + cost[i] <= fb and point.get("allfocus") and isfoc):
                    continue
                st["focus_schedules"] = st.get("focus_schedules", 0) + en[i] - 1
            for alt in range(1, en[i]):
                child = {"prog": point["prog"], "sched": point["sched"] + [[i, alt]], "bound": point["bound"],
                         "expect": [i, dig[i]], "fbound": fb, "allfocus": bool(point.get("allfocus")) and isfoc}
                if "wl" in point:
                    child["wl"] = point["wl"]
                submit(child)
    run.dynamic("schedules", initial, "run", on_result)
    run.extra.update({"states": st["states"], "transitions": st["transitions"],
                      "traces_validated_against_impl": st["transitions"],
                      "max_points_per_execution": st["max_points"],
                      "schedules_beyond_bound_at_focus_points": st.get("focus_schedules", 0),
                      "schedules": st["transitions"]})


def crash_sig(point, res):
    if "op" in point:
        return {"prog": point["op"], "symptom": res["outcome"], "space": "write_points"}
    return {"prog": "+".join(point["prog"]), "symptom": res["outcome"]}


# ------------------------------------------------------------------------------------
_STATE = {}

# /repo test-data/nested.parq (593 bytes, parquet-mr): spark_schema { nest: struct { thing: list<string> } }, 10 rows in
# one row group.  fastparquet cannot write a struct, and the spec-level writer has no struct either.
NESTED_B64 = (
    "UEFSMRUEFR4VIkwVBBUEAAAPOAIAAABoaQUAAAB3b3JsZBUAFSYVKiwVKBUEFQYVBhwYBXdvcmxkGAJoaRYAAAAAE0gEAAAAB6qq"
    "CgIAAAAoBAEHqqoKFQIZXEgMc3Bhcmtfc2NoZW1hFQIANQIYBG5lc3QVAgA1AhgFdGhpbmcVAhUGADUEGARsaXN0FQIAFQwlAhgH"
    "ZWxlbWVudCUAABYUGRwZHCYIHBUMGSUEBhlIBG5lc3QFdGhpbmcEbGlzdAdlbGVtZW50FQIWKBaeARamASYIPBgFd29ybGQYAmhp"
    "FgAAAAAWngEWFAAZHBgpb3JnLmFwYWNoZS5zcGFyay5zcWwucGFycXVldC5yb3cubWV0YWRhdGEY4AF7InR5cGUiOiJzdHJ1Y3Qi"
    "LCJmaWVsZHMiOlt7Im5hbWUiOiJuZXN0IiwidHlwZSI6eyJ0eXBlIjoic3RydWN0IiwiZmllbGRzIjpbeyJuYW1lIjoidGhpbmci"
    "LCJ0eXBlIjp7InR5cGUiOiJhcnJheSIsImVsZW1lbnRUeXBlIjoic3RyaW5nIiwiY29udGFpbnNOdWxsIjp0cnVlfSwibnVsbGFi"
    "bGUiOnRydWUsIm1ldGFkYXRhIjp7fX1dfSwibnVsbGFibGUiOnRydWUsIm1ldGFkYXRhIjp7fX1dfQAYSXBhcnF1ZXQtbXIgdmVy"
    "c2lvbiAxLjguMSAoYnVpbGQgNGFiYTRkYWU3YmIwZDRlZGJjZjc5MjNhZTEzMzlmMjhmZDNmN2ZjZikA8gEAAFBBUjE="
)


def dataset(kind="flat"):
    """created once per worker process"""
    import base64
    import os
    import pandas as pd
    import fastparquet
    from mc.scratch import scratch
    if "dir" not in _STATE:
        _STATE["dir"] = scratch("c20-%d" % os.getpid())
        _STATE["df"] = pd.DataFrame({"a": pd.Series(range(6), dtype="int64"),
                                     "c": pd.Categorical(["x", "y", "x", "z", "y", "x"]),
                                     # a second categorical column: to_pandas(categories=["c"]) reads it as plain text, so the
                                     # categories option of one call changes what another call would see if state leaked
                                     # (ordered, with as many labels as c: whatever is shared per label count or per
                                     # call between categorical columns shows in the order flag)
                                     "c2": pd.Categorical(["k", "k", "l", "m", "l", "k"], categories=["k", "l", "m"],
                                                          ordered=True),
                                     "s": pd.Series(["s0", None, "s2", "s3", "s4", None], dtype=object)})
    key = ("path", kind)
    if key not in _STATE:
        d = _STATE["dir"]
        df = _STATE["df"]
        if kind == "flat":
            path = os.path.join(d, "t.parquet")
            fastparquet.write(path, df, row_group_offsets=[0, 3], write_index=False, stats=True)
        elif kind == "nested":
            path = os.path.join(d, "nested.parq")
            with open(path, "wb") as f:
                f.write(base64.b64decode(NESTED_B64))
        elif kind == "hive":
            path = os.path.join(d, "hive")
            h = df[["a", "c"]].copy()
            h["p"] = ["u", "u", "u", "v", "v", "v"]
            fastparquet.write(path, h, file_scheme="hive", partition_on=["p"], write_index=False, stats=True)
        else:
            raise KeyError(kind)
        _STATE[key] = path
    return _STATE[key]


def open_handle(kind):
    """a fresh handle; cold module caches (for the hive dataset also after the handle is built: emptying a pure
    cache must never change a result, and the check-then-fill of the path caches then happens inside the threads)"""
    import fastparquet
    path = dataset(kind)
    reset_caches()
    pf = fastparquet.ParquetFile(path)
    if kind == "hive":
        reset_caches()
    return pf


def canon_df(df):
    from mc import oracles as O
    # values and the column's dtype (a categorical also by its labels): an option leaking from one call into
    # another changes the dtype, not the values; also the order of the columns and the row index
    out = {}
    for c in df.columns:
        dt = df[c].array.dtype
        labels = [O.canon_cell(x) for x in dt.categories.tolist()] if hasattr(dt, "categories") else None
        out[str(c)] = (repr(O.dtype_kind(dt)), labels, O.series_to_list(df[c]))
    out["<column order>"] = [str(c) for c in df.columns]
    try:
        out["<index>"] = (list(df.index.names), [O.canon_cell(x) for x in df.index.tolist()])
    except Exception:
        out["<index>"] = repr(df.index)
    return out


def _meta(pf):
    return (list(pf.columns), {k: str(v) for k, v in pf.dtypes.items()}, pf.count(), pf.info["rows"],
            {k: [str(x) for x in v] for k, v in pf.cats.items()})


def op_body(op, pf):
    import pickle
    if op in ("full", "n:full", "h:full"):
        return lambda: canon_df(pf.to_pandas())
    if op in ("cols_a", "h:cols_a"):
        return lambda: canon_df(pf.to_pandas(columns=["a"]))
    if op == "cols_c":
        return lambda: canon_df(pf.to_pandas(columns=["c"]))
    if op == "cols_c2":
        return lambda: canon_df(pf.to_pandas(columns=["c2"]))
    if op == "filters":
        return lambda: canon_df(pf.to_pandas(filters=[("a", ">", 2)]))
    if op == "filters_c":
        # row-group statistics of a text column: decoded, converted (UTF8) and memoised in the statistics structure
        return lambda: canon_df(pf.to_pandas(filters=[("c", ">", "y")]))     # row group 1 only
    if op == "filters_c2":
        # both row groups; both cached bounds are used
        return lambda: canon_df(pf.to_pandas(filters=[("c", ">=", "y"), ("c", "<=", "z")]))
    if op == "rowfilter":
        return lambda: canon_df(pf.to_pandas(filters=[("a", ">", 3)], row_filter=True))
    if op == "categories":
        return lambda: canon_df(pf.to_pandas(categories=["c"]))
    if op in ("pick0", "n:pick0"):
        return lambda: canon_df(pf[0].to_pandas())
    if op == "h:pick1":
        return lambda: canon_df(pf[1].to_pandas())
    if op == "h:pick0":
        return lambda: canon_df(pf[0].to_pandas())
    if op == "h:pfilt":
        return lambda: canon_df(pf.to_pandas(filters=[("p", "==", "v")]))
    if op == "slice02":
        return lambda: canon_df(pf[0:2].to_pandas())
    if op in ("iter", "h:iter"):
        return lambda: [canon_df(x) for x in pf.iter_row_groups()]
    if op == "head1":
        return lambda: canon_df(pf.head(1))
    if op == "statistics":
        return lambda: repr(pf.statistics)
    if op == "pickle":
        return lambda: canon_df(pickle.loads(pickle.dumps(pf)).to_pandas())
    if op == "meta":
        return lambda: (list(pf.columns), {k: str(v) for k, v in pf.dtypes.items()}, pf.count(), pf.info["rows"])
    if op in ("n:meta", "h:meta"):
        return lambda: _meta(pf)
    if op == "rrgf":
        # the entry point dask uses: one row group, output allocated by the call
        return lambda: canon_df(pf.read_row_group_file(pf.row_groups[1], ["a", "c", "s"], None))
    if op in ("schema_text", "n:schema_text"):
        return lambda: str(pf.schema)
    raise KeyError(op)


def reset_caches():
    from fastparquet import util, json as fpjson
    try:
        util._val_to_num.cache_clear()
    except Exception:
        pass
    util.seps.clear()
    try:
        fpjson._codec_cache.clear()
    except Exception:
        pass


def sequential(op):
    key = ("seq", op)
    if key not in _STATE:
        pf = open_handle(kind_of(op))
        _STATE[key] = op_body(op, pf)()
    return _STATE[key]


def part_file_bodies():
    """two threads writing independent part files with one shared schema / fmd"""
    import io
    from fastparquet import writer

    class Mem(io.BytesIO):
        def close(self):
            self.final = self.getvalue()
            super().close()

        def __exit__(self, *a):
            self.close()
    dataset()
    df = _STATE["df"]
    fmd = writer.make_metadata(df, has_nulls=True, object_encoding="infer")
    schema = fmd.schema       # one list of schema elements for both threads
    outs = [Mem(), Mem()]
    parts = [df.iloc[:3], df.iloc[3:]]

    def body(i):
        def f():
            rg = writer.make_part_file(outs[i], parts[i], schema, fmd=fmd)
            # the bytes of the file and the row group the call hands back (dask collects these into _metadata)
            return outs[i].final, _struct("RowGroup", rg)
        return f
    return [body(0), body(1)], fmd, schema


def _struct(name, obj):
    """a thrift object as a plain structure (field order of the serialisation is not compared)"""
    from mc.specpq.thrift import codec
    return codec().decode(name, bytes(obj.to_bytes()), tolerate=("empty_list_type0",))[0]


def _fmd_struct(fmd):
    return _struct("FileMetaData", fmd)


def handle_state(pf):
    """what a fresh handle answers about itself without reading data; compared after every run"""
    st = pf.__getstate__()
    return {"metadata": _fmd_struct(pf.fmd), "len": len(pf), "row_groups": len(pf.row_groups),
            "dtypes": [(k, str(v)) for k, v in pf.dtypes.items()], "columns": list(pf.columns),
            "partition_values": {k: [str(x) for x in v] for k, v in pf.cats.items()}, "file_scheme": pf.file_scheme,
            "pickled_state": {k: repr(v) for k, v in sorted(st.items()) if k not in ("fmd", "open")}}


def fresh_state(kind):
    key = ("state", kind)
    if key not in _STATE:
        _STATE[key] = handle_state(open_handle(kind))
    return _STATE[key]


def handle_fingerprint(pf, *more):
    """structural fingerprint of everything reachable from the handle's attributes: identities of the attribute
    values (a rebinding is a write) and contents of metadata, schema tree, memo dicts (a mutation in place is one);
    for the part-file program: of the shared metadata object and the shared list of schema elements"""
    import numpy as np
    seen = {}

    def walk(o, depth):
        if o is None or isinstance(o, (bool, int, float, str, bytes)):
            return o
        if isinstance(o, np.ndarray):
            return ("a", o.dtype.str, o.shape, o.tobytes() if o.size <= 64 and o.dtype.kind != "O" else repr(o.tolist())[:200])
        if isinstance(o, (np.generic, np.dtype)):
            return ("s", repr(o))
        inner = o
        tag = type(o).__name__
        if hasattr(o, "thrift_name") and hasattr(o, "contents"):
            inner = o.contents          # wrappers are made per access; the dict underneath is the object
            tag = "T:" + o.thrift_name
        key = id(inner)
        if key in seen:
            return ("ref", seen[key])
        if depth > 14:
            return ("deep", tag)
        if isinstance(inner, dict):
            seen[key] = len(seen)
            return (tag, tuple((k if isinstance(k, (str, int, bytes)) else repr(k), walk(v, depth + 1))
                               for k, v in inner.items()))
        if isinstance(inner, (list, tuple)):
            seen[key] = len(seen)
            return (tag, tuple(walk(v, depth + 1) for v in inner))
        if isinstance(inner, (set, frozenset)):
            return (tag, tuple(sorted(repr(v) for v in inner)))
        if type(o).__module__.startswith("fastparquet") and hasattr(o, "__dict__"):
            seen[key] = len(seen)
            return (tag, tuple((k, walk(v, depth + 1)) for k, v in vars(o).items()))
        if type(o).__module__.startswith(("pandas", "datetime")) and not hasattr(o, "__len__"):
            return (tag, repr(o))
        return ("opaque", tag)
    shallow = tuple((k, id(v)) for k, v in vars(pf).items()) if hasattr(pf, "__dict__") else ()
    return hash((shallow, walk(pf, 0), tuple(walk(o, 0) for o in more)))


def run_writes(point):
    """sequential transient-write detector: the write points of one operation (see mc.sched.write_points)"""
    from mc.sched import write_points
    op = point["op"]
    if op == "part_file":
        reset_caches()
        bodies, fmd, schema = part_file_bodies()
        wl, n, w, err = write_points(lambda: [b() for b in bodies], FILES, lambda: handle_fingerprint(fmd, schema))
    else:
        pf = open_handle(kind_of(op))
        wl, n, w, err = write_points(op_body(op, pf), FILES, lambda: handle_fingerprint(pf))
    if err is not None:
        return {"ok": False, "outcome": "call_raised", "nontrivial": True,
                "sig": {"prog": op, "symptom": "call_raised", "space": "write_points", "exc": type(err).__name__},
                "detail": "operation %s alone raised %s: %s" % (op, type(err).__name__, str(err)[:200])}
    return {"ok": True, "outcome": "write_points", "nontrivial": True, "wl": wl,
            "counts": {"line_events_fingerprinted": n, "writes_seen": w, "write_lines": len(wl)}}


def run(point):
    from mc.sched import Execution, prefix_digests
    prog = point["prog"]
    sched = {int(i): int(a) for i, a in point["sched"]}
    if prog[0] == "part_file":
        key = ("seq", "part_file")
        if key not in _STATE:
            reset_caches()
            bodies, _, _ = part_file_bodies()
            _STATE[key] = [b() for b in bodies]
        reset_caches()
        bodies, fmd, schema = part_file_bodies()
        expected = _STATE[key]
        pf = None
        # frames that received the shared metadata object; receiving the schema list or one of its elements would
        # make 80 resp. 742 focus points per thread (6 400 / 550 000 schedules): the write points cover them instead
        shared = [fmd]
        fmd_before = _fmd_struct(fmd)
        wlines = point.get("wl") if point.get("fbound") else None
    else:
        kind = kind_of(prog[0])
        expected = [sequential(op) for op in prog]
        state_before = fresh_state(kind)
        pf = open_handle(kind)
        bodies = [op_body(op, pf) for op in prog]
        shared = ()
        wlines = point.get("wl") if point.get("fbound") else None
    ex = Execution(bodies, sched, FILES, expect=tuple(point["expect"]) if point.get("expect") else None,
                   shared=shared if point.get("fbound") else (), write_lines=wlines).run()
    npts = len(ex.enabled_n)
    out = {"enabled_n": ex.enabled_n, "cost": ex.preempt_cost, "digests": prefix_digests(ex.trace), "focus": ex.focus,
           "counts": {"points": npts}, "nontrivial": len(sched) > 0 or npts > 0}
    sig = {"prog": "+".join(prog)}
    where = ""
    if sched:
        i = max(sched)
        if i < len(ex.trace):
            lab = ex.trace[i]
            where = "%s:%s" % (lab[1], lab[2])
            sig["preempted_in"] = lab[1]

    def bad(symptom, detail, **extra):
        s = dict(sig)
        s["symptom"] = symptom
        s.update(extra)
        out.update({"ok": False, "outcome": symptom, "sig": s,
                    "detail": "threads %r, schedule %r (preempting thread %s at %s): %s" % (
                        prog, point["sched"], ex.trace[max(sched)][0] if sched and max(sched) < len(ex.trace) else "-", where, detail)})
        return out

    if ex.error:
        if "diverged" in ex.error or "schedule choice" in ex.error:
            out.update({"ok": False, "outcome": "harness_error", "detail": "replay divergence: " + ex.error})
            return out
        return bad("hang", ex.error)
    for t, (res, exp) in enumerate(zip(ex.results, expected)):
        if res is None:
            return bad("no_result", "thread %d produced no result" % t, thread_op=prog[t])
        if res[0] == "raised":
            return bad("call_raised", "thread %d (%s) raised %s" % (t, prog[t], res[1]), thread_op=prog[t],
                       exc=res[1].split(":")[0])
        if res[0] != "ok":
            out.update({"ok": False, "outcome": "harness_error", "detail": "thread diverged"})
            return out
        if res[1] != exp:
            if pf is None and res[1][0] == exp[0]:
                return bad("wrong_result", "thread %d: make_part_file wrote the sequential bytes but returned another "
                           "row-group structure" % t, thread_op=prog[t], what="returned_row_group")
            return bad("wrong_result", "thread %d (%s) returned a result different from its sequential result" % (t, prog[t]),
                       thread_op=prog[t])
    if pf is None:
        try:
            same = _fmd_struct(fmd) == fmd_before
        except Exception as e:
            return bad("shared_metadata_disturbed", "after the run the shared metadata object cannot be serialised: %s" % e)
        if not same:
            return bad("shared_metadata_disturbed", "after the run the shared metadata object differs from before")
    if pf is not None:
        try:
            after = canon_df(pf.to_pandas())
        except Exception as e:
            return bad("handle_disturbed", "after the run the shared handle raises %s: %s" % (type(e).__name__, e))
        if after != sequential({"flat": "full", "nested": "n:full", "hive": "h:full"}[kind]):
            return bad("handle_disturbed", "after the run the shared handle reads different data")
        try:
            state_after = handle_state(pf)
        except Exception as e:
            return bad("handle_disturbed", "after the run the shared handle cannot describe itself: %s: %s" % (
                type(e).__name__, e), what="state")
        for k, v in state_before.items():
            if state_after.get(k) != v:
                return bad("handle_disturbed", "after the run the shared handle's %s differ(s) from a fresh handle's: "
                           "%.150r instead of %.150r" % (k, state_after.get(k), v), what=k)
    out.update({"ok": True, "outcome": "same_as_sequential"})
    return out


LEVEL_TEXT = ("Stateless model checking of the real threads with iterative context bounding: every schedule with at most "
              "one preemption (two, at every point, for the part-file pair in the thorough tier) at every "
              "source line of the library's Python files is executed on a fresh handle under a cooperative scheduler "
              "that owns every switch; schedules with two preemptions are added where both lie at write points of the "
              "preempted operations (found by a sequential detector that fingerprints the shared handle at every "
              "traced line); each replay validates the recorded trace prefix (divergence is a harness error, "
              "not a verdict); results are compared with the sequential results.")
LEVEL_NOTE = ("Trusted: sys.settrace line events as the set of scheduling points; CPython GIL semantics; code outside the "
              "traced files is atomic between points. A free-running stress pass is not part of the verdict.")
TECHNIQUE = "stateless preemption-bounded schedule exploration (CHESS style) of real threads under a cooperative scheduler"
