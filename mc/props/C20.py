"""C20 - concurrent reads and derived handles give the same results as sequential use.

Explorer S: stateless, preemption-bounded exploration (CHESS style) of the
interleavings of real threads at source-line granularity inside
fastparquet/{api,schema,core,util,writer,dataframe,converted_types}.py.
"""
import itertools

ID = "C20"
LEVEL = "model_checking"
FLAVOUR = "plain"
TIMEOUT = 300
RULE = ("thread programs = ordered pairs over the operation alphabet {to_pandas(), to_pandas(columns=[a]), "
        "to_pandas(filters=..), to_pandas(categories=..), pf[0].to_pandas(), pf[0:2].to_pandas(), "
        "list(iter_row_groups()), head(1), statistics, pickle round trip, dtypes/columns/count} on one shared, "
        "fresh handle of a 2-row-group, 4-column (int, two categoricals, string) dataset, plus two threads calling "
        "writer.make_part_file with one shared schema/fmd; all schedules with 0 and 1 preemptions at every source "
        "line of the traced files (quick: 9 pairs incl. every handle-deriving / memoising operation; thorough: all "
        "ordered pairs at bound 1, the deriving pairs at bound 2, three threads at bound 1); in addition all "
        "schedules with 2 preemptions placed at focus points = lines of frames that received the shared object "
        "(handle, one of its attribute objects, the metadata object) as an argument (quick: the part-file pair; "
        "thorough: the 9 quick pairs and the part-file pair, the latter also at full bound 2); states = scheduling "
        "points visited, transitions = executions (each a complete run of the real threads); oracle: every call's "
        "result equals its sequential result, no call raises, the shared handle still reads correctly afterwards, "
        "part-file bytes equal the sequential bytes")
ASSUMPTIONS = ["scheduling points at source-line granularity (a switch inside one line is not explored)",
               "GIL semantics; code outside the traced files (pandas, numpy, the C extensions) runs atomically "
               "between two points", "<= 3 threads, <= 2 preemptions"]

FILES = {"api.py", "schema.py", "core.py", "util.py", "writer.py", "dataframe.py", "converted_types.py", "encoding.py"}
OPS = ["full", "cols_a", "filters", "categories", "pick0", "slice02", "iter", "head1", "statistics", "pickle", "meta"]
QUICK_PAIRS = [("pick0", "cols_a"), ("cols_a", "pick0"), ("iter", "full"), ("head1", "filters"),
               ("statistics", "filters"), ("pickle", "slice02"), ("full", "categories"), ("categories", "full"), ("slice02", "meta")]


def explore(run, tier):
    st = {"states": 0, "transitions": 0, "max_points": 0}
    if tier == "thorough":
        progs = [list(p) for p in itertools.product(OPS, repeat=2)]
        bound2 = {("pick0", "cols_a"), ("cols_a", "pick0"), ("iter", "full"), ("slice02", "statistics")}
        progs3 = [["pick0", "cols_a", "slice02"], ["iter", "full", "head1"]]
    else:
        progs = [list(p) for p in QUICK_PAIRS]
        bound2 = set()
        progs3 = []
    # fbound: preemption bound for schedules whose preemptions all lie at focus points (frames that received the
    # shared handle / metadata object as an argument)
    focus2 = set(QUICK_PAIRS) if tier == "thorough" else set()
    initial = []
    for pr in progs:
        initial.append({"prog": pr, "sched": [], "bound": 2 if tuple(pr) in bound2 else 1, "expect": None,
                        "fbound": 2 if tuple(pr) in focus2 else 0, "allfocus": True})
    for pr in progs3:
        initial.append({"prog": pr, "sched": [], "bound": 1, "expect": None, "fbound": 0, "allfocus": True})
    initial.append({"prog": ["part_file", "part_file"], "sched": [], "bound": 2 if tier == "thorough" else 1,
                    "expect": None, "fbound": 2, "allfocus": True})

    def on_result(point, res, submit):
        if res.get("outcome") in ("crash", "timeout", "harness_error"):
            return
        st["transitions"] += 1
        en = res.get("enabled_n")
        if en is None:
            return
        cost = res["cost"]
        last = max([i for i, _ in point["sched"]] + [-1])
        used = sum(cost[i] for i, _ in point["sched"])
        if not point["sched"]:
            st["states"] += len(en)
            st["max_points"] = max(st["max_points"], len(en))
        else:
            st["states"] += len(en) - last - 1
        dig = res["digests"]
        foc = res.get("focus") or []
        fb = point.get("fbound", 0)
        for i in range(last + 1, len(en)):
            if en[i] < 2:
                continue
            isfoc = bool(foc[i]) if i < len(foc) else False
            if used + cost[i] > point["bound"]:
                if not (fb and used + cost[i] <= fb and point.get("allfocus") and isfoc):
                    continue
                st["focus_schedules"] = st.get("focus_schedules", 0) + en[i] - 1
            for alt in range(1, en[i]):
                submit({"prog": point["prog"], "sched": point["sched"] + [[i, alt]], "bound": point["bound"],
                        "expect": [i, dig[i]], "fbound": fb, "allfocus": bool(point.get("allfocus")) and isfoc})
    run.dynamic("schedules", initial, "run", on_result)
    run.extra.update({"states": st["states"], "transitions": st["transitions"],
                      "traces_validated_against_impl": st["transitions"],
                      "max_points_per_execution": st["max_points"],
                      "schedules_beyond_bound_at_focus_points": st.get("focus_schedules", 0),
                      "schedules": st["transitions"]})


def crash_sig(point, res):
    return {"prog": "+".join(point["prog"]), "symptom": res["outcome"]}


# ------------------------------------------------------------------------------------
_STATE = {}


def dataset():
    """created once per worker process"""
    import os
    import pandas as pd
    import fastparquet
    from mc.scratch import scratch
    if "path" not in _STATE:
        d = scratch("c20-%d" % os.getpid())
        df = pd.DataFrame({"a": pd.Series(range(6), dtype="int64"),
                           "c": pd.Categorical(["x", "y", "x", "z", "y", "x"]),
                           # a second categorical column: to_pandas(categories=["c"]) reads it as plain text, so the
                           # categories option of one call changes what another call would see if state leaked
                           "c2": pd.Categorical(["k", "k", "l", "m", "l", "k"]),
                           "s": pd.Series(["s0", None, "s2", "s3", "s4", None], dtype=object)})
        path = os.path.join(d, "t.parquet")
        fastparquet.write(path, df, row_group_offsets=[0, 3], write_index=False, stats=True)
        _STATE["path"] = path
        _STATE["df"] = df
    return _STATE["path"]


def canon_df(df):
    from mc import oracles as O
    # values and the column's dtype (a categorical also by its labels): an option leaking from one call into
    # another changes the dtype, not the values
    out = {}
    for c in df.columns:
        dt = df[c].array.dtype
        labels = [O.canon_cell(x) for x in dt.categories.tolist()] if hasattr(dt, "categories") else None
        out[str(c)] = (repr(O.dtype_kind(dt)), labels, O.series_to_list(df[c]))
    return out


def op_body(op, pf):
    import pickle
    if op == "full":
        return lambda: canon_df(pf.to_pandas())
    if op == "cols_a":
        return lambda: canon_df(pf.to_pandas(columns=["a"]))
    if op == "filters":
        return lambda: canon_df(pf.to_pandas(filters=[("a", ">", 2)]))
    if op == "categories":
        return lambda: canon_df(pf.to_pandas(categories=["c"]))
    if op == "pick0":
        return lambda: canon_df(pf[0].to_pandas())
    if op == "slice02":
        return lambda: canon_df(pf[0:2].to_pandas())
    if op == "iter":
        return lambda: [canon_df(x) for x in pf.iter_row_groups()]
    if op == "head1":
        return lambda: canon_df(pf.head(1))
    if op == "statistics":
        return lambda: repr(pf.statistics)
    if op == "pickle":
        return lambda: canon_df(pickle.loads(pickle.dumps(pf)).to_pandas())
    if op == "meta":
        return lambda: (list(pf.columns), {k: str(v) for k, v in pf.dtypes.items()}, pf.count(), pf.info["rows"])
    raise KeyError(op)


def reset_caches():
    from fastparquet import util, json as fpjson
    try:
        util._val_to_num.cache_clear()
    except Exception:
        pass
    util.seps.clear()
    try:
        fpjson._codec_cache.clear()
    except Exception:
        pass


def sequential(op):
    import fastparquet
    key = ("seq", op)
    if key not in _STATE:
        reset_caches()
        pf = fastparquet.ParquetFile(dataset())
        _STATE[key] = op_body(op, pf)()
    return _STATE[key]


def part_file_bodies():
    """two threads writing independent part files with one shared schema / fmd"""
    import io
    import pandas as pd
    from fastparquet import writer

    class Mem(io.BytesIO):
        def close(self):
            self.final = self.getvalue()
            super().close()

        def __exit__(self, *a):
            self.close()
    df = _STATE["df"]
    fmd = writer.make_metadata(df, has_nulls=True, object_encoding="infer")
    outs = [Mem(), Mem()]
    parts = [df.iloc[:3], df.iloc[3:]]

    def body(i):
        def f():
            writer.make_part_file(outs[i], parts[i], fmd.schema, fmd=fmd)
            return outs[i].final
        return f
    return [body(0), body(1)], fmd


def _fmd_struct(fmd):
    """the shared metadata object as a plain structure (field order of the serialisation is not compared)"""
    from mc.specpq.thrift import codec
    return codec().decode("FileMetaData", fmd.to_bytes(), tolerate=("empty_list_type0",))[0]


def run(point):
    import fastparquet
    from mc.sched import Execution, prefix_digests
    prog = point["prog"]
    sched = {int(i): int(a) for i, a in point["sched"]}
    path = dataset()
    reset_caches()
    if prog[0] == "part_file":
        key = ("seq", "part_file")
        if key not in _STATE:
            bodies, _ = part_file_bodies()
            _STATE[key] = [b() for b in bodies]
        bodies, fmd = part_file_bodies()
        expected = _STATE[key]
        pf = None
        shared = [fmd]
        fmd_before = _fmd_struct(fmd)
    else:
        expected = [sequential(op) for op in prog]
        reset_caches()
        pf = fastparquet.ParquetFile(path)
        bodies = [op_body(op, pf) for op in prog]
        shared = [pf] + [v for v in vars(pf).values() if not isinstance(v, (str, bytes, int, float, bool, type(None)))]
    ex = Execution(bodies, sched, FILES, expect=tuple(point["expect"]) if point.get("expect") else None,
                   shared=shared if point.get("fbound") else ()).run()
    npts = len(ex.enabled_n)
    out = {"enabled_n": ex.enabled_n, "cost": ex.preempt_cost, "digests": prefix_digests(ex.trace), "focus": ex.focus,
           "counts": {"points": npts}, "nontrivial": len(sched) > 0 or npts > 0}
    sig = {"prog": "+".join(prog)}
    where = ""
    if sched:
        i = max(sched)
        if i < len(ex.trace):
            lab = ex.trace[i]
            where = "%s:%s" % (lab[1], lab[2])
            sig["preempted_in"] = lab[1]

    def bad(symptom, detail, **extra):
        s = dict(sig)
        s["symptom"] = symptom
        s.update(extra)
        out.update({"ok": False, "outcome": symptom, "sig": s,
                    "detail": "threads %r, schedule %r (preempting thread %s at %s): %s" % (
                        prog, point["sched"], ex.trace[max(sched)][0] if sched and max(sched) < len(ex.trace) else "-", where, detail)})
        return out

    if ex.error:
        if "diverged" in ex.error or "schedule choice" in ex.error:
            out.update({"ok": False, "outcome": "harness_error", "detail": "replay divergence: " + ex.error})
            return out
        return bad("hang", ex.error)
    for t, (res, exp) in enumerate(zip(ex.results, expected)):
        if res is None:
            return bad("no_result", "thread %d produced no result" % t, thread_op=prog[t])
        if res[0] == "raised":
            return bad("call_raised", "thread %d (%s) raised %s" % (t, prog[t], res[1]), thread_op=prog[t],
                       exc=res[1].split(":")[0])
        if res[0] != "ok":
            out.update({"ok": False, "outcome": "harness_error", "detail": "thread diverged"})
            return out
        if res[1] != exp:
            return bad("wrong_result", "thread %d (%s) returned a result different from its sequential result" % (t, prog[t]),
                       thread_op=prog[t])
    if pf is None:
        try:
            same = _fmd_struct(fmd) == fmd_before
        except Exception as e:
            return bad("shared_metadata_disturbed", "after the run the shared metadata object cannot be serialised: %s" % e)
        if not same:
            return bad("shared_metadata_disturbed", "after the run the shared metadata object differs from before")
    if pf is not None:
        try:
            after = canon_df(pf.to_pandas())
        except Exception as e:
            return bad("handle_disturbed", "after the run the shared handle raises %s: %s" % (type(e).__name__, e))
        if after != sequential("full"):
            return bad("handle_disturbed", "after the run the shared handle reads different data")
    out.update({"ok": True, "outcome": "same_as_sequential"})
    return out


LEVEL_TEXT = ("Stateless model checking of the real threads with iterative context bounding: every schedule with at most "
              "one preemption (two for the handle-deriving pairs and three-thread programs in the thorough tier) at every "
              "source line of the library's Python files is executed on a fresh handle under a cooperative scheduler "
              "that owns every switch; each replay validates the recorded trace prefix (divergence is a harness error, "
              "not a verdict); results are compared with the sequential results.")
LEVEL_NOTE = ("Trusted: sys.settrace line events as the set of scheduling points; CPython GIL semantics; code outside the "
              "traced files is atomic between points. A free-running stress pass is not part of the verdict.")
TECHNIQUE = "stateless preemption-bounded schedule exploration (CHESS style) of real threads under a cooperative scheduler"
