"""C19 - an append interrupted before its metadata update leaves the old dataset intact.

Explorer F: a counting run records every write-side environment call issued by
the append through the public open_with / mkdirs parameters; then for every k up
to (and including) the first call that touches _metadata for writing the append
is re-run on a fresh copy of the dataset with call k failing (OSError; for write
calls also a torn write) and with the process abandoned at k (os._exit in a
forked child: no handler of the library runs, unflushed buffers are lost).

The counting run itself is judged too: the summary files are written last, every
file the append creates or changes was opened through open_with, every directory
through mkdirs, and no pre-existing data file is touched.
"""
import os

ID = "C19"
LEVEL = "fault_enumeration"
FLAVOUR = "plain"
TIMEOUT = 300
RULE = ("scenario families: A = hive dataset {unpartitioned, partitioned on 1 column, on 2 columns} x existing row groups "
        "{1, 3} x appended frame producing 1 / 2 / 4 new row groups x {first append, second append}; N (part numbering "
        "histories) = {11 existing part files, 3 written of which the first 2 were removed} x {unpartitioned, 1 partition "
        "column} x 2 new row groups; Z = append to a dataset of 0 row groups (unpartitioned) x 1 / 2 / 4 new row groups; "
        "S = ParquetFile.write_row_groups through an fsspec-style environment (open_with = the bound open of a local "
        "filesystem subclass, whose rename / mv / rm are fault points as well) x options {none, sort_key, sort_key + "
        "sort_pnames} x {unpartitioned, 1 partition column} x 1 / 2 new row groups on 3 existing ones; H = the append under faults is the second write_row_groups of one handle whose first one succeeded x {unpartitioned, 1, 2 partition columns}; I = the new data given to write_row_groups as an iterable of frames x {unpartitioned, 1 partition column}; every scenario is "
        "split into cells by k modulo the number of new row groups; fault points = every "
        "write-side call (mkdirs, open for writing, write, close, rename) before the first call that opens _metadata for "
        "writing, and that opening call itself (it fails before it truncates), each with variants {OSError, torn write (first half written, then OSError), crash (process "
        "abandoned), sticky (this and every later write-side call fail), diskfull (a write fails - quick: the first or the last write of a file, thorough: any - then every later write / close / "
        "mkdirs / rename fails while files can still be opened and truncated)}; retry history (families A, N, Z): "
        "after a fault at the opening or the closing call of a new part file (thorough: at every call) the same append is "
        "repeated without faults, once through a fresh fastparquet.write and once through the very ParquetFile handle "
        "whose write_row_groups failed; thorough adds deviation bound "
        "2: for every first fault, every second failing call among those the library still issues afterwards, and larger N / Z / S families; "
        "oracle: if the append raised or was abandoned a fresh ParquetFile(dir) reads exactly the old "
        "rows (id, s, p, q) and _metadata / _common_metadata are byte-identical; if it returned normally exactly the new rows; after a retry exactly the new rows; "
        "no pre-existing data file is opened in a "
        "writing mode or changed (renaming by sort_pnames is allowed once the append returned); on the fault-free trace: "
        "no call on a data file or directory after the first opening of a summary file, at least 3 calls per expected new "
        "part file before it, every created / changed file was opened through open_with (or is the target of a rename), "
        "every created directory went through mkdirs; non-trivial = a fault point at which the append had already issued >= 1 "
        "write-side call")
ASSUMPTIONS = ["one failing call per execution (quick), up to two or a failing suffix (sticky)", "faults are injected on write-side calls only (reads pass through)",
               "crash = os._exit at the call, on tmpfs (no reordering of completed writes)",
               "datasets carry a _metadata file (a directory of part files without summary has no commit point: outside the property)"]
SUMMARY = ("_metadata", "_common_metadata")


def points(tier):
    pts = []

    def add(slices, **kw):
        # one scenario = `slices` cells; cell j takes the fault points k with k % slices == j
        for j in range(slices):
            pts.append(dict(kw, slice=j, slices=slices, tier=tier))

    thorough = tier == "thorough"
    # family A
    for parts in (0, 1, 2):
        for existing in (1, 3):
            for newrgs in (1, 2, 4):
                for second in (False, True):
                    add(newrgs, parts=parts, existing=existing, newrgs=newrgs, second=second)
    # family N: part numbers with two digits / part numbers that do not start at 0
    for parts in ((0, 1, 2) if thorough else (0, 1)):
        for hist, existing in (("eleven", 11), ("removed", 3)):
            for newrgs in ((2, 4) if thorough else (2,)):
                for second in ((False, True) if thorough else (False,)):
                    add(newrgs, parts=parts, existing=existing, newrgs=newrgs, second=second, hist=hist)
    # family Z: no row group yet
    for newrgs in (1, 2, 4):
        for second in ((False, True) if thorough else (False,)):
            add(newrgs, parts=0, existing=0, newrgs=newrgs, second=second)
    # family S: write_row_groups and its options, fsspec-style environment
    for parts in ((0, 1, 2) if thorough else (0, 1)):
        for existing in ((1, 3) if thorough else (3,)):
            for newrgs in ((1, 2, 4) if thorough else (1, 2)):
                for opt in ("none", "sort_key", "sort_pnames"):
                    add(newrgs, parts=parts, existing=existing, newrgs=newrgs, second=False, opt=opt)
    # family I: the new data handed to write_row_groups as an iterable of frames (one row group each)
    for parts in (0, 1):
        for newrgs in ((2, 4) if thorough else (2,)):
            add(newrgs, parts=parts, existing=3 if thorough else 1, newrgs=newrgs, second=False, opt="iterable")
    # family H: the append under faults is the SECOND write_row_groups of one ParquetFile handle (the first one,
    # through the same handle, succeeded): whatever the handle remembers from its first append is in play
    for parts in (0, 1, 2):
        for existing in ((1, 3) if thorough else (1,)):
            for newrgs in ((1, 2, 4) if thorough else (2,)):
                add(newrgs, parts=parts, existing=existing, newrgs=newrgs, second=False, opt="handle2")
    return pts


def explore(run, tier):
    run.lattice("fault-points", points(tier), "run")


def crash_sig(point, res):
    return {"parts": point["parts"], "symptom": res["outcome"]}


class Fault(OSError):
    pass


class Env:
    """open_with / mkdirs wrappers counting write-side calls and failing the k-th"""

    def __init__(self, fail_at=None, variant="error"):
        self.calls = []
        self.renames = []
        self.fail_at = set() if fail_at is None else ({fail_at} if isinstance(fail_at, int) else set(fail_at))
        self.variant = variant
        self.fired = False
        self.nfired = 0

    def _point(self, kind, path, data=None):
        k = len(self.calls)
        self.calls.append((kind, path))
        # "sticky": from the first fault on every write-side call fails (a full disk)
        # "diskfull": from the first fault on every write / close / mkdirs fails, but files can still be opened
        # (and are truncated by that): what a full disk really does
        if k in self.fail_at or (self.variant == "sticky" and self.fired) or (
                self.variant == "diskfull" and self.fired and not kind.startswith("open")):
            self.fired = True
            self.nfired += 1
            if self.variant == "crash":
                os._exit(77)
            return True
        return False

    def disarm(self):
        """no further faults (the retry after a failure)"""
        self.fail_at = set()
        self.variant = "error"
        self.fired = False

    def mkdirs(self, path):
        if self._point("mkdirs", path):
            raise Fault("injected: mkdirs %s" % path)
        os.makedirs(path, exist_ok=True)

    def open_with(self, path, mode="rb"):
        if "w" not in mode and "+" not in mode and "a" not in mode and "x" not in mode:
            return open(path, mode)
        if self._point("open:" + mode, path):
            raise Fault("injected: open %s %s" % (path, mode))
        return WFile(self, path, open(path, mode))

    def callbacks(self):
        return self.open_with, self.mkdirs


_FS = {}


def fs_env(fail_at=None, variant="error"):
    """The environment as dask / pandas supply it: open_with is the bound `open` of an fsspec filesystem.
    ParquetFile then takes its fsspec branch and keeps the filesystem (pf.fs), whose rename / mv / rm are
    counted and failed like the other write-side calls."""
    if "cls" not in _FS:
        from fsspec.implementations.local import LocalFileSystem

        class FsEnv(LocalFileSystem):
            cachable = False

            def __init__(self, fail_at=None, variant="error"):
                LocalFileSystem.__init__(self)
                Env.__init__(self, fail_at, variant)

            _point = Env._point
            disarm = Env.disarm

            def open(self, path, mode="rb", **kw):
                if "w" not in mode and "+" not in mode and "a" not in mode and "x" not in mode:
                    return LocalFileSystem.open(self, path, mode, **kw)
                if self._point("open:" + mode, path):
                    raise Fault("injected: open %s %s" % (path, mode))
                return WFile(self, path, open(path, mode))

            def mv(self, path1, path2, **kw):
                self.renames.append((path1, path2))
                if self._point("rename", path1):
                    raise Fault("injected: rename %s -> %s" % (path1, path2))
                os.rename(path1, path2)

            rename = mv

            def rm_file(self, path):
                if self._point("rm", path):
                    raise Fault("injected: rm %s" % path)
                os.remove(path)

            def rm(self, path, recursive=False, maxdepth=None):
                for q in ([path] if isinstance(path, str) else list(path)):
                    self.rm_file(q)

            def count_mkdirs(self, path):
                if self._point("mkdirs", path):
                    raise Fault("injected: mkdirs %s" % path)
                os.makedirs(path, exist_ok=True)

            def callbacks(self):
                return self.open, self.count_mkdirs

        _FS["cls"] = FsEnv
    return _FS["cls"](fail_at, variant)


class WFile:
    def __init__(self, env, path, f):
        self.env, self.path, self.f = env, path, f

    def write(self, data):
        if self.env._point("write", self.path):
            if self.env.variant == "torn":
                b = bytes(data)
                self.f.write(b[:len(b) // 2])
                self.f.flush()
            raise Fault("injected: write %s" % self.path)
        return self.f.write(data)

    def close(self):
        if not self.f.closed:
            if self.env._point("close", self.path):
                try:
                    self.f.close()
                finally:
                    raise Fault("injected: close %s" % self.path)
        return self.f.close()

    def __enter__(self):
        return self

    def __exit__(self, *a):
        self.close()
        return False

    def __getattr__(self, name):
        return getattr(self.f, name)


def frame(start, n, parts):
    import pandas as pd
    return pd.DataFrame({"id": pd.Series(range(start, start + n), dtype="int64"),
                         "s": pd.Series(["v%d" % i for i in range(start, start + n)], dtype=object),
                         "p": pd.Series([i % 2 for i in range(start, start + n)], dtype="int64"),
                         "q": pd.Series(["x" if i % 3 else "y" for i in range(start, start + n)], dtype=object)})


def rows_of(df):
    """canonical rows (id, s, p, q) of a frame, sorted; partition columns come back as categoricals"""
    from mc import oracles as O
    cols = [O.series_to_list(df[c]) for c in ("id", "s", "p", "q")]
    return sorted((int(i), str(s), int(p), str(q)) for i, s, p, q in zip(*cols))


def content(path):
    import fastparquet
    return rows_of(fastparquet.ParquetFile(path).to_pandas())


def snapshot(path):
    import hashlib
    out = {}
    for root, dirs, files in os.walk(path):
        for f in files:
            full = os.path.join(root, f)
            out[os.path.relpath(full, path)] = hashlib.sha256(open(full, "rb").read()).hexdigest()
    return out


def dirs_of(path):
    out = set()
    for root, dirs, files in os.walk(path):
        for dn in dirs:
            out.add(os.path.relpath(os.path.join(root, dn), path))
    return out


def _part_no(path):
    import re
    m = re.search(r"part\.(\d+)\.parquet$", path or "")
    return int(m.group(1)) if m else -1


def _newest_first(rg):
    """sort_key of family S: highest part number first, so that the appended row groups lead the list and
    sort_pnames has to rename every pre-existing file"""
    return -_part_no(rg.columns[0].file_path)


def run(p):
    import shutil
    import fastparquet
    from mc.scratch import scratch
    parts, existing, newrgs, second = p["parts"], p["existing"], p["newrgs"], p["second"]
    hist, opt = p.get("hist"), p.get("opt")
    nslices, myslice = p.get("slices", 1), p.get("slice", 0)
    thorough = p.get("tier") == "thorough"
    pcols = ["p", "q"][:parts]
    d = scratch()
    master = os.path.join(d, "master")
    n0 = 2 * existing
    fastparquet.write(master, frame(0, n0, parts), file_scheme="hive", partition_on=pcols,
                      row_group_offsets=list(range(0, n0, 2)) if n0 else None, write_index=False)
    if hist == "removed":
        # part numbers that do not start at 0: the files of the first two row groups are removed again
        pf0 = fastparquet.ParquetFile(master)
        pf0.remove_row_groups([rg for rg in pf0.row_groups if _part_no(rg.columns[0].file_path) in (0, 1)])
    if second:
        fastparquet.write(master, frame(500, 4, parts), file_scheme="hive", partition_on=pcols, append=True,
                          row_group_offsets=[0, 2])
    copy_src = master
    if opt == "handle2":
        # every execution starts from the state BEFORE the handle's first append and lets the handle make it; the
        # "old" state the faulted second append must preserve is the state after that first append
        copy_src = os.path.join(d, "master0")
        os.rename(master, copy_src)
        shutil.copytree(copy_src, master)
        fastparquet.ParquetFile(master).write_row_groups(frame(500, 4, parts), [0, 2])
    old = content(master)
    old_files = snapshot(master)
    old_dirs = dirs_of(master)
    newdf = frame(1000, 2 * newrgs, parts)
    new = sorted(old + rows_of(newdf))
    rgo = list(range(0, 2 * newrgs, 2))
    # number of part files the append has to create
    nfiles = sum((len(newdf.iloc[a:a + 2].groupby(pcols if len(pcols) > 1 else pcols[0])) if pcols else 1) for a in rgo)
    make_env = fs_env if opt and opt not in ("handle2", "iterable") else Env
    wrg_opts = {"sort_key": {"sort_key": _newest_first},
                "sort_pnames": {"sort_key": _newest_first, "sort_pnames": True}}.get(opt, {})

    def do_append(path, env):
        ow, mk = env.callbacks()
        if opt == "iterable":
            pf = fastparquet.ParquetFile(path, open_with=ow)
            pf.write_row_groups((newdf.iloc[a:a + 2] for a in rgo), open_with=ow, mkdirs=mk)
        elif opt == "handle2":
            pf = fastparquet.ParquetFile(path, open_with=ow)
            pf.write_row_groups(frame(500, 4, parts), [0, 2])      # plain callbacks: neither counted nor failed
            if snapshot(path) != old_files:
                raise RuntimeError("harness: the handle's first append is not reproducible byte for byte")
            pf.write_row_groups(newdf, rgo, open_with=ow, mkdirs=mk)
        elif opt:
            pf = fastparquet.ParquetFile(path, open_with=ow)
            pf.write_row_groups(newdf, rgo, open_with=ow, mkdirs=mk, **wrg_opts)
        else:
            fastparquet.write(path, newdf, file_scheme="hive", partition_on=pcols, append=True, row_group_offsets=rgo,
                              open_with=ow, mkdirs=mk)

    # counting run
    work = os.path.join(d, "work")
    shutil.copytree(copy_src, work)
    env = make_env()
    do_append(work, env)
    calls = list(env.calls)
    try:
        got0 = content(work)
    except Exception as e:
        return {"ok": False, "outcome": "fault_free_wrong", "nontrivial": True,
                "sig": {"parts": parts, "symptom": "fault_free_unreadable"},
                "detail": "after the fault-free append the dataset cannot be read: %s: %s" % (type(e).__name__, str(e)[:100])}
    if got0 != new:
        return {"ok": False, "outcome": "fault_free_wrong", "nontrivial": True,
                "sig": {"parts": parts, "symptom": "fault_free_wrong"}, "detail": "the fault-free append does not produce the new content"}
    limit = len(calls)
    for i, (kind, path) in enumerate(calls):
        if kind.startswith("open") and os.path.basename(path) in SUMMARY:
            limit = i
            break
    first_rename = min([i for i, c in enumerate(calls) if c[0] in ("rename", "rm")] or [len(calls)])
    sigs = {}
    detail = [""]
    faults = nontriv = retries = 0

    def bad(symptom, msg, **extra):
        s = {"parts": parts, "second": second, "symptom": symptom}
        if opt:
            s["opt"] = opt
        if hist:
            s["hist"] = hist
        s.update(extra)
        k = repr(sorted(s.items(), key=str))
        if k not in sigs:
            sigs[k] = s
            if not detail[0]:
                detail[0] = msg

    def phase_of(k):
        """extra signature keys of the fault points the first version of this check did not have"""
        if k == limit:
            return {"phase": "summary_open"}
        if k >= first_rename:
            return {"phase": "renames"}
        return {"phase": "parts"} if opt else {}

    def judge(what, outcome, kind, variant, k):
        ph = phase_of(k)
        try:
            got = content(work)
        except Exception as e:
            bad("dataset_unreadable", "%s: append %s; afterwards the dataset cannot be read: %s: %s" % (
                what, outcome, type(e).__name__, str(e)[:100]), kind=kind.split(":")[0], variant=variant, outcome=outcome, **ph)
            return
        want = new if outcome == "returned" else old
        if got != want:
            bad("wrong_content", "%s: append %s; a fresh open reads %d rows %s, expected the %s content (%d rows)" % (
                what, outcome, len(got), "" if len(got) > 12 else [r[0] for r in got], "new" if outcome == "returned" else "old", len(want)),
                kind=kind.split(":")[0], variant=variant, outcome=outcome, rg_of_fault="first" if _first_rg(calls, k) else "later", **ph)
        after = snapshot(work)
        for rel, h in old_files.items():
            if os.path.basename(rel) in SUMMARY:
                # a failed append has not started to rewrite the summary files
                if outcome != "returned" and after.get(rel) != h:
                    bad("summary_changed", "%s: append %s, but %s was %s" % (
                        what, outcome, rel, "removed" if rel not in after else "rewritten"), variant=variant, outcome=outcome,
                        file=os.path.basename(rel), **ph)
                continue
            if opt == "sort_pnames" and outcome == "returned":
                continue            # a completed sort_pnames has renamed the pre-existing files
            if after.get(rel) != h:
                bad("existing_file_changed", "%s: pre-existing data file %s was %s" % (
                    what, rel, "removed" if rel not in after else "modified"), variant=variant,
                    **(dict(ph, outcome=outcome) if opt else ph))

    # ---- the fault-free trace --------------------------------------------------------------------
    # the append never opens an existing data file for writing
    for kind, path in calls:
        rel = os.path.relpath(path, work)
        if kind.startswith("open") and rel in old_files and os.path.basename(rel) not in SUMMARY:
            bad("existing_file_opened_for_writing", "fault-free append opened existing data file %s with %s" % (rel, kind))
    # parts first, summary last: once a summary file has been opened for writing nothing else is touched
    for i in range(limit, len(calls)):
        kind, path = calls[i]
        if os.path.basename(path) not in SUMMARY:
            bad("summary_not_last", "fault-free append: call %d (%s %s) comes after _metadata was opened for writing at call %d" % (
                i, kind, os.path.relpath(path, work), limit), kind=kind.split(":")[0])
            break
    # all part files are written (open, >= 1 write, close) before that point
    if limit < 3 * nfiles:
        bad("fault_space_too_small", "fault-free append: only %d write-side calls precede the first opening of a summary file, "
            "%d new part files need at least %d" % (limit, nfiles, 3 * nfiles))
    # all I/O goes through the caller's open_with / mkdirs
    after0 = snapshot(work)
    opened = set(os.path.relpath(path, work) for kind, path in calls if kind.startswith("open"))
    moved_to = set(os.path.relpath(b, work) for a, b in env.renames)
    moved_from = set(os.path.relpath(a, work) for a, b in env.renames)
    for rel, h in sorted(after0.items()):
        if old_files.get(rel) != h and rel not in opened and rel not in moved_to:
            bad("write_bypasses_open_with", "fault-free append: %s was %s without a call of open_with" % (
                rel, "changed" if rel in old_files else "created"),
                file="summary" if os.path.basename(rel) in SUMMARY else "data")
    made = [os.path.relpath(path, work) for kind, path in calls if kind == "mkdirs"]
    for dn in sorted(dirs_of(work) - old_dirs):
        if not any(m == dn or m.startswith(dn + os.sep) for m in made):
            bad("mkdir_bypasses_mkdirs", "fault-free append: directory %s was created without a call of mkdirs" % dn)
    for rel, h in sorted(old_files.items()):
        if os.path.basename(rel) in SUMMARY or after0.get(rel) == h:
            continue
        if opt == "sort_pnames" and rel in moved_from | moved_to:
            continue
        bad("existing_file_changed", "fault-free append: pre-existing data file %s was %s" % (
            rel, "removed" if rel not in after0 else "modified"), variant="none")

    # ---- retry history ---------------------------------------------------------------------------
    def retry_point(k):
        if opt or k >= limit:
            return False
        if thorough:
            return True
        kind, path = calls[k]
        return (kind.startswith("open") or kind == "close") and os.path.basename(path).startswith("part.")

    def judge_retry(what, flavour, k):
        try:
            got = content(work)
        except Exception as e:
            bad("retry_unreadable", "%s; the append was then repeated without faults (%s): the dataset cannot be read: %s: %s" % (
                what, flavour, type(e).__name__, str(e)[:100]), flavour=flavour)
            return
        if got != new:
            ids = [r[0] for r in got]
            bad("retry_wrong_content", "%s; the append was then repeated without faults (%s): a fresh open reads %d rows, "
                "expected the new content (%d rows); ids read more than once: %s" % (
                    what, flavour, len(got), len(new), sorted(set(i for i in ids if ids.count(i) > 1))[:6]),
                flavour=flavour, rg_of_fault="first" if _first_rg(calls, k) else "later")

    def retry_same_handle(what, k, kind, variant):
        """the append through one ParquetFile handle: write_row_groups fails at call k, then is called again"""
        shutil.rmtree(work, ignore_errors=True)
        shutil.copytree(copy_src, work)
        e3 = Env(k, variant)
        pf = fastparquet.ParquetFile(work, open_with=e3.open_with)
        try:
            pf.write_row_groups(newdf, rgo, open_with=e3.open_with, mkdirs=e3.mkdirs)
            return                     # a swallowed fault: judged by the main enumeration
        except Exception:
            pass
        if not e3.fired:
            bad("nondeterministic_call_sequence", "%s: the fault point was not reached through write_row_groups" % what)
            return
        e3.disarm()
        try:
            pf.write_row_groups(newdf, rgo, open_with=e3.open_with, mkdirs=e3.mkdirs)
        except Exception as e:
            bad("retry_raised", "%s; write_row_groups on the same handle was then repeated without faults and raised %s: %s" % (
                what, type(e).__name__, str(e)[:100]), flavour="same_handle")
            return
        judge_retry(what, "same_handle", k)

    npoints = limit + 1 if limit < len(calls) else limit
    for k in range(npoints):
        if k % nslices != myslice:
            continue
        kind, cpath = calls[k]
        variants = ["error", "crash", "sticky"] + (["torn"] if kind == "write" else [])
        if kind == "write" and (thorough or calls[k - 1][0].startswith("open") or calls[k + 1][0] == "close"):
            variants.append("diskfull")     # quick: the first and the last write of every file
        if k == limit:
            variants = ["error", "crash"]       # the opening of _metadata fails before it truncates / is never reached
        if thorough and k < limit:
            variants.append("pairs")
        for variant in variants:
            if variant == "pairs":
                # deviation bound 2: a second failing call among those the library still issues after the first
                # fault (clean-up closes, further part files), before any write to the summary files
                shutil.rmtree(work, ignore_errors=True)
                shutil.copytree(copy_src, work)
                e1 = make_env(k, "error")
                try:
                    do_append(work, e1)
                except Exception:
                    pass
                seq = list(e1.calls)
                stop = len(seq)
                for i2, (kind2, path2) in enumerate(seq):
                    if kind2.startswith("open") and os.path.basename(path2) in SUMMARY:
                        stop = i2
                        break
                for j in range(k + 1, stop):
                    faults += 1
                    nontriv += 1
                    shutil.rmtree(work, ignore_errors=True)
                    shutil.copytree(copy_src, work)
                    what = "parts=%d existing=%d new=%d second=%s: calls %d and %d (%s, then %s %s) fail" % (
                        parts, existing, newrgs, second, k, j, kind, seq[j][0], os.path.relpath(seq[j][1], work))
                    e2 = make_env({k, j}, "error")
                    try:
                        do_append(work, e2)
                        outcome = "returned"
                    except Exception:
                        outcome = "raised"
                    if e2.nfired < 2:
                        bad("nondeterministic_call_sequence", "%s: the second fault point was not reached on replay" % what)
                        continue
                    judge(what, outcome, kind, "pairs", k)
                continue
            faults += 1
            if k > 0:
                nontriv += 1
            shutil.rmtree(work, ignore_errors=True)
            shutil.copytree(copy_src, work)
            what = "parts=%d existing=%d new=%d second=%s%s%s: call %d/%d (%s %s) %s" % (
                parts, existing, newrgs, second, " history=%s" % hist if hist else "",
                " write_row_groups(%s)" % opt if opt else "", k, limit, kind, os.path.relpath(cpath, work), variant)
            outcome = None
            if variant == "crash":
                pid = os.fork()
                if pid == 0:
                    try:
                        e2 = make_env(k, "crash")
                        do_append(work, e2)
                    finally:
                        os._exit(0)
                _, status = os.waitpid(pid, 0)
                code = os.WEXITSTATUS(status) if os.WIFEXITED(status) else -1
                outcome = "abandoned" if code == 77 else "returned"
            else:
                e2 = make_env(k, variant)
                try:
                    do_append(work, e2)
                    outcome = "returned"
                except Exception as e:
                    outcome = "raised"
                if not e2.fired:
                    bad("nondeterministic_call_sequence", "%s: the fault point was not reached on replay" % what)
                    continue
            judge(what, outcome, kind, variant, k)
            # history: the failed append is repeated
            if outcome != "returned" and variant in ("error", "torn", "crash") and retry_point(k):
                retries += 1
                try:
                    do_append(work, Env())
                    judge_retry(what, "fresh_write", k)
                except Exception as e:
                    bad("retry_raised", "%s; the append was then repeated without faults and raised %s: %s" % (
                        what, type(e).__name__, str(e)[:100]), flavour="fresh_write")
                if variant != "crash":
                    retries += 1
                    retry_same_handle(what, k, kind, variant)
    ok = not sigs
    return {"ok": ok, "outcome": "intact" if ok else "damaged", "nontrivial": nontriv > 0,
            "counts": {"fault_points": faults, "retries": retries,
                       "calls_before_metadata": limit if myslice == 0 else 0, "calls_total": len(calls) if myslice == 0 else 0},
            "sig": list(sigs.values()) or None, "detail": detail[0]}


def _first_rg(calls, k):
    """is call k issued while the first new row group's file(s) are being written?"""
    seen_parts = set()
    for kind, path in calls[:k + 1]:
        b = os.path.basename(path)
        if b.startswith("part."):
            seen_parts.add(b)
    return len(seen_parts) <= 1


LEVEL_TEXT = ("Complete enumeration of fault points: for 36 scenarios (partitioning depth x existing row groups x number of "
              "new row groups x first/second append), 4 part-numbering histories (11 existing parts; parts 0 and 1 removed), "
              "3 appends to a dataset without row groups and 12 ParquetFile.write_row_groups scenarios (options none / "
              "sort_key / sort_key + sort_pnames through an fsspec-style environment whose rename is a fault point) every "
              "write-side environment call issued before _metadata is opened for writing, and that opening call, is failed "
              "in turn (error, torn write, failing suffix, process crash in a forked child), on a fresh copy of "
              "the dataset, followed by a fresh open from disk compared row by row (all columns) with the old / new content, a byte comparison "
              "of every pre-existing data file and of the summary files, and - at the opening and closing calls of the new "
              "part files - a fault-free repetition of the append through a fresh write and through the same handle.  The "
              "fault-free trace is checked for 'summary last' and for I/O that bypasses open_with / mkdirs.")
LEVEL_NOTE = ("Trusted: the recorded call sequence is deterministic (replays assert that the fault point is reached); one "
              "fault per execution; tmpfs (no write reordering).")
TECHNIQUE = "exhaustive fault-point enumeration through open_with/mkdirs wrappers, incl. torn writes and forked crash, re-open from disk"
