"""C19 - an append interrupted before its metadata update leaves the old dataset intact.

Explorer F: a counting run records every write-side environment call issued by
the append through the public open_with / mkdirs parameters; then for every k up
to the first call that touches _metadata for writing the append is re-run on a
fresh copy of the dataset with call k failing (OSError; for write calls also a
torn write) and with the process abandoned at k (os._exit in a forked child: no
handler of the library runs, unflushed buffers are lost).
"""
import os

ID = "C19"
LEVEL = "fault_enumeration"
FLAVOUR = "plain"
TIMEOUT = 300
RULE = ("scenario = hive dataset {unpartitioned, partitioned on 1 column, on 2 columns} x existing row groups {1, 3} x "
        "appended frame producing 1 / 2 / 4 new row groups x {first append, second append}; fault points = every "
        "write-side call (mkdirs, open for writing, write, close) before the first call that opens _metadata for "
        "writing, each with variants {OSError, torn write (first half written, then OSError), crash (process "
        "abandoned), sticky (this and every later write-side call fail: a full disk)}; thorough adds deviation bound "
        "2: for every first fault, every second failing call among those the library still issues afterwards; oracle: if the append raised or was abandoned a fresh ParquetFile(dir) reads exactly the old "
        "content; if it returned normally exactly the new content; no pre-existing data file is opened in a "
        "writing mode or changed; non-trivial = a fault point at which the append had already issued >= 1 "
        "write-side call")
ASSUMPTIONS = ["one failing call per execution (quick), up to two or a failing suffix (sticky)", "faults are injected on write-side calls only (reads pass through)",
               "crash = os._exit at the call, on tmpfs (no reordering of completed writes)"]


def points(tier):
    pts = []
    for parts in (0, 1, 2):
        for existing in (1, 3):
            for newrgs in (1, 2, 4):
                for second in (False, True):
                    pts.append({"parts": parts, "existing": existing, "newrgs": newrgs, "second": second, "tier": tier})
    return pts


def explore(run, tier):
    run.lattice("fault-points", points(tier), "run")


def crash_sig(point, res):
    return {"parts": point["parts"], "symptom": res["outcome"]}


class Fault(OSError):
    pass


class Env:
    """open_with / mkdirs wrappers counting write-side calls and failing the k-th"""

    def __init__(self, fail_at=None, variant="error"):
        self.calls = []
        self.fail_at = set() if fail_at is None else ({fail_at} if isinstance(fail_at, int) else set(fail_at))
        self.variant = variant
        self.fired = False
        self.nfired = 0

    def _point(self, kind, path, data=None):
        k = len(self.calls)
        self.calls.append((kind, path))
        # "sticky": from the first fault on every write-side call fails (a full disk)
        if k in self.fail_at or (self.variant == "sticky" and self.fired):
            self.fired = True
            self.nfired += 1
            if self.variant == "crash":
                os._exit(77)
            return True
        return False

    def mkdirs(self, path):
        if self._point("mkdirs", path):
            raise Fault("injected: mkdirs %s" % path)
        os.makedirs(path, exist_ok=True)

    def open_with(self, path, mode="rb"):
        if "w" not in mode and "+" not in mode and "a" not in mode:
            return open(path, mode)
        if self._point("open:" + mode, path):
            raise Fault("injected: open %s %s" % (path, mode))
        return WFile(self, path, open(path, mode))


class WFile:
    def __init__(self, env, path, f):
        self.env, self.path, self.f = env, path, f

    def write(self, data):
        if self.env._point("write", self.path):
            if self.env.variant == "torn":
                b = bytes(data)
                self.f.write(b[:len(b) // 2])
                self.f.flush()
            raise Fault("injected: write %s" % self.path)
        return self.f.write(data)

    def close(self):
        if not self.f.closed:
            if self.env._point("close", self.path):
                try:
                    self.f.close()
                finally:
                    raise Fault("injected: close %s" % self.path)
        return self.f.close()

    def __enter__(self):
        return self

    def __exit__(self, *a):
        self.close()
        return False

    def __getattr__(self, name):
        return getattr(self.f, name)


def frame(start, n, parts):
    import pandas as pd
    return pd.DataFrame({"id": pd.Series(range(start, start + n), dtype="int64"),
                         "s": pd.Series(["v%d" % i for i in range(start, start + n)], dtype=object),
                         "p": pd.Series([i % 2 for i in range(start, start + n)], dtype="int64"),
                         "q": pd.Series(["x" if i % 3 else "y" for i in range(start, start + n)], dtype=object)})


def content(path):
    import fastparquet
    from mc import oracles as O
    df = fastparquet.ParquetFile(path).to_pandas()
    return sorted(O.series_to_list(df["id"]))


def snapshot(path):
    import hashlib
    out = {}
    for root, dirs, files in os.walk(path):
        for f in files:
            full = os.path.join(root, f)
            out[os.path.relpath(full, path)] = hashlib.sha256(open(full, "rb").read()).hexdigest()
    return out


def run(p):
    import shutil
    import fastparquet
    from mc.scratch import scratch
    parts, existing, newrgs, second = p["parts"], p["existing"], p["newrgs"], p["second"]
    pcols = ["p", "q"][:parts]
    d = scratch()
    master = os.path.join(d, "master")
    n0 = 2 * existing
    fastparquet.write(master, frame(0, n0, parts), file_scheme="hive", partition_on=pcols,
                      row_group_offsets=list(range(0, n0, 2)), write_index=False)
    if second:
        fastparquet.write(master, frame(500, 4, parts), file_scheme="hive", partition_on=pcols, append=True,
                          row_group_offsets=[0, 2])
    old = content(master)
    old_files = snapshot(master)
    newdf = frame(1000, 2 * newrgs, parts)
    new = sorted(old + list(newdf["id"]))
    rgo = list(range(0, 2 * newrgs, 2))

    def do_append(path, env):
        fastparquet.write(path, newdf, file_scheme="hive", partition_on=pcols, append=True, row_group_offsets=rgo,
                          open_with=env.open_with, mkdirs=env.mkdirs)

    # counting run
    work = os.path.join(d, "work")
    shutil.copytree(master, work)
    env = Env()
    do_append(work, env)
    calls = list(env.calls)
    if content(work) != new:
        return {"ok": False, "outcome": "fault_free_wrong", "nontrivial": True,
                "sig": {"parts": parts, "symptom": "fault_free_wrong"}, "detail": "the fault-free append does not produce the new content"}
    limit = len(calls)
    for i, (kind, path) in enumerate(calls):
        if kind.startswith("open") and os.path.basename(path) in ("_metadata", "_common_metadata"):
            limit = i
            break
    sigs = {}
    detail = [""]
    faults = nontriv = 0

    def bad(symptom, msg, **extra):
        s = {"parts": parts, "second": second, "symptom": symptom}
        s.update(extra)
        k = repr(sorted(s.items(), key=str))
        if k not in sigs:
            sigs[k] = s
            if not detail[0]:
                detail[0] = msg

    def judge(what, outcome, kind, variant, k):
        try:
            got = content(work)
        except Exception as e:
            bad("dataset_unreadable", "%s: append %s; afterwards the dataset cannot be read: %s: %s" % (
                what, outcome, type(e).__name__, str(e)[:100]), kind=kind.split(":")[0], variant=variant, outcome=outcome)
            return
        want = new if outcome == "returned" else old
        if got != want:
            bad("wrong_content", "%s: append %s; a fresh open reads %d rows %s, expected the %s content (%d rows)" % (
                what, outcome, len(got), "" if len(got) > 12 else got, "new" if outcome == "returned" else "old", len(want)),
                kind=kind.split(":")[0], variant=variant, outcome=outcome, rg_of_fault="first" if _first_rg(calls, k) else "later")
        after = snapshot(work)
        for rel, h in old_files.items():
            if os.path.basename(rel) in ("_metadata", "_common_metadata"):
                continue
            if after.get(rel) != h:
                bad("existing_file_changed", "%s: pre-existing data file %s was %s" % (
                    what, rel, "removed" if rel not in after else "modified"), variant=variant)

    # the append never opens an existing data file for writing
    for kind, path in calls:
        rel = os.path.relpath(path, work)
        if kind.startswith("open") and rel in old_files and os.path.basename(rel) not in ("_metadata", "_common_metadata"):
            bad("existing_file_opened_for_writing", "fault-free append opened existing data file %s with %s" % (rel, kind))
    for k in range(limit):
        kind, cpath = calls[k]
        variants = ["error", "crash", "sticky"] + (["torn"] if kind == "write" else [])
        if p.get("tier") == "thorough":
            variants.append("pairs")
        for variant in variants:
            if variant == "pairs":
                # deviation bound 2: a second failing call among those the library still issues after the first
                # fault (clean-up closes, further part files), before any write to the summary files
                shutil.rmtree(work, ignore_errors=True)
                shutil.copytree(master, work)
                e1 = Env(k, "error")
                try:
                    do_append(work, e1)
                except Exception:
                    pass
                seq = list(e1.calls)
                stop = len(seq)
                for i2, (kind2, path2) in enumerate(seq):
                    if kind2.startswith("open") and os.path.basename(path2) in ("_metadata", "_common_metadata"):
                        stop = i2
                        break
                for j in range(k + 1, stop):
                    faults += 1
                    nontriv += 1
                    shutil.rmtree(work, ignore_errors=True)
                    shutil.copytree(master, work)
                    what = "parts=%d existing=%d new=%d second=%s: calls %d and %d (%s, then %s %s) fail" % (
                        parts, existing, newrgs, second, k, j, kind, seq[j][0], os.path.relpath(seq[j][1], work))
                    e2 = Env({k, j}, "error")
                    try:
                        do_append(work, e2)
                        outcome = "returned"
                    except Exception:
                        outcome = "raised"
                    if e2.nfired < 2:
                        bad("nondeterministic_call_sequence", "%s: the second fault point was not reached on replay" % what)
                        continue
                    judge(what, outcome, kind, "pairs", k)
                continue
            faults += 1
            if k > 0:
                nontriv += 1
            shutil.rmtree(work, ignore_errors=True)
            shutil.copytree(master, work)
            what = "parts=%d existing=%d new=%d second=%s: call %d/%d (%s %s) %s" % (
                parts, existing, newrgs, second, k, limit, kind, os.path.relpath(cpath, work), variant)
            outcome = None
            if variant == "crash":
                pid = os.fork()
                if pid == 0:
                    try:
                        e2 = Env(k, "crash")
                        do_append(work, e2)
                    finally:
                        os._exit(0)
                _, status = os.waitpid(pid, 0)
                code = os.WEXITSTATUS(status) if os.WIFEXITED(status) else -1
                outcome = "abandoned" if code == 77 else "returned"
            else:
                e2 = Env(k, variant)
                try:
                    do_append(work, e2)
                    outcome = "returned"
                except Exception as e:
                    outcome = "raised"
                if not e2.fired:
                    bad("nondeterministic_call_sequence", "%s: the fault point was not reached on replay" % what)
                    continue
            judge(what, outcome, kind, variant, k)
    ok = not sigs
    return {"ok": ok, "outcome": "intact" if ok else "damaged", "nontrivial": nontriv > 0,
            "counts": {"fault_points": faults, "calls_before_metadata": limit, "calls_total": len(calls)},
            "sig": list(sigs.values()) or None, "detail": detail[0]}


def _first_rg(calls, k):
    """is call k issued while the first new row group's file(s) are being written?"""
    seen_parts = set()
    for kind, path in calls[:k + 1]:
        b = os.path.basename(path)
        if b.startswith("part."):
            seen_parts.add(b)
    return len(seen_parts) <= 1


LEVEL_TEXT = ("Complete enumeration of fault points: for 36 scenarios (partitioning depth x existing row groups x number of "
              "new row groups x first/second append) every write-side environment call issued before _metadata is opened "
              "for writing is failed in turn (error, torn write, process crash in a forked child), on a fresh copy of "
              "the dataset, followed by a fresh open from disk compared with the old / new content and a byte comparison "
              "of every pre-existing data file.")
LEVEL_NOTE = ("Trusted: the recorded call sequence is deterministic (replays assert that the fault point is reached); one "
              "fault per execution; tmpfs (no write reordering).")
TECHNIQUE = "exhaustive fault-point enumeration through open_with/mkdirs wrappers, incl. torn writes and forked crash, re-open from disk"
