"""C18 - rejected operations raise and leave an existing dataset exactly as it was."""
import itertools

ID = "C18"
LEVEL = "fault_enumeration"
FLAVOUR = "plain"
TIMEOUT = 300
RULE = ("rejection kind (13 + 8 read-side variants + up to 15 further variants of the listed kinds: unsupported dtype, non-text column name, duplicate names, None under has_nulls=False, "
        "unencodable object values [mixed types; int where utf8 declared], append with different columns / file "
        "scheme / partitioning, unknown column in columns= and in filters=, unknown codec, bad times, bad "
        "object_encoding) x position of the offending column {first, middle, last} x position of the offending row "
        "{first row group, later row group} x existing dataset {simple 1 row group, simple 3 row groups, hive, "
        "hive partitioned} x mode {append, replace-by-write} x offending frame size {6 rows, 600 rows for the "
        "rejections that surface while columns are written, so that the failed write has gone past the length of "
        "the old footer}; oracle: the call raises and a fresh ParquetFile of "
        "the pre-existing dataset reads exactly the previous content; non-trivial = the operation was attempted on "
        "an existing dataset and raised. "
        "Reviewer extensions: existing dataset also {hive and hive-partitioned directory WITHOUT _metadata / "
        "_common_metadata (files found by listing the directory), single file and hive dataset whose columns are "
        "stored REQUIRED with a categorical and a JSON column, hive and hive-partitioned dataset of twelve part files (appends and handle calls)}; mode also {handle: ParquetFile.write_row_groups on a "
        "handle the caller keeps, given a frame or an iterable of frames (also: only the second / third frame of the iterable has the other columns, through the handle and through write(append=True)); overwrite: append='overwrite'}; rejection "
        "kinds also {missing value under the STORED non-nullable schema: None in a text column, None / pd.NA in an "
        "integer column, NaN code in a categorical; set under the stored JSON encoding; partition_on omitted / "
        "superset / given as text; drill requested on a hive dataset; append='overwrite' on a single file or an "
        "unpartitioned dataset; unknown column in has_nulls; unknown filter column as a later AND condition / in a "
        "later OR group}; offending column also {the partition column}; offending row also {a row of the second "
        "partition group}; history: after every rejected append / handle call a valid frame is appended the same "
        "way and the dataset must then hold exactly old + new rows; oracle also: row order, columns, dtypes, "
        "count and number of row groups are unchanged, the kept handle reads the previous content; a rejected read "
        "leaves every file byte-identical; the type of the exception and byte identity after a rejected write are "
        "not judged")
ASSUMPTIONS = ["orphan files left by a rejected call are allowed here (C09 forbids them)",
               "a rejected read must leave the handle usable",
               "any exception counts as a refusal"]


DATASETS = ["simple1", "simple3", "hive", "hive_part"]
# directory datasets without summary files: the part files are found by listing the directory
NOMETA = ["hive_nometa", "hive_part_nometa"]
# every column stored REQUIRED; k categorical, j JSON-encoded
REQ = ["simple_req", "hive_req"]
# datasets of twelve part files
MANY = ["hive12", "hive_part12"]
WRITE_REJECTIONS = ["complex_dtype", "int_colname", "dup_names", "none_required", "mixed_object", "int_as_utf8",
                    "diff_columns", "diff_scheme", "diff_partition", "bad_codec", "bad_times", "bad_object_encoding"]
READ_REJECTIONS = ["unknown_column", "unknown_filter_column", "unknown_index", "unknown_category", "head_unknown",
                   "iter_unknown", "count_unknown_filter", "rowfilter_unknown",
                   # the unknown column is not the only / first condition
                   "filter_later_and", "filter_later_or", "count_filter_later_or", "iter_filter_later_or",
                   "rowfilter_later_or"]
# further variants of the listed kinds (thorough tier; EXTRA_QUICK also in the quick tier)
EXTRA_UPFRONT = ["period_dtype", "interval_dtype", "object_sets", "tuple_colname", "none_colname", "bytes_colname",
                 "extra_column", "missing_column", "partition_missing_col", "has_nulls_unknown",
                 "partition_omitted", "partition_superset", "partition_str", "diff_scheme_drill"]
EXTRA_LATE = ["Int64_na_required", "boolean_na_required", "decl_int_str", "decl_bytes_str", "json_set", "decimal_str"]
EXTRA_QUICK = ["period_dtype", "tuple_colname", "extra_column", "missing_column", "Int64_na_required", "json_set",
               "partition_missing_col", "has_nulls_unknown", "partition_omitted", "partition_superset",
               "partition_str", "diff_scheme_drill"]
APPEND_ONLY = ("extra_column", "missing_column", "partition_omitted", "partition_superset", "partition_str",
               "diff_scheme_drill")
# rejections that can surface while columns are being written (after bytes have gone to the file)
LATE = ("complex_dtype", "none_required", "mixed_object", "int_as_utf8", "bad_codec")
# what ParquetFile.write_row_groups can be asked directly (it has no has_nulls / object_encoding / scheme arguments)
HANDLE_REJECTIONS = ["complex_dtype", "mixed_object", "int_as_utf8", "bad_codec", "json_set", "diff_columns",
                     "extra_column", "missing_column", "dup_names", "int_colname"]
# rejections under the stored schema of the REQ datasets
REQ_REJECTIONS = ["req_none_text", "req_none_int", "req_NA_Int64", "req_nan_cat", "req_json_set"]
OVERWRITE_LATE = ["complex_dtype", "mixed_object", "int_as_utf8", "bad_codec", "diff_columns"]
COLUMN_MISMATCH = ("diff_columns", "extra_column", "missing_column")
BIG = 600
CRASHLIKE = ("AttributeError", "NameError", "UnboundLocalError", "AssertionError", "ImportError",
             "ModuleNotFoundError", "RecursionError")


def _write_points(ds, tier, modes, pts):
    """the original product (and its reviewer extensions of column / row position) for one dataset"""
    partitioned = ds.startswith("hive_part")
    for rej in WRITE_REJECTIONS:
        for mode in modes:
            if mode == "replace" and rej.startswith("diff_"):
                continue
            colposs = ["first", "middle", "last"]
            if rej in ("complex_dtype", "mixed_object", "int_as_utf8") and mode == "append":
                # the frame's true last column, which is the partition column of the partitioned datasets
                colposs.append("partition")
            for colpos in colposs:
                if rej in ("diff_columns", "diff_scheme", "diff_partition", "bad_times", "bad_object_encoding",
                           "int_colname", "dup_names") and colpos != "first":
                    continue
                rowposs = ["rg0", "later"]
                if partitioned and mode == "append" and colpos != "partition" and rej in ("mixed_object", "int_as_utf8"):
                    # the offending row in the SECOND partition group: the first group's file is complete then
                    rowposs += ["rg0_p1", "later_p1"]
                for rowpos in rowposs:
                    if rej not in ("none_required", "mixed_object", "int_as_utf8") and rowpos != "rg0":
                        continue
                    pts.append({"ds": ds, "rej": rej, "mode": mode, "colpos": colpos, "rowpos": rowpos})
                    if rej in LATE:
                        # a frame large enough for the failed write to have gone past the old footer's length
                        pts.append({"ds": ds, "rej": rej, "mode": mode, "colpos": colpos, "rowpos": rowpos,
                                    "size": BIG})
    for rej in EXTRA_UPFRONT + EXTRA_LATE:
        if tier != "thorough" and rej not in EXTRA_QUICK:
            continue
        for mode in modes:
            if mode == "replace" and rej in APPEND_ONLY:
                continue
            if mode == "append" and rej in ("period_dtype", "interval_dtype", "object_sets", "has_nulls_unknown"):
                # an append converts with the stored schema and does not look at the new frame's dtypes or at
                # has_nulls: these are refusals of a fresh write only
                continue
            for colpos in (("first", "last") if rej in EXTRA_LATE or rej.endswith("_dtype") or rej == "object_sets" else ("first",)):
                pts.append({"ds": ds, "rej": rej, "mode": mode, "colpos": colpos, "rowpos": "rg0"})
                if rej in EXTRA_LATE and tier == "thorough":
                    pts.append({"ds": ds, "rej": rej, "mode": mode, "colpos": colpos, "rowpos": "later", "size": BIG})


def _handle_points(ds, tier, pts):
    for rej in HANDLE_REJECTIONS:
        late = rej in LATE or rej == "json_set"
        for it in (False, True):
            for colpos in (("first", "middle", "last") if late else ("first",)):
                for rowpos in (("rg0", "later") if rej in ("mixed_object", "int_as_utf8", "json_set") or (it and not late) else ("rg0",)):
                    if it and not late and rowpos == "later" and rej in ("dup_names", "int_colname"):
                        continue
                    for size in ((6, BIG) if late and rej != "json_set" and (tier == "thorough" or colpos == "middle") else (6,)):
                        pt = {"ds": ds, "rej": rej, "mode": "handle", "colpos": colpos, "rowpos": rowpos}
                        if it:
                            pt["iter"] = True
                        if size != 6:
                            pt["size"] = size
                        pts.append(pt)


def points(tier):
    pts = []
    for ds in DATASETS:
        _write_points(ds, tier, ("append", "replace"), pts)
        for rej in READ_REJECTIONS:
            pts.append({"ds": ds, "rej": rej, "mode": "read", "colpos": "first", "rowpos": "rg0"})
    # ---- reviewer extensions -------------------------------------------------------------------------------
    for ds in NOMETA:
        # replacing such a directory is the same code as replacing "hive": appends and reads only
        _write_points(ds, tier, ("append",), pts)
        for rej in READ_REJECTIONS:
            pts.append({"ds": ds, "rej": rej, "mode": "read", "colpos": "first", "rowpos": "rg0"})
    for ds in MANY:
        _write_points(ds, tier, ("append",), pts)
    for ds in DATASETS + NOMETA + MANY:
        _handle_points(ds, tier, pts)
        # fastparquet.write(..., append=True) given an iterable of frames of which only a LATER one has other columns
        for rej in COLUMN_MISMATCH:
            for rowpos in ("later", "third"):
                pts.append({"ds": ds, "rej": rej, "mode": "append", "colpos": "first", "rowpos": rowpos, "iter": True})
            pts.append({"ds": ds, "rej": rej, "mode": "handle", "colpos": "first", "rowpos": "third", "iter": True})
        # append='overwrite'
        if ds.startswith("hive_part"):
            for rej in OVERWRITE_LATE:
                late = rej != "diff_columns"
                for colpos in (("first", "middle", "last") if late else ("first",)):
                    for rowpos in (("rg0", "later", "rg0_p1") if rej in ("mixed_object", "int_as_utf8") else ("rg0",)):
                        for size in ((6, BIG) if late and (tier == "thorough" or colpos == "middle") else (6,)):
                            pt = {"ds": ds, "rej": rej, "mode": "overwrite", "colpos": colpos, "rowpos": rowpos}
                            if size != 6:
                                pt["size"] = size
                            pts.append(pt)
        else:
            pts.append({"ds": ds, "rej": "overwrite_unsupported", "mode": "overwrite", "colpos": "first",
                        "rowpos": "rg0"})
    for ds in REQ:
        for rej in REQ_REJECTIONS:
            for mode in ("append", "handle"):
                for rowpos in ("rg0", "later"):
                    for size in (6, BIG):
                        if size == BIG and mode == "handle" and tier != "thorough":
                            continue
                        pt = {"ds": ds, "rej": rej, "mode": mode, "colpos": "first", "rowpos": rowpos}
                        if size != 6:
                            pt["size"] = size
                        pts.append(pt)
        for rej in ("unknown_column", "filter_later_or"):
            pts.append({"ds": ds, "rej": rej, "mode": "read", "colpos": "first", "rowpos": "rg0"})
    return pts


def explore(run, tier):
    run.lattice("rejections", points(tier), "run")


def crash_sig(point, res):
    return {"ds": point["ds"], "rej": point["rej"], "mode": point["mode"], "symptom": res["outcome"]}


def base_frame(n=6, start=0, req=False):
    import pandas as pd
    df = pd.DataFrame({"a": pd.Series(range(start, start + n), dtype="int64"),
                       "b": pd.Series(["s%d" % i for i in range(start, start + n)], dtype=object),
                       "c": pd.Series([float(i) for i in range(start, start + n)], dtype="float64"),
                       "p": pd.Series([i % 2 for i in range(start, start + n)], dtype="int64")})
    if req:
        df["k"] = pd.Categorical(["k%d" % (i % 3) for i in range(start, start + n)], categories=["k0", "k1", "k2"])
        df["j"] = pd.Series([{"q": i} for i in range(start, start + n)], dtype=object)
    return df


def create(ds, d):
    import os
    import fastparquet
    df = base_frame(req=ds in REQ)
    if ds in MANY:
        # twelve part files (part.0 .. part.11; in the partitioned layout every directory holds six of them): the
        # part numbers no longer sort as text
        df = base_frame(12)
        path = os.path.join(d, "dsm")
        okw = {"file_scheme": "hive"}
        if ds == "hive_part12":
            okw["partition_on"] = ["p"]
        fastparquet.write(path, df, row_group_offsets=list(range(12)), write_index=False, **okw)
        return path, okw
    if ds == "simple1":
        path = os.path.join(d, "t.parquet")
        fastparquet.write(path, df, write_index=False)
        return path, {"file_scheme": "simple"}
    if ds == "simple3":
        path = os.path.join(d, "t.parquet")
        fastparquet.write(path, df, row_group_offsets=[0, 2, 4], write_index=False)
        return path, {"file_scheme": "simple"}
    if ds == "simple_req":
        path = os.path.join(d, "t.parquet")
        fastparquet.write(path, df, row_group_offsets=[0, 3], write_index=False, has_nulls=False,
                          object_encoding={"b": "utf8", "j": "json"})
        return path, {"file_scheme": "simple"}
    if ds == "hive_req":
        path = os.path.join(d, "dsr")
        fastparquet.write(path, df, file_scheme="hive", row_group_offsets=[0, 3], write_index=False, has_nulls=False,
                          object_encoding={"b": "utf8", "j": "json"})
        return path, {"file_scheme": "hive"}
    if ds in ("hive", "hive_nometa"):
        path = os.path.join(d, "ds")
        fastparquet.write(path, df, file_scheme="hive", row_group_offsets=[0, 3], write_index=False)
        okw = {"file_scheme": "hive"}
    else:
        path = os.path.join(d, "dsp")
        fastparquet.write(path, df, file_scheme="hive", partition_on=["p"], row_group_offsets=[0, 3], write_index=False)
        okw = {"file_scheme": "hive", "partition_on": ["p"]}
    if ds in NOMETA:
        os.remove(os.path.join(path, "_metadata"))
        os.remove(os.path.join(path, "_common_metadata"))
    return path, okw


def frame_rows(df):
    """rows of a frame in canonical cells, columns in name order; p (possibly a category of path values) as int"""
    from mc import oracles as O
    cols = sorted(df.columns)
    lists = []
    for c in cols:
        vals = O.series_to_list(df[c])
        if c == "p":
            vals = [int(x) for x in vals]
        lists.append(vals)
    return [tuple(r) for r in zip(*lists)]


def content(path):
    import fastparquet
    df = fastparquet.ParquetFile(path).to_pandas()
    return sorted(frame_rows(df), key=repr)


def state(path):
    """everything else a reader can see of the dataset: row order, columns, dtypes, counts"""
    import fastparquet
    pf = fastparquet.ParquetFile(path)
    df = pf.to_pandas()
    return {"order": [repr(r) for r in frame_rows(df)], "columns": [str(c) for c in df.columns],
            "dtypes": [str(t) for t in df.dtypes], "count": int(pf.count()), "row_groups": len(pf.row_groups),
            "num_rows": int(pf.fmd.num_rows), "file_scheme": pf.file_scheme, "cats": sorted(pf.cats)}


def files(path):
    """relative name -> sha256 of every file of the dataset"""
    import os
    import hashlib
    out = {}
    if os.path.isdir(path):
        for root, _dirs, names in os.walk(path):
            for nm in names:
                full = os.path.join(root, nm)
                with open(full, "rb") as f:
                    out[os.path.relpath(full, path)] = hashlib.sha256(f.read()).hexdigest()
    else:
        with open(path, "rb") as f:
            out[""] = hashlib.sha256(f.read()).hexdigest()
    return out


def offending(rej, colpos, rowpos, n=6):
    """-> (frame, extra write kwargs)"""
    import pandas as pd
    import numpy as np
    df = base_frame(n, 100)
    kw = {"row_group_offsets": [0, n // 2]}
    target = {"first": "a", "middle": "b", "last": "c", "partition": "p"}[colpos]
    # p = i % 2: rows 0 and n//2+1 are in the first partition group of their row group, 1 and n//2+2 in the second
    row = {"rg0": 0, "later": n // 2 + 1, "rg0_p1": 1, "later_p1": n // 2 + 2, "third": n // 2 + 1}[rowpos]
    if rej == "complex_dtype":
        df[target] = pd.Series([complex(i, 1) for i in range(n)])
    elif rej == "int_colname":
        df = df.rename(columns={"a": 7})
    elif rej == "dup_names":
        df = pd.concat([df, df[["a"]]], axis=1)
    elif rej == "none_required":
        col = pd.Series(["v%d" % i for i in range(n)], dtype=object)
        col[row] = None
        df[target] = col
        kw["has_nulls"] = False
    elif rej == "mixed_object":
        col = pd.Series(["v%d" % i for i in range(n)], dtype=object)
        col[row] = 12345
        df[target] = col
        kw["object_encoding"] = "utf8"
    elif rej == "int_as_utf8":
        col = pd.Series(["v%d" % i for i in range(n)], dtype=object)
        col[row] = b"\xff\xfe raw bytes"
        df[target] = col
        kw["object_encoding"] = "utf8"
    elif rej == "diff_columns":
        df = df.drop(columns=["c"]).assign(zz=1)
    elif rej == "bad_codec":
        kw["compression"] = {target: "NOSUCHCODEC"} if colpos != "first" else "NOSUCHCODEC"
    elif rej == "bad_times":
        df["a"] = pd.Series(pd.to_datetime(range(n)))
        kw["times"] = "int128"
    elif rej == "bad_object_encoding":
        kw["object_encoding"] = "nonsense"
    elif rej == "period_dtype":
        df[target] = pd.Series(pd.period_range("2020-01", periods=n, freq="M"))
    elif rej == "interval_dtype":
        df[target] = pd.Series(pd.interval_range(0, n))
    elif rej == "object_sets":
        df[target] = pd.Series([{i} for i in range(n)], dtype=object)
    elif rej == "tuple_colname":
        df = df.rename(columns={"a": ("a", "x")})
    elif rej == "none_colname":
        df = df.rename(columns={"a": None})
    elif rej == "bytes_colname":
        df = df.rename(columns={"a": b"a"})
    elif rej == "extra_column":
        df = df.assign(zz=1)
    elif rej == "missing_column":
        df = df.drop(columns=["c"])
    elif rej == "partition_missing_col":
        kw["file_scheme"] = "hive"
        kw["partition_on"] = ["nope"]
    elif rej == "has_nulls_unknown":
        kw["has_nulls"] = ["b", "nope"]
    elif rej in ("Int64_na_required", "boolean_na_required"):
        vals = [None if i == row else (i if rej[0] == "I" else bool(i % 2)) for i in range(n)]
        df[target] = pd.array(vals, dtype="Int64" if rej[0] == "I" else "boolean")
        kw["has_nulls"] = False
    elif rej in ("decl_int_str", "decl_bytes_str", "json_set", "decimal_str"):
        col = pd.Series(["v%d" % i for i in range(n)], dtype=object)
        if rej == "json_set":
            col = pd.Series([{"k": i} for i in range(n)], dtype=object)
            col[row] = {1, 2}
        df[target] = col
        kw["object_encoding"] = {"decl_int_str": "int", "decl_bytes_str": "bytes", "json_set": "json", "decimal_str": "decimal"}[rej]
    return df, kw


def offending_req(rej, rowpos, n=6):
    """a frame of the REQ datasets' shape with one value the STORED schema cannot hold"""
    import pandas as pd
    import numpy as np
    df = base_frame(n, 100, req=True)
    row = {"rg0": 0, "later": n // 2 + 1}[rowpos]
    if rej == "req_none_text":
        col = df["b"].copy()
        col[row] = None
        df["b"] = col
    elif rej == "req_none_int":
        col = df["a"].astype(object)
        col[row] = None
        df["a"] = col
    elif rej == "req_NA_Int64":
        col = df["a"].astype("Int64")
        col[row] = pd.NA
        df["a"] = col
    elif rej == "req_nan_cat":
        codes = [i % 3 for i in range(n)]
        codes[row] = -1
        df["k"] = pd.Categorical.from_codes(codes, categories=["k0", "k1", "k2"])
    elif rej == "req_json_set":
        col = df["j"].copy()
        col[row] = {1, 2}
        df["j"] = col
    return df, {"row_group_offsets": [0, n // 2]}


def run(p):
    import os
    import fastparquet
    from mc.scratch import scratch
    from mc import wr
    ds, rej, mode, colpos, rowpos = p["ds"], p["rej"], p["mode"], p["colpos"], p["rowpos"]
    req = ds in REQ
    d = scratch()
    path, okw = create(ds, d)
    before = content(path)
    sig = {"ds": ds, "rej": rej, "mode": mode, "colpos": colpos, "rowpos": rowpos}
    if p.get("size"):
        sig["size"] = p["size"]
    if p.get("iter"):
        sig["iter"] = True

    def bad(symptom, detail, **extra):
        s = dict(sig)
        s["symptom"] = symptom
        s.update(extra)
        return {"ok": False, "outcome": symptom, "nontrivial": True, "sig": s, "detail": detail}

    if mode == "read":
        pf = fastparquet.ParquetFile(path)
        files_before = files(path)
        try:
            if rej == "unknown_column":
                pf.to_pandas(columns=["a", "nope"])
            elif rej == "unknown_filter_column":
                pf.to_pandas(filters=[("nope", ">", 1)])
            elif rej == "unknown_index":
                pf.to_pandas(index="nope")
            elif rej == "unknown_category":
                pf.to_pandas(categories=["nope"])
            elif rej == "head_unknown":
                pf.head(1, columns=["nope"])
            elif rej == "iter_unknown":
                list(pf.iter_row_groups(columns=["b", "nope"]))
            elif rej == "count_unknown_filter":
                pf.count(filters=[("nope", "==", 1)])
            elif rej == "filter_later_and":
                pf.to_pandas(filters=[("a", ">=", 0), ("nope", "==", 1)])
            elif rej == "filter_later_or":
                pf.to_pandas(filters=[[("a", ">=", 0)], [("a", "<", 0), ("nope", "==", 1)]])
            elif rej == "count_filter_later_or":
                pf.count(filters=[[("a", ">=", 0)], [("nope", "==", 1)]])
            elif rej == "iter_filter_later_or":
                list(pf.iter_row_groups(filters=[[("a", ">=", 0)], [("nope", "==", 1)]]))
            elif rej == "rowfilter_later_or":
                pf.to_pandas(filters=[[("a", ">=", 0)], [("nope", "==", 1)]], row_filter=True)
            else:
                pf.to_pandas(filters=[("nope", "==", 1)], row_filter=True)
            return bad("not_rejected", "%s did not raise" % rej)
        except Exception as e:
            pass        # any exception is a refusal (the property does not name exception types)
        try:
            again = pf.to_pandas()
            rows = sorted(frame_rows(again), key=repr)
            if rows != before:
                return bad("handle_damaged", "after the rejected read the handle returns %d rows differing from the %d before" % (len(again), len(before)))
        except Exception as e:
            return bad("handle_damaged", "after the rejected read the handle raises %s: %s" % (type(e).__name__, e))
        if files(path) != files_before:
            return bad("files_changed", "a rejected read changed the files of the dataset")
        return {"ok": True, "outcome": "rejected_intact", "nontrivial": True}

    n = p.get("size", 6)
    if req:
        df, kw = offending_req(rej, rowpos, n)
    elif rej == "overwrite_unsupported":
        df, kw = base_frame(n, 100), {"row_group_offsets": [0, n // 2]}
    else:
        df, kw = offending(rej, colpos, rowpos, n)
    wkw = dict(okw)
    if rej == "diff_scheme":
        wkw["file_scheme"] = "hive" if okw["file_scheme"] == "simple" else "simple"
    if rej == "diff_scheme_drill":
        if not okw.get("partition_on"):
            # without partition directories hive and drill are the same layout
            return {"ok": True, "outcome": "not_applicable", "nontrivial": False}
        wkw["file_scheme"] = "drill"
    if rej == "diff_partition":
        if okw["file_scheme"] == "simple":
            return {"ok": True, "outcome": "not_applicable", "nontrivial": False}
        wkw["partition_on"] = ["a"] if okw.get("partition_on") else ["p"]
    if rej in ("partition_omitted", "partition_superset", "partition_str"):
        if okw["file_scheme"] == "simple" or (rej == "partition_omitted" and not okw.get("partition_on")):
            return {"ok": True, "outcome": "not_applicable", "nontrivial": False}
        if rej == "partition_omitted":
            wkw.pop("partition_on")
        elif rej == "partition_superset":
            wkw["partition_on"] = ["p", "a"]
        else:
            wkw["partition_on"] = "a" if okw.get("partition_on") else "p"
    wkw.update(kw)
    if mode == "append":
        wkw["append"] = True
    if rej == "bad_times" and mode == "append":
        # append ignores `times` (documented): nothing to reject
        return {"ok": True, "outcome": "not_applicable", "nontrivial": False}
    if rej in ("bad_object_encoding", "none_required", "mixed_object", "int_as_utf8", "Int64_na_required",
               "boolean_na_required", "decl_int_str", "decl_bytes_str", "json_set", "decimal_str") and mode != "replace":
        # has_nulls / object_encoding are ignored when appending (documented): use the stored schema
        wkw.pop("has_nulls", None)
        wkw.pop("object_encoding", None)
        if rej not in ("mixed_object", "int_as_utf8", "json_set"):
            return {"ok": True, "outcome": "not_applicable", "nontrivial": False}
    if wkw.get("file_scheme") == "simple":
        wkw.pop("partition_on", None)
    if colpos == "partition" and okw.get("partition_on") and rej == "complex_dtype":
        # the values of a partition column only become directory names: their dtype is never converted
        return {"ok": True, "outcome": "not_applicable", "nontrivial": False}

    state_before = state(path)
    files_before = files(path)
    offsets = wkw.get("row_group_offsets")
    good = base_frame(6, 200, req=req)
    pf = None
    frames = None
    if p.get("iter"):
        frames = [df.iloc[offsets[0]:offsets[1]], df.iloc[offsets[1]:]]
        if rej in COLUMN_MISMATCH and rowpos in ("later", "third"):
            # only a later frame of the iterable has the other columns: the frames before it are acceptable
            ok_df = base_frame(n, 100)
            frames[0] = ok_df.iloc[offsets[0]:offsets[1]]
            if rowpos == "third":
                frames.insert(1, ok_df.iloc[offsets[1]:])
    try:
        if mode == "handle":
            pf = fastparquet.ParquetFile(path)
            data = iter(frames) if frames is not None else df
            pf.write_row_groups(data, row_group_offsets=offsets, compression=wkw.get("compression"))
        elif mode == "append" and frames is not None:
            fastparquet.write(path, iter(frames), write_index=False, **wkw)
        elif mode == "overwrite":
            fastparquet.write(path, df, write_index=False, append="overwrite", file_scheme=okw["file_scheme"],
                              partition_on=okw.get("partition_on", []), row_group_offsets=offsets,
                              compression=wkw.get("compression"))
        else:
            fastparquet.write(path, df, write_index=False, **wkw)
        raised = None
    except Exception as e:
        raised = e
    if raised is None:
        # not refused: then the operation must have been carried out properly (that is C01/C07's business);
        # only a silent no-op / corruption matters here
        try:
            after = content(path)
        except Exception as e:
            return bad("accepted_and_damaged", "the operation did not raise and the dataset is unreadable: %s" % e)
        # every kind enumerated here is in the property's list of operations that end in an exception
        return bad("not_rejected", "%s (%s, column %s) did not raise; the dataset now holds %d rows (had %d)" % (
            rej, mode, colpos, len(after), len(before)))
    exc = type(raised).__name__
    try:
        after = content(path)
    except Exception as e:
        return bad("dataset_unreadable", "%s (%s, column %s, row %s) raised %s, afterwards the dataset cannot be read: %s: %s" % (
            rej, mode, colpos, rowpos, exc, type(e).__name__, str(e)[:120]), exc=exc)
    if after != before:
        return bad("content_changed", "%s (%s) raised %s, afterwards the dataset holds %d rows (had %d)" % (
            rej, mode, exc, len(after), len(before)), exc=exc)
    # ---- reviewer extensions of the oracle -----------------------------------------------------------------
    state_after = state(path)
    for k in state_before:
        if state_after[k] != state_before[k]:
            return bad("state_changed", "%s (%s) raised %s, afterwards %s of the dataset is %s (was %s)" % (
                rej, mode, exc, k, str(state_after[k])[:120], str(state_before[k])[:120]), exc=exc, field=k)
    # (byte identity of the files and the type of the exception are not demanded: the property asks for "an
    # exception" and for the previous content; a recovery that re-serialises an equivalent footer is fine)
    if pf is not None:
        # the handle the caller kept
        try:
            hrows = sorted(frame_rows(pf.to_pandas()), key=repr)
            hstate = (int(pf.count()), len(pf.row_groups), len(pf.fmd.row_groups), int(pf.fmd.num_rows))
        except Exception as e:
            return bad("handle_damaged", "after the rejected write_row_groups the handle raises %s: %s" % (
                type(e).__name__, str(e)[:120]), exc=exc)
        want = (state_before["count"], state_before["row_groups"], state_before["row_groups"], state_before["num_rows"])
        if hrows != before or hstate != want:
            return bad("handle_damaged", "after the rejected write_row_groups the handle holds %d rows, (count, row "
                       "groups, fmd row groups, num_rows) = %s; the dataset has %d rows, %s" % (
                           len(hrows), hstate, len(before), want), exc=exc)
    if mode in ("append", "handle"):
        # history: the same kind of call with a valid frame must now work and add exactly its rows
        try:
            if mode == "handle":
                pf.write_row_groups(good, row_group_offsets=[0, 3])
            else:
                fastparquet.write(path, good, write_index=False, append=True, row_group_offsets=[0, 3], **okw)
            final = content(path)
        except Exception as e:
            return bad("followup_failed", "after the rejected %s (%s) a valid append raises / leaves the dataset "
                       "unreadable: %s: %s" % (rej, mode, type(e).__name__, str(e)[:120]), exc=exc)
        want = sorted(before + frame_rows(good), key=repr)
        if final != want:
            return bad("followup_wrong", "after the rejected %s (%s) and a valid append of 6 rows the dataset holds "
                       "%d rows, expected the %d old + 6 new" % (rej, mode, len(final), len(before)), exc=exc)
    return {"ok": True, "outcome": "rejected_intact", "nontrivial": True, "detail": exc}


LEVEL_TEXT = ("Complete product of rejection kind x position of the offending column x position of the offending row "
              "(i.e. how far the write gets before failing) x existing dataset layout (single file, hive, partitioned, "
              "directories without summary files, REQUIRED columns) x append / replace / ParquetFile.write_row_groups "
              "on a kept handle (frame or iterable of frames) / append='overwrite'; after every "
              "rejected call the pre-existing dataset is re-opened from disk and compared with its previous content, "
              "row order, schema, counts and file bytes, the kept handle is read, and a valid append is made.")
LEVEL_NOTE = "Trusted: pandas frames as inputs. Six or 600 rows; three data columns; two row groups per offending frame."
TECHNIQUE = "exhaustive enumeration of rejection kinds x failure positions x dataset states, re-read after the exception"
