"""C18 - rejected operations raise and leave an existing dataset exactly as it was."""
import itertools

ID = "C18"
LEVEL = "fault_enumeration"
FLAVOUR = "plain"
TIMEOUT = 300
RULE = ("rejection kind (13 + 8 read-side variants + up to 15 further variants of the listed kinds: unsupported dtype, non-text column name, duplicate names, None under has_nulls=False, "
        "unencodable object values [mixed types; int where utf8 declared], append with different columns / file "
        "scheme / partitioning, unknown column in columns= and in filters=, unknown codec, bad times, bad "
        "object_encoding) x position of the offending column {first, middle, last} x position of the offending row "
        "{first row group, later row group} x existing dataset {simple 1 row group, simple 3 row groups, hive, "
        "hive partitioned} x mode {append, replace-by-write} x offending frame size {6 rows, 600 rows for the "
        "rejections that surface while columns are written, so that the failed write has gone past the length of "
        "the old footer}; oracle: the call raises and a fresh ParquetFile of "
        "the pre-existing dataset reads exactly the previous content; non-trivial = the operation was attempted on "
        "an existing dataset and raised")
ASSUMPTIONS = ["orphan files left by a rejected call are allowed here (C09 forbids them)",
               "a rejected read must leave the handle usable"]

DATASETS = ["simple1", "simple3", "hive", "hive_part"]
WRITE_REJECTIONS = ["complex_dtype", "int_colname", "dup_names", "none_required", "mixed_object", "int_as_utf8",
                    "diff_columns", "diff_scheme", "diff_partition", "bad_codec", "bad_times", "bad_object_encoding"]
READ_REJECTIONS = ["unknown_column", "unknown_filter_column", "unknown_index", "unknown_category", "head_unknown",
                   "iter_unknown", "count_unknown_filter", "rowfilter_unknown"]
# further variants of the listed kinds (thorough tier; EXTRA_QUICK also in the quick tier)
EXTRA_UPFRONT = ["period_dtype", "interval_dtype", "object_sets", "tuple_colname", "none_colname", "bytes_colname",
                 "extra_column", "missing_column", "partition_missing_col"]
EXTRA_LATE = ["Int64_na_required", "boolean_na_required", "decl_int_str", "decl_bytes_str", "json_set", "decimal_str"]
EXTRA_QUICK = ["period_dtype", "tuple_colname", "extra_column", "missing_column", "Int64_na_required", "json_set"]
# rejections that can surface while columns are being written (after bytes have gone to the file)
LATE = ("complex_dtype", "none_required", "mixed_object", "int_as_utf8", "bad_codec")
BIG = 600


def points(tier):
    pts = []
    for ds in DATASETS:
        for rej in WRITE_REJECTIONS:
            for mode in ("append", "replace"):
                if mode == "replace" and rej.startswith("diff_"):
                    continue
                for colpos in ("first", "middle", "last"):
                    if rej in ("diff_columns", "diff_scheme", "diff_partition", "bad_times", "bad_object_encoding",
                               "int_colname", "dup_names") and colpos != "first":
                        continue
                    for rowpos in ("rg0", "later"):
                        if rej not in ("none_required", "mixed_object", "int_as_utf8") and rowpos == "later":
                            continue
                        pts.append({"ds": ds, "rej": rej, "mode": mode, "colpos": colpos, "rowpos": rowpos})
                        if rej in LATE:
                            # a frame large enough for the failed write to have gone past the old footer's length
                            pts.append({"ds": ds, "rej": rej, "mode": mode, "colpos": colpos, "rowpos": rowpos,
                                        "size": BIG})
        for rej in EXTRA_UPFRONT + EXTRA_LATE:
            if tier != "thorough" and rej not in EXTRA_QUICK:
                continue
            for mode in ("append", "replace"):
                if mode == "replace" and rej in ("extra_column", "missing_column"):
                    continue
                if mode == "append" and rej in ("period_dtype", "interval_dtype", "object_sets"):
                    # an append converts with the stored schema and does not look at the new frame's dtypes: these
                    # are refusals of a fresh write only
                    continue
                for colpos in (("first", "last") if rej in EXTRA_LATE or rej.endswith("_dtype") or rej == "object_sets" else ("first",)):
                    pts.append({"ds": ds, "rej": rej, "mode": mode, "colpos": colpos, "rowpos": "rg0"})
                    if rej in EXTRA_LATE and tier == "thorough":
                        pts.append({"ds": ds, "rej": rej, "mode": mode, "colpos": colpos, "rowpos": "later", "size": BIG})
        for rej in READ_REJECTIONS:
            pts.append({"ds": ds, "rej": rej, "mode": "read", "colpos": "first", "rowpos": "rg0"})
    return pts


def explore(run, tier):
    run.lattice("rejections", points(tier), "run")


def crash_sig(point, res):
    return {"ds": point["ds"], "rej": point["rej"], "mode": point["mode"], "symptom": res["outcome"]}


def base_frame(n=6, start=0):
    import pandas as pd
    return pd.DataFrame({"a": pd.Series(range(start, start + n), dtype="int64"),
                         "b": pd.Series(["s%d" % i for i in range(start, start + n)], dtype=object),
                         "c": pd.Series([float(i) for i in range(start, start + n)], dtype="float64"),
                         "p": pd.Series([i % 2 for i in range(start, start + n)], dtype="int64")})


def create(ds, d):
    import os
    import fastparquet
    df = base_frame()
    if ds == "simple1":
        path = os.path.join(d, "t.parquet")
        fastparquet.write(path, df, write_index=False)
        return path, {"file_scheme": "simple"}
    if ds == "simple3":
        path = os.path.join(d, "t.parquet")
        fastparquet.write(path, df, row_group_offsets=[0, 2, 4], write_index=False)
        return path, {"file_scheme": "simple"}
    if ds == "hive":
        path = os.path.join(d, "ds")
        fastparquet.write(path, df, file_scheme="hive", row_group_offsets=[0, 3], write_index=False)
        return path, {"file_scheme": "hive"}
    path = os.path.join(d, "dsp")
    fastparquet.write(path, df, file_scheme="hive", partition_on=["p"], row_group_offsets=[0, 3], write_index=False)
    return path, {"file_scheme": "hive", "partition_on": ["p"]}


def content(path):
    import fastparquet
    from mc import oracles as O
    df = fastparquet.ParquetFile(path).to_pandas()
    rows = sorted(zip(O.series_to_list(df["a"]), O.series_to_list(df["b"]), O.series_to_list(df["c"]),
                      [int(x) for x in O.series_to_list(df["p"])]))
    return rows


def offending(rej, colpos, rowpos, n=6):
    """-> (frame, extra write kwargs)"""
    import pandas as pd
    import numpy as np
    df = base_frame(n, 100)
    kw = {"row_group_offsets": [0, n // 2]}
    target = {"first": "a", "middle": "b", "last": "c"}[colpos]
    row = 0 if rowpos == "rg0" else n // 2 + 1
    if rej == "complex_dtype":
        df[target] = pd.Series([complex(i, 1) for i in range(n)])
    elif rej == "int_colname":
        df = df.rename(columns={"a": 7})
    elif rej == "dup_names":
        df = pd.concat([df, df[["a"]]], axis=1)
    elif rej == "none_required":
        col = pd.Series(["v%d" % i for i in range(n)], dtype=object)
        col[row] = None
        df[target] = col
        kw["has_nulls"] = False
    elif rej == "mixed_object":
        col = pd.Series(["v%d" % i for i in range(n)], dtype=object)
        col[row] = 12345
        df[target] = col
        kw["object_encoding"] = "utf8"
    elif rej == "int_as_utf8":
        col = pd.Series(["v%d" % i for i in range(n)], dtype=object)
        col[row] = b"\xff\xfe raw bytes"
        df[target] = col
        kw["object_encoding"] = "utf8"
    elif rej == "diff_columns":
        df = df.drop(columns=["c"]).assign(zz=1)
    elif rej == "bad_codec":
        kw["compression"] = {target: "NOSUCHCODEC"} if colpos != "first" else "NOSUCHCODEC"
    elif rej == "bad_times":
        df["a"] = pd.Series(pd.to_datetime(range(n)))
        kw["times"] = "int128"
    elif rej == "bad_object_encoding":
        kw["object_encoding"] = "nonsense"
    elif rej == "period_dtype":
        df[target] = pd.Series(pd.period_range("2020-01", periods=n, freq="M"))
    elif rej == "interval_dtype":
        df[target] = pd.Series(pd.interval_range(0, n))
    elif rej == "object_sets":
        df[target] = pd.Series([{i} for i in range(n)], dtype=object)
    elif rej == "tuple_colname":
        df = df.rename(columns={"a": ("a", "x")})
    elif rej == "none_colname":
        df = df.rename(columns={"a": None})
    elif rej == "bytes_colname":
        df = df.rename(columns={"a": b"a"})
    elif rej == "extra_column":
        df = df.assign(zz=1)
    elif rej == "missing_column":
        df = df.drop(columns=["c"])
    elif rej == "partition_missing_col":
        kw["file_scheme"] = "hive"
        kw["partition_on"] = ["nope"]
    elif rej in ("Int64_na_required", "boolean_na_required"):
        vals = [None if i == row else (i if rej[0] == "I" else bool(i % 2)) for i in range(n)]
        df[target] = pd.array(vals, dtype="Int64" if rej[0] == "I" else "boolean")
        kw["has_nulls"] = False
    elif rej in ("decl_int_str", "decl_bytes_str", "json_set", "decimal_str"):
        col = pd.Series(["v%d" % i for i in range(n)], dtype=object)
        if rej == "json_set":
            col = pd.Series([{"k": i} for i in range(n)], dtype=object)
            col[row] = {1, 2}
        df[target] = col
        kw["object_encoding"] = {"decl_int_str": "int", "decl_bytes_str": "bytes", "json_set": "json", "decimal_str": "decimal"}[rej]
    return df, kw


def run(p):
    import os
    import hashlib
    import fastparquet
    from mc.scratch import scratch
    from mc import wr
    ds, rej, mode, colpos, rowpos = p["ds"], p["rej"], p["mode"], p["colpos"], p["rowpos"]
    d = scratch()
    path, okw = create(ds, d)
    before = content(path)
    sig = {"ds": ds, "rej": rej, "mode": mode, "colpos": colpos, "rowpos": rowpos}
    if p.get("size"):
        sig["size"] = p["size"]

    def bad(symptom, detail, **extra):
        s = dict(sig)
        s["symptom"] = symptom
        s.update(extra)
        return {"ok": False, "outcome": symptom, "nontrivial": True, "sig": s, "detail": detail}

    if mode == "read":
        pf = fastparquet.ParquetFile(path)
        try:
            if rej == "unknown_column":
                pf.to_pandas(columns=["a", "nope"])
            elif rej == "unknown_filter_column":
                pf.to_pandas(filters=[("nope", ">", 1)])
            elif rej == "unknown_index":
                pf.to_pandas(index="nope")
            elif rej == "unknown_category":
                pf.to_pandas(categories=["nope"])
            elif rej == "head_unknown":
                pf.head(1, columns=["nope"])
            elif rej == "iter_unknown":
                list(pf.iter_row_groups(columns=["b", "nope"]))
            elif rej == "count_unknown_filter":
                pf.count(filters=[("nope", "==", 1)])
            else:
                pf.to_pandas(filters=[("nope", "==", 1)], row_filter=True)
            return bad("not_rejected", "%s did not raise" % rej)
        except Exception:
            pass
        try:
            from mc import oracles as O
            again = pf.to_pandas()
            rows = sorted(zip(O.series_to_list(again["a"]), O.series_to_list(again["b"]), O.series_to_list(again["c"]),
                              [int(x) for x in O.series_to_list(again["p"])]))
            if rows != before:
                return bad("handle_damaged", "after the rejected read the handle returns %d rows differing from the %d before" % (len(again), len(before)))
        except Exception as e:
            return bad("handle_damaged", "after the rejected read the handle raises %s: %s" % (type(e).__name__, e))
        return {"ok": True, "outcome": "rejected_intact", "nontrivial": True}
    df, kw = offending(rej, colpos, rowpos, p.get("size", 6))
    wkw = dict(okw)
    if rej == "diff_scheme":
        wkw["file_scheme"] = "hive" if okw["file_scheme"] == "simple" else "simple"
    if rej == "diff_partition":
        if okw["file_scheme"] == "simple":
            return {"ok": True, "outcome": "not_applicable", "nontrivial": False}
        wkw["partition_on"] = ["a"] if okw.get("partition_on") else ["p"]
    wkw.update(kw)
    if mode == "append":
        wkw["append"] = True
    if rej == "bad_times" and mode == "append":
        # append ignores `times` (documented): nothing to reject
        return {"ok": True, "outcome": "not_applicable", "nontrivial": False}
    if rej in ("bad_object_encoding", "none_required", "mixed_object", "int_as_utf8", "Int64_na_required",
               "boolean_na_required", "decl_int_str", "decl_bytes_str", "json_set", "decimal_str") and mode == "append":
        # has_nulls / object_encoding are ignored when appending (documented): use the stored schema
        wkw.pop("has_nulls", None)
        wkw.pop("object_encoding", None)
        if rej not in ("mixed_object", "int_as_utf8", "json_set"):
            return {"ok": True, "outcome": "not_applicable", "nontrivial": False}
    if wkw.get("file_scheme") == "simple":
        wkw.pop("partition_on", None)
    try:
        fastparquet.write(path, df, write_index=False, **wkw)
        raised = None
    except Exception as e:
        raised = e
    if raised is None:
        # not refused: then the operation must have been carried out properly (that is C01/C07's business);
        # only a silent no-op / corruption matters here
        try:
            after = content(path)
        except Exception as e:
            return bad("accepted_and_damaged", "the operation did not raise and the dataset is unreadable: %s" % e)
        # every kind enumerated here is in the property's list of operations that end in an exception
        return bad("not_rejected", "%s (%s, column %s) did not raise; the dataset now holds %d rows (had %d)" % (
            rej, mode, colpos, len(after), len(before)))
    try:
        after = content(path)
    except Exception as e:
        return bad("dataset_unreadable", "%s (%s, column %s, row %s) raised %s, afterwards the dataset cannot be read: %s: %s" % (
            rej, mode, colpos, rowpos, type(raised).__name__, type(e).__name__, str(e)[:120]), exc=type(raised).__name__)
    if after != before:
        return bad("content_changed", "%s (%s) raised %s, afterwards the dataset holds %d rows (had %d)" % (
            rej, mode, type(raised).__name__, len(after), len(before)), exc=type(raised).__name__)
    return {"ok": True, "outcome": "rejected_intact", "nontrivial": True, "detail": type(raised).__name__}


LEVEL_TEXT = ("Complete product of rejection kind x position of the offending column x position of the offending row "
              "(i.e. how far the write gets before failing) x existing dataset layout x append / replace; after every "
              "rejected call the pre-existing dataset is re-opened from disk and compared with its previous content.")
LEVEL_NOTE = "Trusted: pandas frames as inputs. Six or 600 rows; three data columns; two row groups per offending frame."
TECHNIQUE = "exhaustive enumeration of rejection kinds x failure positions x dataset states, re-read after the exception"
