"""C08 - directory-partitioned write/read preserves every row and every partition value."""
import itertools

ID = "C08"
LEVEL = "exploration"
FLAVOUR = "plain"
TIMEOUT = 600
RULE = ("cell = (kind of partition column 1) x (kind of partition column 2 or none; a third int column in thorough) x "
        "scheme {hive, drill}; inside: key subsets of cardinality 1..3 from the kind's pool x assignment programs "
        "(all combinations present, some combinations empty, keys appearing only in a later row group) x "
        "row_group_offsets {None, 2, [0,3]} x value-column kind (6) x null keys {no, some}; oracle: every part file "
        "lies in the directory named by its rows' key text and holds only such rows; the dataset read back equals "
        "the input restricted to rows with non-null keys as a multiset, partition columns carrying the original "
        "values and value kinds (hive) / the key text as positional dirN columns (drill); pf.cats lists exactly the "
        "keys used; non-trivial = a dataset with >= 1 row compared")
ASSUMPTIONS = ["keys whose text coerces to the same value (\"0.7\" / \".7\") and keys containing '/' or '=' are excluded "
               "(documented limitation)", "row order is not compared"]

PKINDS = ["int", "float", "bool", "dt", "str", "cat_str", "cat_int"]


def key_pool(kind):
    import pandas as pd
    if kind == "int":
        # incl. values beyond 2**53 (not representable as float64) and the int64 bounds
        return [0, -3, 2 ** 53 + 1, 1000000, 2 ** 63 - 1, 17, -2 ** 63, -(2 ** 53 + 3)]
    if kind == "float":
        # incl. values whose text uses exponent notation or needs 17 significant digits
        return [0.5, 1.0, 0.1, 1e10, 1e-07, -2.25, 1.7976931348623157e308, 123456789.12345679]
    if kind == "bool":
        return [True, False]
    if kind == "dt":
        return [pd.Timestamp("2020-01-01"), pd.Timestamp("1999-12-31 23:59:59"), pd.Timestamp("2020-01-01 00:00:00.500"),
                pd.Timestamp("2021-06-15 12:00:00.000001")]
    if kind == "str":
        # "1" and "True" adjacent: as parsed values (drill) they are equal in Python (1 == True)
        return ["1", "True", "a", "1.5", "nan", "2020-01-01", " x y", "é", "a.b"]
    if kind == "cat_str":
        return ["u", "v", "w"]
    if kind == "cat_int":
        return [10, 20, 30]
    raise KeyError(kind)


def points(tier):
    pts = []
    for k1 in PKINDS:
        for k2 in [None] + (PKINDS if tier == "thorough" else ["int", "str", "dt"]):
            for scheme in ("hive", "drill"):
                pts.append({"k1": k1, "k2": k2, "scheme": scheme, "tier": tier, "k3": False})
    if tier == "thorough":
        for k1 in ("int", "str", "dt"):
            for k2 in ("float", "bool", "cat_str"):
                pts.append({"k1": k1, "k2": k2, "scheme": "hive", "tier": tier, "k3": True})
    return pts


def explore(run, tier):
    run.lattice("partitioned", points(tier), "run")


def crash_sig(point, res):
    return {"k1": point["k1"], "k2": point["k2"], "scheme": point["scheme"], "symptom": res["outcome"]}


def key_series(kind, keys, n, name):
    import pandas as pd
    vals = [keys[i] for i in range(n)]
    if kind == "int":
        return pd.Series(vals, dtype="int64", name=name)
    if kind == "float":
        return pd.Series(vals, dtype="float64", name=name)
    if kind == "bool":
        return pd.Series(vals, dtype=bool, name=name)
    if kind == "dt":
        return pd.Series(pd.to_datetime(vals), name=name)
    if kind == "str":
        return pd.Series(vals, dtype=object, name=name)
    if kind == "cat_str":
        return pd.Series(pd.Categorical(vals, categories=["u", "unused", "v", "w"]), name=name)
    if kind == "cat_int":
        return pd.Series(pd.Categorical(vals, categories=[10, 20, 30, 40]), name=name)


def key_text(scheme, v):
    """the path segment used for a key value: hive uses ISO format for timestamps, drill the plain text"""
    import pandas as pd
    if isinstance(v, pd.Timestamp) and scheme == "hive":
        return v.isoformat()
    return str(v)


def canon_key(v):
    from mc import oracles as O
    return O.canon_cell(v)


def run(p):
    import os
    import pandas as pd
    import numpy as np
    import fastparquet
    from mc.scratch import scratch
    from mc import alphabets as A, oracles as O
    k1, k2, scheme, thorough = p["k1"], p["k2"], p["scheme"], p["tier"] == "thorough"
    sigs = {}
    detail = [""]
    ctx = {}
    datasets = 0

    def bad(symptom, msg, **extra):
        s = {"k1": k1, "k2": k2, "scheme": scheme, "symptom": symptom}
        s.update(ctx)
        s.update(extra)
        k = repr(sorted(s.items(), key=str))
        if k not in sigs:
            sigs[k] = s
            if not detail[0]:
                detail[0] = msg

    n = 6
    pool1 = key_pool(k1)
    subsets1 = []
    for card in (1, 2, 3):
        for start in range(0, len(pool1), 1 if thorough else 2):
            sub = [pool1[(start + j) % len(pool1)] for j in range(min(card, len(pool1)))]
            if len(set(map(repr, sub))) == len(sub) and sub not in subsets1:
                subsets1.append(sub)
    pool2 = key_pool(k2) if k2 else None
    valkinds = ["int64", "str_obj", "float64", "cat_str", "Int64", "dt_ns"] if thorough else ["int64", "cat_str"]
    d = scratch()
    for sub1 in subsets1:
        for prog in ("cycle", "blocks", "late"):
            # assignment of keys to the 6 rows
            if prog == "cycle":
                a1 = [sub1[i % len(sub1)] for i in range(n)]
            elif prog == "blocks":
                a1 = [sub1[min(i * len(sub1) // n, len(sub1) - 1)] for i in range(n)]
            else:   # a key that appears only in the last rows (later row group)
                a1 = [sub1[0]] * (n - 2) + [sub1[-1]] * 2
            if k2:
                sub2 = pool2[:2]
                a2 = [sub2[(i // 2) % len(sub2)] for i in range(n)] if prog != "late" else [sub2[0]] * 5 + [sub2[-1]]
            for rgo in ((None, 2, [0, 3]) if thorough else (None, [0, 3])):
                for vk in valkinds:
                    for nullkeys in (False, True):
                        if nullkeys and k1 in ("int", "bool"):
                            continue
                        if not thorough and ((nullkeys and prog != "cycle") or (vk != "int64" and rgo is not None)):
                            continue
                        ctx.clear()
                        ctx.update({"card": len(sub1), "prog": prog, "nullkeys": nullkeys})
                        s1 = key_series(k1, a1, n, "p1")
                        df = pd.DataFrame({"rid": list(range(n)), "val": A.series(vk, n, "none", 0, "val"), "p1": s1})
                        parts = ["p1"]
                        if k2:
                            df["p2"] = key_series(k2, a2, n, "p2")
                            parts.append("p2")
                        if p["k3"]:
                            df["p3"] = [7, 7, 8, 8, 7, 8]
                            parts.append("p3")
                        if nullkeys:
                            df.loc[1, "p1"] = None if k1 in ("str",) else (np.nan if k1 == "float" else pd.NaT if k1 == "dt" else np.nan)
                        path = os.path.join(d, "ds")
                        import shutil
                        shutil.rmtree(path, ignore_errors=True)
                        what = "%s keys1=%r%s prog=%s rgo=%r val=%s nullkeys=%s" % (
                            scheme, sub1, (" x %s" % k2) if k2 else "", prog, rgo, vk, nullkeys)
                        try:
                            fastparquet.write(path, df, file_scheme=scheme, partition_on=parts, row_group_offsets=rgo,
                                              write_index=False)
                        except Exception as e:
                            bad("write_raised", "%s: %s: %s" % (what, type(e).__name__, str(e)[:150]), exc=type(e).__name__)
                            continue
                        datasets += 1
                        keep = df[df[parts].notnull().all(axis=1)]
                        exp_rows = {}
                        for i in range(len(keep)):
                            exp_rows[int(keep["rid"].iloc[i])] = tuple(canon_key(keep[c].iloc[i]) for c in parts)
                        expval = dict(zip(O.series_to_list(keep["rid"]), O.series_to_list(keep["val"])))
                        # (2) read back
                        try:
                            pf = fastparquet.ParquetFile(path)
                            out = pf.to_pandas()
                        except Exception as e:
                            bad("read_raised", "%s: %s: %s" % (what, type(e).__name__, str(e)[:150]), exc=type(e).__name__)
                            continue
                        rids = O.series_to_list(out["rid"])
                        if sorted(rids) != sorted(exp_rows):
                            lost = sorted(set(exp_rows) - set(rids))
                            dup = sorted({r for r in rids if rids.count(r) > 1})
                            bad("rows", "%s: row ids read %r, written (non-null keys) %r" % (what, sorted(rids), sorted(exp_rows)),
                                kind="lost" if lost else ("duplicated" if dup else "extra"))
                            continue
                        vals = O.series_to_list(out["val"])
                        if any(not O.same_value(v, expval[r]) for r, v in zip(rids, vals)):
                            bad("values", "%s: value column misaligned with rows" % what)
                            continue
                        names = parts if scheme == "hive" else ["dir%d" % i for i in range(len(parts))]
                        missing = [c for c in names if c not in out.columns]
                        if missing:
                            bad("partition_columns", "%s: columns %r, expected partition columns %r" % (what, list(out.columns), names))
                            continue
                        for ci, (c, kind) in enumerate(zip(names, [k1, k2, "int"][:len(parts)])):
                            got = O.series_to_list(out[c])
                            for r, g in zip(rids, got):
                                e = exp_rows[r][ci]
                                if scheme == "drill":
                                    # value-only layout: the directory level carries the key text (possibly re-typed by parsing)
                                    et = key_text(scheme, keep.loc[keep["rid"] == r, parts[ci]].iloc[0])
                                    coerced = False
                                    if isinstance(g, tuple) and g[0] == "ts":
                                        # documented: drill directory names are coerced to numbers / dates when they parse
                                        try:
                                            coerced = pd.Timestamp(et).value == g[1]
                                        except Exception:
                                            coerced = False
                                    if str(g) != et and not O.same_value(g, e) and not coerced:
                                        bad("partition_value", "%s: %s of row %d is %r, directory text %r" % (what, c, r, g, et), col=ci, pk=kind)
                                        break
                                else:
                                    if not O.same_value(g, e) or (isinstance(e, str) != isinstance(g, str)) or (isinstance(e, bool) != isinstance(g, bool)):
                                        bad("partition_value", "%s: %s of row %d came back as %r (%s), written %r (%s)" % (
                                            what, c, r, g, type(g).__name__, e, type(e).__name__), col=ci, pk=kind)
                                        break
                        # (1) placement of every part file
                        for root, dirs, files_ in os.walk(path):
                            for f in files_:
                                if not f.startswith("part."):
                                    continue
                                rel = os.path.relpath(root, path)
                                segs = [] if rel == "." else rel.split(os.sep)
                                try:
                                    sub = fastparquet.ParquetFile(os.path.join(root, f)).to_pandas()
                                except Exception as e:
                                    bad("part_unreadable", "%s: %s/%s: %s" % (what, rel, f, e))
                                    continue
                                for r in O.series_to_list(sub["rid"]):
                                    if r not in exp_rows:
                                        bad("placement", "%s: row %d with a null key is stored in %s" % (what, r, rel))
                                        continue
                                    sel = keep["rid"] == r
                                    want = [("%s=%s" % (c, key_text(scheme, keep.loc[sel, c].iloc[0]))) if scheme == "hive"
                                            else key_text(scheme, keep.loc[sel, c].iloc[0]) for c in parts]
                                    if segs != want:
                                        bad("placement", "%s: row %d lies in %r, its keys name %r" % (what, r, segs, want))
                        # (3) cats
                        if scheme == "hive":
                            for ci, c in enumerate(parts):
                                want = sorted({repr(v[ci]) for v in exp_rows.values()})
                                got = sorted({repr(canon_key(v)) for v in pf.cats.get(c, [])})
                                if got != want:
                                    bad("cats", "%s: pf.cats[%s]=%r, keys used %r" % (what, c, got, want), col=ci,
                                        pk=[k1, k2, "int"][ci])
    ok = not sigs
    return {"ok": ok, "outcome": "preserved" if ok else "differs", "nontrivial": datasets > 0,
            "counts": {"datasets": datasets}, "sig": list(sigs.values()) or None, "detail": detail[0]}


LEVEL_TEXT = ("Bounded-exhaustive lattice over partition-column kinds (int, float, bool, timestamps incl. sub-second, text "
              "incl. numeric-/boolean-/date-looking text, categoricals with unused categories) x one or two (three) levels x "
              "key subsets x assignment programs (incl. keys that first appear in a later row group) x row-group splits "
              "x hive/drill x value kinds x null keys; checks placement of every row on disk, the multiset of rows read "
              "back, the values and value kinds of the reconstructed partition columns, and pf.cats.")
LEVEL_NOTE = ("Trusted: pandas for building the frames. Six rows per frame; key pools are fixed boundary values; keys that "
              "coerce to the same value are outside the documented domain.")
TECHNIQUE = "bounded exhaustive enumeration of partition key types x values x layouts, placement + multiset + value-kind oracle"
