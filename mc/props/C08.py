"""C08 - directory-partitioned write/read preserves every row and every partition value."""
import itertools

ID = "C08"
LEVEL = "exploration"
FLAVOUR = "plain"
TIMEOUT = 1800
RULE = ("cell = (kind of partition column 1: int64, float64, bool, datetime64[us], object text, categorical text / int, ordered categorical text whose category order is not the label order; "
        "wave 3: datetime64[ns] with nanosecond keys, datetime64[s] outside the ns range, zone-aware datetime, pandas "
        "'str' dtype, nullable Int64, uint64 beyond 2**63, text with unusual but legal path characters incl. a "
        "backslash) x (kind of partition column 2 or none; a third int column in thorough) x scheme {hive, drill}; "
        "plus name cells: 5 families of partition column names (blank / dash / dot / non-ASCII, one name a prefix of "
        "the other in both directions, hive names dir1/dir0) x kinds x hive; "
        "inside: key subsets of cardinality 1..3 from the kind's pool (level-2 keys rotate through their pool) x "
        "assignment programs (all combinations present, some combinations empty, keys appearing only in a later row "
        "group) x row_group_offsets {None, 2, [0,3]} x value-column kind (6, and 3 kinds holding NULLs) x null keys "
        "{none, one row of level 1, one row of level 2, the whole first row group} x frame index labels {range, "
        "duplicated, shuffled} x partition_on order {frame order with the partition columns last, reversed with a "
        "partition column first}; for drill datasets with a text level every order (<= 3 directories: all "
        "permutations, else all rotations of the sorted and of the reversed list) in which the directory names can "
        "be met when the dataset is opened; oracle: every part file lies in the directory named by its rows' key "
        "text and holds only such rows; the dataset read back equals the input restricted to rows with non-null "
        "keys as a multiset, partition columns carrying the original names, values and value kinds (hive: int / "
        "float / bool / text / timestamp per value, dtype kind and zone-awareness of the column) / the key text as "
        "positional dirN columns (drill); pf.cats lists exactly the keys used; non-trivial = a dataset with >= 1 "
        "row compared")
ASSUMPTIONS = ["keys whose text coerces to the same value (\"0.7\" / \".7\") and keys containing '/' or '=' are excluded "
               "(documented limitation)", "row order is not compared",
               "the order in which directory names are met on opening is explored by substituting "
               "fastparquet.api._strip_path_tail (a set in the library: the order depends on the hash seed)",
               "float32 keys (directory text is the float64 text) and timedelta keys are outside the enumerated space"]

PKINDS = ["int", "float", "bool", "dt", "str", "cat_str", "cat_int"]
# wave 3: kinds inside the quantifier's families that the first alphabet never produced
XKINDS = ["dt_ns", "dt_s", "dt_tz", "str_pd", "Int64", "uint64", "str_bs", "cat_rev"]
STRISH = ("str", "str_pd", "str_bs")
NOT_NULLABLE = ("int", "bool", "uint64")
# partition column names (level 1, level 2, level 3)
NAMES = [("my col", "k-2", "z 3"), ("year", "y", "ye"), ("a", "ab", "abc"), ("é", "x.y", "ü"),
         ("dir1", "dir0", "dir2")]
# dtype kinds (numpy letter) the reconstructed hive column may have
DTYPE_KINDS = {"int": "iu", "Int64": "iu", "uint64": "iu", "cat_int": "iu", "float": "f", "bool": "b",
               "dt": "M", "dt_ns": "M", "dt_s": "M", "dt_tz": "M",
               "str": "OUT", "str_pd": "OUT", "str_bs": "OUT", "cat_str": "OUT", "cat_rev": "OUT"}


def key_pool(kind):
    import pandas as pd
    if kind == "int":
        # incl. values beyond 2**53 (not representable as float64) and the int64 bounds
        return [0, -3, 2 ** 53 + 1, 1000000, 2 ** 63 - 1, 17, -2 ** 63, -(2 ** 53 + 3)]
    if kind == "float":
        # incl. values whose text uses exponent notation or needs 17 significant digits
        return [0.5, 1.0, 0.1, 1e10, 1e-07, -2.25, 1.7976931348623157e308, 123456789.12345679, 0.0, float("inf")]
    if kind == "bool":
        return [True, False]
    if kind == "dt":
        return [pd.Timestamp("2020-01-01"), pd.Timestamp("1999-12-31 23:59:59"), pd.Timestamp("2020-01-01 00:00:00.500"),
                pd.Timestamp("2021-06-15 12:00:00.000001")]
    if kind == "str":
        # "1" and "True" adjacent: as parsed values (drill) they are equal in Python (1 == True)
        # ".7": a leading dot (a hidden directory, a relative-path marker)
        return ["1", "True", "a", "1.5", "nan", "2020-01-01", " x y", "é", "a.b", ".7"]
    if kind in ("cat_str", "cat_rev"):
        return ["u", "v", "w"]
    if kind == "cat_int":
        return [10, 20, 30]
    if kind == "dt_ns":
        # neighbours that differ only in the nanosecond digit; the bounds of the ns range
        return [pd.Timestamp("2020-01-01 00:00:00.000000001"), pd.Timestamp("2020-01-01 00:00:00.000000002"),
                pd.Timestamp("2020-01-01"), pd.Timestamp("1999-12-31 23:59:59.999999999"),
                pd.Timestamp("2262-04-11 23:47:16.854775807"), pd.Timestamp("1677-09-21 00:12:43.145224193")]
    if kind == "dt_s":
        return [pd.Timestamp("2020-01-01"), pd.Timestamp("1500-01-01"), pd.Timestamp("1999-12-31 23:59:59"),
                pd.Timestamp("3000-06-15 12:00:00")]
    if kind == "dt_tz":
        # naive wall times, localised to Europe/Paris (winter +01:00, summer +02:00)
        return [pd.Timestamp("2020-01-01"), pd.Timestamp("2020-07-02 00:00:00.500"), pd.Timestamp("1999-12-31 23:59:59"),
                pd.Timestamp("2021-06-15 12:00:00.000001")]
    if kind == "str_pd":
        return ["1", "True", "a", "1.5", "nan", "2020-01-01", " x y", "é", "a.b"]
    if kind == "Int64":
        return [0, -3, 2 ** 53 + 1, 2 ** 63 - 1]
    if kind == "uint64":
        return [0, 2 ** 63, 2 ** 64 - 1, 17]
    if kind == "str_bs":
        # legal POSIX path segments with characters that are special elsewhere (URL, Windows, shells)
        return ["a%20b", "x#y", "q?z", "a\\b", "a:b", "A", "tr.", "a"]
    raise KeyError(kind)


def points(tier):
    pts = []
    thorough = tier == "thorough"
    for k1 in PKINDS:
        for k2 in [None] + (PKINDS if thorough else ["int", "str", "dt"] + (["cat_str"] if k1 == "float" else [])):
            for scheme in ("hive", "drill"):
                pts.append({"k1": k1, "k2": k2, "scheme": scheme, "tier": tier, "k3": False})
    if thorough:
        for k1 in ("int", "str", "dt"):
            for k2 in ("float", "bool", "cat_str"):
                pts.append({"k1": k1, "k2": k2, "scheme": "hive", "tier": tier, "k3": True})
    # wave 3 kinds at level 1 ...
    for k1 in XKINDS:
        for k2 in ([None, "int", "str"] if thorough else [None]):
            for scheme in ("hive", "drill"):
                pts.append({"k1": k1, "k2": k2, "scheme": scheme, "tier": tier, "k3": False})
    # ... and at level 2 (keys arrive as elements of a group-by tuple)
    for k1 in (("int", "str") if thorough else ("int",)):
        for k2 in XKINDS:
            for scheme in (("hive", "drill") if thorough else ("hive",)):
                pts.append({"k1": k1, "k2": k2, "scheme": scheme, "tier": tier, "k3": False})
    # partition column names
    for ni in range(len(NAMES)):
        for k1 in (("int", "str", "dt", "float", "bool", "cat_str") if thorough else ("int", "str")):
            for k2 in ((None, "int", "str", "dt") if thorough else (None, "str")):
                if not thorough and (k1, k2) == ("str", None):
                    continue
                pts.append({"k1": k1, "k2": k2, "scheme": "hive", "tier": tier, "k3": thorough and k2 == "int",
                            "names": ni})
    return pts


def explore(run, tier):
    run.lattice("partitioned", points(tier), "run")


def crash_sig(point, res):
    return {"k1": point["k1"], "k2": point["k2"], "scheme": point["scheme"], "symptom": res["outcome"]}


def key_series(kind, keys, n, name):
    import pandas as pd
    vals = [keys[i] for i in range(n)]
    if kind == "int":
        return pd.Series(vals, dtype="int64", name=name)
    if kind == "float":
        return pd.Series(vals, dtype="float64", name=name)
    if kind == "bool":
        return pd.Series(vals, dtype=bool, name=name)
    if kind == "dt":
        return pd.Series(pd.to_datetime(vals), name=name)
    if kind == "str":
        return pd.Series(vals, dtype=object, name=name)
    if kind == "cat_str":
        return pd.Series(pd.Categorical(vals, categories=["u", "unused", "v", "w"]), name=name)
    if kind == "cat_rev":
        # declared category order differs from the order of the labels (low < mid < high style)
        return pd.Series(pd.Categorical(vals, categories=["w", "unused", "u", "v"], ordered=True), name=name)
    if kind == "cat_int":
        return pd.Series(pd.Categorical(vals, categories=[10, 20, 30, 40]), name=name)
    if kind == "dt_ns":
        return pd.Series(pd.DatetimeIndex(vals).astype("datetime64[ns]"), name=name)
    if kind == "dt_s":
        return pd.Series(pd.DatetimeIndex(vals).astype("datetime64[s]"), name=name)
    if kind == "dt_tz":
        return pd.Series(pd.DatetimeIndex(vals).astype("datetime64[us]"), name=name).dt.tz_localize("Europe/Paris")
    if kind == "str_pd":
        return pd.Series(vals, dtype="str", name=name)
    if kind == "Int64":
        return pd.Series(vals, dtype="Int64", name=name)
    if kind == "uint64":
        return pd.Series(vals, dtype="uint64", name=name)
    if kind == "str_bs":
        return pd.Series(vals, dtype=object, name=name)
    raise KeyError(kind)


def null_of(kind):
    """the missing-value marker of a key kind"""
    import numpy as np
    import pandas as pd
    if kind in ("str", "str_bs", "str_pd"):
        return None
    if kind in ("dt", "dt_ns", "dt_s", "dt_tz"):
        return pd.NaT
    if kind == "Int64":
        return pd.NA
    return np.nan


def key_text(scheme, v):
    """the path segment used for a key value: hive uses ISO format for timestamps, drill the plain text"""
    import pandas as pd
    if isinstance(v, pd.Timestamp) and scheme == "hive":
        return v.isoformat()
    return str(v)


def canon_key(v):
    from mc import oracles as O
    return O.canon_cell(v)


def vclass(x):
    """value kind of a canonical cell"""
    if x is None:
        return "null"
    if isinstance(x, bool):
        return "bool"
    if isinstance(x, int):
        return "int"
    if isinstance(x, float):
        return "float"
    if isinstance(x, str):
        return "str"
    if isinstance(x, tuple) and x and x[0] == "ts":
        return "ts"
    return type(x).__name__


def dir_orders(dirs, thorough):
    """the orders in which the directory names are presented: all permutations of few, else all rotations of the
    sorted list and of its reverse"""
    base = sorted(dirs)
    if len(base) <= (4 if thorough else 3):
        return [list(p) for p in itertools.permutations(base)]
    out = []
    for b in (base, base[::-1]):
        for i in range(len(b)):
            o = b[i:] + b[:i]
            if o not in out:
                out.append(o)
    return out


def run(p):
    import os
    import shutil
    import pandas as pd
    import numpy as np
    import fastparquet
    import fastparquet.api as fapi
    from mc.scratch import scratch
    from mc import alphabets as A, oracles as O
    k1, k2, scheme, thorough = p["k1"], p["k2"], p["scheme"], p["tier"] == "thorough"
    slim = "names" in p                      # name cells: a slice of the inner lattice
    names = NAMES[p["names"]] if slim else ("p1", "p2", "p3")
    xcell = k1 in XKINDS or k2 in XKINDS     # wave 3 kinds: fewer value kinds in thorough
    sigs = {}
    detail = [""]
    ctx = {}
    counts = {"datasets": 0, "order_reads": 0}

    def bad(symptom, msg, **extra):
        s = {"k1": k1, "k2": k2, "scheme": scheme, "symptom": symptom}
        s.update(ctx)
        s.update(extra)
        k = repr(sorted(s.items(), key=str))
        if k not in sigs:
            sigs[k] = s
            if not detail[0]:
                detail[0] = msg

    n = 6
    pool1 = key_pool(k1)
    subsets1 = []
    for card in (1, 2, 3):
        for start in range(0, len(pool1), 1 if thorough else 2):
            sub = [pool1[(start + j) % len(pool1)] for j in range(min(card, len(pool1)))]
            if len(set(map(repr, sub))) == len(sub) and sub not in subsets1:
                subsets1.append(sub)
    pool2 = key_pool(k2) if k2 else None
    if thorough:
        valkinds = [("int64", "none"), ("str_obj", "none"), ("cat_str", "none")] if (xcell or slim) else \
                   [("int64", "none"), ("str_obj", "none"), ("float64", "none"), ("cat_str", "none"), ("Int64", "none"),
                    ("dt_ns", "none")]
        valkinds += [("str_obj", "alt"), ("Int64", "alt"), ("float64", "alt")]
    else:
        valkinds = [("int64", "none"), ("cat_str", "none")]
    d = scratch()
    path = os.path.join(d, "ds")

    def verify(pf, out, what, df, keep, exp_rows, expval, parts, kinds, **okey):
        """the read-back oracle: row multiset, value alignment, partition columns (names, values, kinds), cats"""
        rids = O.series_to_list(out["rid"])
        if sorted(rids) != sorted(exp_rows):
            lost = sorted(set(exp_rows) - set(rids))
            dup = sorted({r for r in rids if rids.count(r) > 1})
            bad("rows", "%s: row ids read %r, written (non-null keys) %r" % (what, sorted(rids), sorted(exp_rows)),
                kind="lost" if lost else ("duplicated" if dup else "extra"), **okey)
            return False
        vals = O.series_to_list(out["val"])
        if any(not O.same_value(v, expval[r]) for r, v in zip(rids, vals)):
            bad("values", "%s: value column misaligned with rows" % what, **okey)
            return False
        cnames = parts if scheme == "hive" else ["dir%d" % i for i in range(len(parts))]
        missing = [c for c in cnames if c not in out.columns]
        if missing:
            bad("partition_columns", "%s: columns %r, expected partition columns %r" % (what, list(out.columns), cnames),
                **okey)
            return False
        for ci, (c, kind) in enumerate(zip(cnames, kinds)):
            got = O.series_to_list(out[c])
            value_ok = True
            for r, g in zip(rids, got):
                e = exp_rows[r][ci]
                if scheme == "drill":
                    # value-only layout: the directory level carries the key text (possibly re-typed by parsing)
                    et = key_text(scheme, keep.loc[keep["rid"] == r, parts[ci]].iloc[0])
                    coerced = False
                    if isinstance(g, tuple) and g[0] == "ts":
                        # documented: drill directory names are coerced to numbers / dates when they parse
                        try:
                            coerced = pd.Timestamp(et).value == g[1]
                        except Exception:
                            coerced = False
                    if str(g) != et and not O.same_value(g, e) and not coerced:
                        bad("partition_value", "%s: %s of row %d is %r, directory text %r" % (what, c, r, g, et), col=ci,
                            pk=kind, **okey)
                        break
                else:
                    if not O.same_value(g, e) or vclass(e) != vclass(g):
                        bad("partition_value", "%s: %s of row %d came back as %r (%s), written %r (%s)" % (
                            what, c, r, g, type(g).__name__, e, type(e).__name__), col=ci, pk=kind, **okey)
                        value_ok = False
                        break
            if scheme == "hive" and len(out) and value_ok:
                # the column's dtype agrees with the kind of its values
                cd = out[c].dtype
                if isinstance(cd, pd.CategoricalDtype):
                    cd = cd.categories.dtype
                letter = getattr(cd, "kind", "O")
                aware = getattr(cd, "tz", None) is not None
                if letter not in DTYPE_KINDS[kind] or aware != (kind == "dt_tz"):
                    bad("partition_dtype", "%s: %s came back with dtype %s, written as %s" % (what, c, cd, df[parts[ci]].dtype),
                        col=ci, pk=kind, **okey)
        if scheme == "hive":
            for ci, c in enumerate(parts):
                want = sorted({repr(v[ci]) for v in exp_rows.values()})
                got = sorted({repr(canon_key(v)) for v in pf.cats.get(c, [])})
                if got != want:
                    bad("cats", "%s: pf.cats[%s]=%r, keys used %r" % (what, c, got, want), col=ci, pk=kinds[ci], **okey)
        return True

    for si, sub1 in enumerate(subsets1):
        for prog in ("cycle", "blocks", "late"):
            # assignment of keys to the 6 rows
            if prog == "cycle":
                a1 = [sub1[i % len(sub1)] for i in range(n)]
            elif prog == "blocks":
                a1 = [sub1[min(i * len(sub1) // n, len(sub1) - 1)] for i in range(n)]
            else:   # a key that appears only in the last rows (later row group)
                a1 = [sub1[0]] * (n - 2) + [sub1[-1]] * 2
            sub2 = None
            if k2:
                # level-2 keys rotate through their pool with the level-1 subset
                sub2 = [pool2[(si + j) % len(pool2)] for j in range(2)]
                a2 = [sub2[(i // 2) % len(sub2)] for i in range(n)] if prog != "late" else [sub2[0]] * 5 + [sub2[-1]]
            for rgo in ((None, 2, [0, 3]) if thorough else (None, [0, 3])):
                # null keys: none / row 1 of level 1 / row 4 of level 2 / the whole first row group at level 1
                nullmodes = [None]
                if k1 not in NOT_NULLABLE:
                    nullmodes.append("p1r1")
                    if rgo == [0, 3] and prog != "blocks":
                        nullmodes.append("chunk0")
                if k2 and k2 not in NOT_NULLABLE:
                    nullmodes.append("p2r4")
                for vk, vnull in valkinds + ([] if thorough else [(("str_obj", "Int64")[si % 2], "alt")]):
                    for nullmode in nullmodes:
                        if not thorough:
                            if nullmode and prog != "cycle":
                                continue
                            if nullmode == "p2r4" and (rgo is not None or vk != "int64"):
                                continue
                            if vk != "int64" and rgo is not None:
                                continue
                            if vnull != "none" and (prog != "cycle" or nullmode):
                                continue
                        elif (vnull != "none" and (rgo is not None or nullmode)) or \
                                (nullmode in ("chunk0", "p2r4") and (vk != "int64" or rgo == 2)):
                            continue
                        if slim and not (vk == "int64" and vnull == "none" and not nullmode and (
                                (prog == "cycle" and rgo is None) or (prog == "late" and rgo == [0, 3]) or thorough)):
                            continue
                        if not thorough and k2 in XKINDS and vk == "cat_str":
                            continue    # level-2 cells of the wave 3 kinds: integer and NULL-holding value columns only
                        # frame index labels (dropped on write): duplicated / shuffled labels on the
                        # categorical-value datasets of the blocks / late programs
                        idx = "range"
                        if vk == "cat_str" and not nullmode and (rgo is None or thorough):
                            idx = {"blocks": "dup", "late": "shuffled"}.get(prog, "range")
                        # partition_on against the frame's column order, partition column first in the frame
                        orders = ["fwd"]
                        if prog == "late" and vk == "int64" and vnull == "none" and not nullmode:
                            orders = ["fwd", "rev"] if thorough else (["rev"] if rgo == [0, 3] else ["fwd"])
                        for order in orders:
                            ctx.clear()
                            ctx.update({"card": len(sub1), "prog": prog, "nullkeys": bool(nullmode)})
                            if nullmode and nullmode != "p1r1":
                                ctx["nullmode"] = nullmode
                            if idx != "range":
                                ctx["idx"] = idx
                            if order != "fwd":
                                ctx["order"] = order
                            if vnull != "none":
                                ctx["valnull"] = vk
                            if slim:
                                ctx["names"] = p["names"]
                            if any(isinstance(v, str) and "\\" in v for v in list(sub1) + list(sub2 or [])):
                                ctx["backslash"] = True
                            pcols = [(names[0], k1, key_series(k1, a1, n, names[0]))]
                            if k2:
                                pcols.append((names[1], k2, key_series(k2, a2, n, names[1])))
                            if p["k3"]:
                                pcols.append((names[2], "int", pd.Series([7, 7, 8, 8, 7, 8], dtype="int64", name=names[2])))
                            data = {"rid": pd.Series(list(range(n))), "val": A.series(vk, n, vnull, 0, "val")}
                            if order == "rev":
                                # frame: first partition column in front, the others last; partition_on: reversed
                                cols = [pcols[0]] + [("rid", None, data["rid"]), ("val", None, data["val"])] + pcols[1:]
                                pcols = pcols[::-1]
                            else:
                                cols = [("rid", None, data["rid"]), ("val", None, data["val"])] + pcols
                            df = pd.DataFrame({c[0]: c[2] for c in cols})
                            parts = [c[0] for c in pcols]
                            kinds = [c[1] for c in pcols]
                            if nullmode == "p1r1":
                                df.iloc[[1], df.columns.get_loc(names[0])] = null_of(k1)
                            elif nullmode == "chunk0":
                                df.iloc[[0, 1, 2], df.columns.get_loc(names[0])] = null_of(k1)
                            elif nullmode == "p2r4":
                                df.iloc[[4], df.columns.get_loc(names[1])] = null_of(k2)
                            if idx == "dup":
                                df.index = [0, 0, 0, 1, 1, 1]
                            elif idx == "shuffled":
                                df.index = [5, 3, 1, 4, 2, 0]
                            shutil.rmtree(path, ignore_errors=True)
                            what = "%s %s keys1=%r%s prog=%s rgo=%r val=%s%s nullkeys=%s idx=%s" % (
                                scheme, "/".join(parts), sub1, (" x %s %r" % (k2, sub2)) if k2 else "", prog, rgo, vk,
                                "" if vnull == "none" else "+NULLs", nullmode, idx)
                            try:
                                fastparquet.write(path, df, file_scheme=scheme, partition_on=parts, row_group_offsets=rgo,
                                                  write_index=False)
                            except Exception as e:
                                bad("write_raised", "%s: %s: %s" % (what, type(e).__name__, str(e)[:150]), exc=type(e).__name__)
                                continue
                            counts["datasets"] += 1
                            keep = df[df[parts].notnull().all(axis=1)]
                            exp_rows = {}
                            for i in range(len(keep)):
                                exp_rows[int(keep["rid"].iloc[i])] = tuple(canon_key(keep[c].iloc[i]) for c in parts)
                            expval = dict(zip(O.series_to_list(keep["rid"]), O.series_to_list(keep["val"])))
                            # (2) read back
                            try:
                                pf = fastparquet.ParquetFile(path)
                                out = pf.to_pandas()
                            except Exception as e:
                                bad("read_raised", "%s: %s: %s" % (what, type(e).__name__, str(e)[:150]), exc=type(e).__name__)
                                continue
                            if not verify(pf, out, what, df, keep, exp_rows, expval, parts, kinds):
                                continue
                            # (1) placement of every part file
                            dirs = set()
                            on_disk = []
                            for root, dirs_, files_ in os.walk(path):
                                for f in files_:
                                    if not f.startswith("part."):
                                        continue
                                    rel = os.path.relpath(root, path)
                                    segs = [] if rel == "." else rel.split(os.sep)
                                    dirs.add("/".join(segs))
                                    try:
                                        sub = fastparquet.ParquetFile(os.path.join(root, f)).to_pandas()
                                    except Exception as e:
                                        bad("part_unreadable", "%s: %s/%s: %s" % (what, rel, f, e))
                                        continue
                                    for r in O.series_to_list(sub["rid"]):
                                        on_disk.append(r)
                                        if r not in exp_rows:
                                            bad("placement", "%s: row %d with a null key is stored in %s" % (what, r, rel))
                                            continue
                                        sel = keep["rid"] == r
                                        want = [("%s=%s" % (c, key_text(scheme, keep.loc[sel, c].iloc[0]))) if scheme == "hive"
                                                else key_text(scheme, keep.loc[sel, c].iloc[0]) for c in parts]
                                        if segs != want:
                                            bad("placement", "%s: row %d lies in %r, its keys name %r" % (what, r, segs, want))
                            if sorted(on_disk) != sorted(exp_rows) and not any(s["symptom"] == "placement" and all(
                                    s.get(k) == v for k, v in ctx.items()) for s in sigs.values()):
                                # "and nowhere else": the part files together hold every row exactly once
                                bad("placement", "%s: part files on disk hold rows %r, written %r" % (
                                    what, sorted(on_disk), sorted(exp_rows)), kind="disk_multiset")
                            # (4) the order in which the directory names are met on opening (a set in the library)
                            sweep = any(k in STRISH for k in kinds) and vk == "int64" and vnull == "none" and \
                                rgo is None and order == "fwd" and (not nullmode or thorough and nullmode == "p1r1") and \
                                (scheme == "drill" and (prog == "cycle" or thorough) or
                                 scheme == "hive" and thorough and prog == "cycle")
                            if sweep and len(dirs) > 1:
                                orig = fapi._strip_path_tail
                                for o in dir_orders(dirs, thorough):
                                    def ordered(paths, _o=o):
                                        s = orig(paths)
                                        return [x for x in _o if x in s] + sorted(x for x in s if x not in _o)
                                    fapi._strip_path_tail = ordered
                                    try:
                                        pf2 = fastparquet.ParquetFile(path)
                                        out2 = pf2.to_pandas()
                                    except Exception as e:
                                        bad("read_raised", "%s, directories met as %r: %s: %s" % (
                                            what, o, type(e).__name__, str(e)[:150]), exc=type(e).__name__, met="permuted")
                                        continue
                                    finally:
                                        fapi._strip_path_tail = orig
                                    counts["order_reads"] += 1
                                    verify(pf2, out2, "%s, directories met as %r" % (what, o), df, keep, exp_rows, expval,
                                           parts, kinds, met="permuted")
    ok = not sigs
    return {"ok": ok, "outcome": "preserved" if ok else "differs", "nontrivial": counts["datasets"] > 0,
            "counts": counts, "sig": list(sigs.values()) or None, "detail": detail[0]}


LEVEL_TEXT = ("Bounded-exhaustive lattice over partition-column kinds (int, float, bool, timestamps incl. sub-second, "
              "nanosecond, second-resolution beyond the ns range and zone-aware ones, text incl. numeric-/boolean-/"
              "date-looking text, the pandas str dtype and unusual path characters, nullable and unsigned integers, "
              "categoricals with unused categories) x one or two (three) levels x key subsets x assignment programs "
              "(incl. keys that first appear in a later row group) x row-group splits x hive/drill x value kinds "
              "with and without NULLs x null keys at either level or filling a row group x index labels x "
              "partition_on order x partition column names x the order in which directory names are met; checks "
              "placement of every row on disk (each row exactly once), the multiset of rows read back, the names, "
              "values, value kinds and dtype kinds of the reconstructed partition columns, and pf.cats.")
LEVEL_NOTE = ("Trusted: pandas for building the frames. Six rows per frame; key pools are fixed boundary values; keys that "
              "coerce to the same value are outside the documented domain.")
TECHNIQUE = "bounded exhaustive enumeration of partition key types x values x layouts, placement + multiset + value-kind oracle"
